#!/bin/sh
# Offline setup: make sure hypothesis is importable in /venv and atheris in /verif/.deps.
set -e
cd "$(dirname "$0")"
export PIP_NO_INDEX=1 PIP_DISABLE_PIP_VERSION_CHECK=1
/venv/bin/python -c "import hypothesis" 2>/dev/null || \
  /venv/bin/pip install --no-index --find-links /opt/veriftools/wheels hypothesis
if ! PYTHONPATH=/verif/.deps /venv/bin/python -c "import atheris" 2>/dev/null; then
  /venv/bin/pip install --no-index --find-links /opt/veriftools/wheels --target /verif/.deps atheris >/dev/null 2>&1 || \
    echo "note: atheris could not be installed; thorough tiers fall back to Hypothesis only"
fi
/venv/bin/python -c "import hypothesis, sys; print('hypothesis', hypothesis.__version__)"
mkdir -p /verif/evidence /verif/replays
echo setup ok
