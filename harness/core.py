"""Core of the verification harness: case encoding, result/recorder objects,
known-findings handling, replay files, drivers (Hypothesis, exhaustive enumeration,
sharded multiprocess runs) and evidence writing.

Nothing here imports baize.  Oracles live in checks/<id>.py and return `Result`s.
"""
from __future__ import annotations

import hashlib
import json
import multiprocessing
import os
import sys
import time
import traceback
from collections import Counter
from typing import Any, Callable, Dict, Iterable, List, Optional, Sequence, Tuple

VERIF = os.path.dirname(os.path.dirname(os.path.abspath(__file__)))
REPO = os.environ.get("VERIF_REPO", "/repo")
KNOWN_FILE = os.path.join(VERIF, "KNOWN_FINDINGS.txt")
# evidence and violation replays go to VERIF unless redirected (mutant runs, experiments)
OUT = os.environ.get("VERIF_OUT") or VERIF


AFTER_FORK: list = []  # callables run in a forked shard worker before it starts (reset per-process caches)


class HarnessError(Exception):
    """A defect of the harness itself (exit code 2, never a VIOLATION)."""


# --------------------------------------------------------------------------------------
# JSON-able case encoding


def to_jsonable(x: Any) -> Any:
    if isinstance(x, (bytes, bytearray)):
        return {"$b": bytes(x).decode("latin-1")}
    if isinstance(x, dict):
        return {str(k): to_jsonable(v) for k, v in x.items()}
    if isinstance(x, (list, tuple)):
        return [to_jsonable(v) for v in x]
    if isinstance(x, (set, frozenset)):
        return sorted(to_jsonable(v) for v in x)
    if isinstance(x, float):
        if x != x or x in (float("inf"), float("-inf")):
            return {"$f": repr(x)}
        return x
    if x is None or isinstance(x, (str, int, bool)):
        return x
    return {"$r": repr(x)}


def from_jsonable(x: Any) -> Any:
    if isinstance(x, dict):
        if set(x) == {"$b"}:
            return x["$b"].encode("latin-1")
        if set(x) == {"$f"}:
            return float(x["$f"])
        return {k: from_jsonable(v) for k, v in x.items()}
    if isinstance(x, list):
        return [from_jsonable(v) for v in x]
    return x


def canon(case: Any) -> str:
    return json.dumps(to_jsonable(case), sort_keys=True, ensure_ascii=True)


def case_hash(case: Any) -> int:
    return int.from_bytes(hashlib.blake2b(canon(case).encode(), digest_size=8).digest(), "big")


# --------------------------------------------------------------------------------------
# Results of one oracle evaluation


class Failure:
    __slots__ = ("bucket", "msg")

    def __init__(self, bucket: str, msg: str) -> None:
        self.bucket = bucket
        self.msg = msg

    def __repr__(self) -> str:
        return f"Failure({self.bucket!r}, {self.msg!r})"


class Result:
    """What an oracle reports for one case."""

    __slots__ = ("failures", "labels", "nontrivial", "note", "weight", "key")

    def __init__(self) -> None:
        self.failures: List[Failure] = []
        self.labels: List[str] = []
        self.nontrivial = False
        self.note: Any = None  # optional observation to show in samples
        self.weight = 1  # number of evaluations this case stands for
        self.key: Any = None  # optional cheap hashable identity of the case (else canonical JSON)

    def fail(self, bucket: str, msg: str = "") -> None:
        self.failures.append(Failure(bucket, msg[:2000]))

    def label(self, *labels: str) -> None:
        self.labels.extend(labels)

    def ok(self) -> bool:
        return not self.failures


def baize_frame(exc: BaseException) -> Optional[str]:
    """file:function of the innermost traceback frame that lies inside baize, or None."""
    tb = exc.__traceback__
    found = None
    while tb is not None:
        fn = tb.tb_frame.f_code.co_filename
        if os.sep + "baize" + os.sep in fn and "/verif/" not in fn:
            rel = fn.split(os.sep + "baize" + os.sep, 1)[1]
            found = f"{rel}:{tb.tb_frame.f_code.co_name}"
        tb = tb.tb_next
    return found


def exc_bucket(exc: BaseException) -> str:
    return f"{type(exc).__name__}@{baize_frame(exc) or 'outside-baize'}"


from asyncio import CancelledError as _CancelledError  # noqa: E402


def guarded(oracle: Callable[[Any], Result]) -> Callable[[Any], Result]:
    """Wrap an oracle: an exception that passes through a baize frame becomes a failure of
    the case (the code under test crashed where the oracle expected a value); anything else
    is a harness error."""

    def run(case: Any) -> Result:
        try:
            return oracle(case)
        except HarnessError:
            raise
        except RecursionError as exc:  # may or may not involve baize frames
            frame = baize_frame(exc)
            if frame is None:
                raise HarnessError("RecursionError outside baize") from exc
            r = Result()
            r.fail(f"crash:{exc_bucket(exc)}", "RecursionError")
            return r
        except (Exception, _CancelledError) as exc:  # noqa: BLE001
            # (asyncio.CancelledError is a BaseException: a call of the code under test that cancels itself - nobody injected
            # it - must end up here and not fall through every `except Exception` up to the runner, where it was an exit 2
            # without a message: found by seed C06-20)
            frame = baize_frame(exc)
            obj = getattr(exc, "obj", None) if isinstance(exc, AttributeError) else None
            if frame is None and obj is not None and (type(obj).__module__ or "").startswith("baize"):
                # the oracle (or the server model) read a documented attribute of a baize object - exc.status_code,
                # response.headers ... - and the object does not have it: the code under test is broken, not the harness
                r = Result()
                r.fail(f"crash:AttributeError@{type(obj).__name__}.{getattr(exc, 'name', '?')}", "a baize object lacks an attribute the oracle reads: " + "".join(traceback.format_exception(exc))[-1200:])
                return r
            if frame is None:
                raise HarnessError(
                    "oracle raised outside baize: " + "".join(traceback.format_exception(exc))[-3000:]
                ) from exc
            r = Result()
            r.fail(
                f"crash:{exc_bucket(exc)}",
                "unexpected exception from the code under test: "
                + "".join(traceback.format_exception(exc))[-1500:],
            )
            return r

    run.__name__ = getattr(oracle, "__name__", "oracle")
    return run


# --------------------------------------------------------------------------------------
# Known findings


def load_known(pid: str) -> Dict[str, str]:
    """bucket key -> description, for `finding:` lines of this property."""
    known: Dict[str, str] = {}
    if not os.path.exists(KNOWN_FILE):
        return known
    for line in open(KNOWN_FILE, encoding="utf-8"):
        line = line.strip()
        if not line.startswith("finding:"):
            continue
        rest = line[len("finding:"):].strip()
        parts = rest.split(None, 2)
        if len(parts) < 2:
            continue
        prop = parts[0].split("=", 1)[1] if parts[0].startswith("property=") else None
        key = parts[1].split("=", 1)[1] if parts[1].startswith("key=") else None
        if prop == pid and key:
            known[key] = parts[2] if len(parts) > 2 else ""
    return known


# --------------------------------------------------------------------------------------
# Recorder


class Recorder:
    MAX_SAMPLES = 10
    MAX_NT = 4_000_000

    def __init__(self, pid: str, tier: str, seed: int, level: str = "exploration") -> None:
        self.pid = pid
        self.tier = tier
        self.seed = seed
        self.level = level
        self.evaluations = 0
        self.nontrivial: set = set()
        self.labels: Counter = Counter()
        self.sub_evals: Counter = Counter()
        self.samples: List[Any] = []
        self._sample_subs: Counter = Counter()
        self.known = load_known(pid)
        self.known_hits: Counter = Counter()
        self.excluded_known = 0
        self.violations: List[Dict[str, Any]] = []  # {sub, bucket, msg, case}
        self.skip: set = set()  # buckets already collected in this run
        self.exhaustive: Dict[str, bool] = {}
        self.rules: Dict[str, str] = {}
        self.assumptions: List[str] = []
        self.extra: Dict[str, Any] = {}
        self.sub_seconds: Dict[str, float] = {}  # wall time per sub-check (drivers in this process only)
        self.only: Optional[set] = None  # debugging: restrict drive_hypothesis / drive_cases to these sub-checks
        self.t0 = time.time()

    # -- counting ------------------------------------------------------------------
    def count(self, sub: str, case: Any, res: Result, want_sample: bool = True) -> None:
        self.evaluations += res.weight
        self.sub_evals[sub] += res.weight
        for lab in res.labels:
            self.labels[f"{sub}:{lab}"] += 1
        if res.nontrivial and len(self.nontrivial) < self.MAX_NT:
            self.nontrivial.add(hash((sub, res.key)) if res.key is not None else case_hash((sub, case)))
        if want_sample and self._sample_subs[sub] < 3 and len(self.samples) < 40:
            if res.nontrivial or self._sample_subs[sub] == 0:
                self._sample_subs[sub] += 1
                s = {"sub": sub, "case": to_jsonable(case)}
                if res.note is not None:
                    s["observed"] = to_jsonable(res.note)
                self.samples.append(s)

    def split(self, res: Result) -> Tuple[List[Failure], List[Failure]]:
        """(new failures, known failures)"""
        new, old = [], []
        for f in res.failures:
            if f.bucket in self.known:
                old.append(f)
            elif f.bucket in self.skip:
                pass
            else:
                new.append(f)
        return new, old

    def note_known(self, fails: Sequence[Failure]) -> None:
        if fails:
            self.excluded_known += 1
        for f in fails:
            self.known_hits[f.bucket] += 1

    def add_violation(self, sub: str, f: Failure, case: Any) -> None:
        self.violations.append({"sub": sub, "bucket": f.bucket, "msg": f.msg, "case": to_jsonable(case)})

    # -- merging (multiprocess shards) -----------------------------------------------
    def state(self) -> Dict[str, Any]:
        return {
            "evaluations": self.evaluations,
            "nontrivial": self.nontrivial,
            "labels": self.labels,
            "sub_evals": self.sub_evals,
            "samples": self.samples,
            "known_hits": self.known_hits,
            "excluded_known": self.excluded_known,
            "violations": self.violations,
            "extra": self.extra,
        }

    def merge(self, st: Dict[str, Any]) -> None:
        self.evaluations += st["evaluations"]
        if len(self.nontrivial) < self.MAX_NT:
            self.nontrivial |= st["nontrivial"]
        self.labels.update(st["labels"])
        self.sub_evals.update(st["sub_evals"])
        for s in st["samples"]:
            if self._sample_subs[s["sub"]] < 3 and len(self.samples) < 40:
                self._sample_subs[s["sub"]] += 1
                self.samples.append(s)
        self.known_hits.update(st["known_hits"])
        self.excluded_known += st["excluded_known"]
        seen = {v["bucket"] for v in self.violations}
        for v in st["violations"]:
            if v["bucket"] not in seen:
                seen.add(v["bucket"])
                self.violations.append(v)
        for k, v in st.get("extra", {}).items():
            if isinstance(v, (int, float)) and isinstance(self.extra.get(k), (int, float)):
                self.extra[k] += v
            else:
                self.extra.setdefault(k, v)

    # -- output --------------------------------------------------------------------
    def write_replay(self, v: Dict[str, Any]) -> str:
        d = os.path.join(OUT, "replays", self.pid)
        os.makedirs(d, exist_ok=True)
        body = {
            "property": self.pid,
            "sub": v["sub"],
            "bucket": v["bucket"],
            "message": v["msg"],
            "expect": "pass",
            "case": v["case"],
        }
        h = hashlib.sha1(json.dumps([v["sub"], v["bucket"], v["case"]], sort_keys=True).encode()).hexdigest()[:12]
        path = os.path.join(d, f"viol-{h}.json")
        with open(path, "w", encoding="utf-8") as fh:
            json.dump(body, fh, indent=1, sort_keys=True)
        return path

    def finish(self) -> int:
        """Print verdict lines, write evidence, return exit code."""
        for key, n in sorted(self.known_hits.items()):
            print(f"KNOWN-FINDING: property={self.pid} key={key} ({n} cases) {self.known.get(key, '')}")
        for v in self.violations:
            path = self.write_replay(v)
            print(f"VIOLATION property={self.pid} replay={path}")
            print(f"  sub={v['sub']} bucket={v['bucket']}\n  {v['msg'][:1500]}")
        if self.only is None:  # a debugging run restricted to some sub-checks must not pass for the check's evidence
            self.write_evidence()
        return 1 if self.violations else 0

    def write_evidence(self) -> None:
        d = os.path.join(OUT, "evidence")
        os.makedirs(d, exist_ok=True)
        rule = " || ".join(f"[{k}] {v}" for k, v in self.rules.items())
        cov: Dict[str, Any] = {
            "evaluations": int(self.evaluations),
            "distinct_nontrivial": len(self.nontrivial),
            "rule": rule,
            "samples": self.samples[: self.MAX_SAMPLES],
            "per_subcheck_evaluations": dict(self.sub_evals),
            "labels": dict(sorted(self.labels.items())),
            "excluded_known": self.excluded_known,
            "known_finding_hits": dict(self.known_hits),
            "exhaustive_subchecks": {k: v for k, v in self.exhaustive.items()},
            "exhaustive": bool(self.exhaustive) and all(self.exhaustive.values()),
            "seconds_per_subcheck": dict(self.sub_seconds),
        }
        cov.update(self.extra)
        ev = {
            "property_id": self.pid,
            "tier": self.tier,
            "seed": int(self.seed),
            "level": self.level,
            "coverage": cov,
            "assumptions": self.assumptions,
            "wall_s": round(time.time() - self.t0, 2),
            "violations": len(self.violations),
        }
        tmp = os.path.join(d, f"{self.pid}.json.tmp")
        with open(tmp, "w", encoding="utf-8") as fh:
            json.dump(ev, fh, indent=1, sort_keys=True)
        os.replace(tmp, os.path.join(d, f"{self.pid}.json"))


# --------------------------------------------------------------------------------------
# Drivers


class _Found(Exception):
    pass


_HYP_REGISTRY: Dict[str, Any] = {}


def _hyp_shard(rec: "Recorder", k: int, n: int, key: str) -> None:
    strategy, oracle, per_shard, seed_offset, max_buckets, shrink = _HYP_REGISTRY[key]
    drive_hypothesis(rec, key.split("/", 1)[1], strategy, oracle, per_shard, seed_offset + 1_000_003 * (k + 1), max_buckets, shrink, parallel=False)


def drive_hypothesis(
    rec: Recorder,
    sub: str,
    strategy: Any,
    oracle: Callable[[Any], Result],
    max_examples: int,
    seed_offset: int = 0,
    max_buckets: Optional[int] = None,
    shrink: bool = True,
    parallel: bool = True,
) -> None:
    """Run `oracle` over `max_examples` cases drawn from `strategy`.  Failures whose bucket is
    a known finding are counted and skipped; a new bucket is shrunk, recorded, added to the
    skip set and the search restarted (collect-then-shrink), up to max_buckets.

    In the thorough tier a large budget is split over forked worker processes (one Hypothesis run
    per shard, seed = f(VERIF_SEED, shard)); the shard recorders are merged."""
    if rec.only is not None and sub not in rec.only:
        return
    _t0 = time.time()
    try:
        return _drive_hypothesis(rec, sub, strategy, oracle, max_examples, seed_offset, max_buckets, shrink, parallel)
    finally:
        rec.sub_seconds[sub] = round(rec.sub_seconds.get(sub, 0.0) + time.time() - _t0, 2)


def _drive_hypothesis(rec, sub, strategy, oracle, max_examples, seed_offset=0, max_buckets=None, shrink=True, parallel=True) -> None:
    if parallel and rec.tier == "thorough" and max_examples >= 3000 and ncpu() > 1:
        shards = min(16, ncpu())
        key = f"{rec.pid}/{sub}"
        _HYP_REGISTRY[key] = (strategy, oracle, max(1, max_examples // shards), seed_offset, max_buckets, shrink)
        run_sharded(rec, _hyp_shard, shards, shards, (key,))
        return
    import hypothesis
    from hypothesis import HealthCheck, Phase, given, settings

    oracle = guarded(oracle)
    if max_buckets is None:
        max_buckets = 2 if rec.tier == "quick" else 6
    phases = [Phase.explicit, Phase.generate] + ([Phase.shrink] if shrink else [])
    shrink_budget = 40.0 if rec.tier == "quick" else 150.0
    st = settings(
        max_examples=max_examples,
        database=None,
        deadline=None,
        derandomize=False,
        report_multiple_bugs=False,
        phases=phases,
        suppress_health_check=[HealthCheck.too_slow, HealthCheck.data_too_large, HealthCheck.filter_too_much]
        if False
        else [HealthCheck.too_slow, HealthCheck.data_too_large],
        print_blob=False,
    )
    rounds = 0
    while True:
        last: Dict[str, Any] = {}
        shrinking = {"on": False}

        def body(case: Any) -> None:
            if shrinking["on"] and time.monotonic() - last.get("t0", 0.0) > shrink_budget:
                # the violation is established; the clock only bounds how long the reproduction is
                # minimised further (every later attempt "passes", so the shrinker winds down at once)
                return
            res = oracle(case)
            new, old = rec.split(res)
            if not shrinking["on"]:
                rec.count(sub, case, res)
                rec.note_known(old)
            if new:
                if not shrinking["on"]:
                    last["t0"] = time.monotonic()
                shrinking["on"] = True
                # while shrinking, stick to the first new bucket seen
                tgt = last.get("bucket")
                pick = None
                for f in new:
                    if tgt is None or f.bucket == tgt:
                        pick = f
                        break
                if pick is None:
                    return
                last["bucket"] = pick.bucket
                last["f"] = pick
                last["case"] = case
                raise _Found(pick.bucket)

        test = hypothesis.seed(rec.seed * 7919 + seed_offset + rounds * 104729)(settings(st)(given(strategy)(body)))
        try:
            test()
        except _Found:
            pass
        except hypothesis.errors.FailedHealthCheck as exc:
            raise HarnessError(f"health check failed in {rec.pid}/{sub}: {exc}") from exc
        except hypothesis.errors.Flaky as exc:  # FlakyFailure derives from it in 6.x
            if "f" not in last:
                raise HarnessError(f"flaky without failure in {rec.pid}/{sub}: {exc}") from exc
        except BaseExceptionGroup as exc:  # type: ignore[name-defined]  # noqa: F821
            if "f" not in last:
                raise HarnessError(f"exception group in {rec.pid}/{sub}: {exc!r}") from exc
        except Exception as exc:  # noqa: BLE001
            # an internal error of the shrinker (seen with history-dependent failures) after a violation was
            # established only costs minimisation; without a recorded failure it is a harness error
            if "f" not in last or baize_frame(exc) is not None:
                raise
        if "f" in last:
            rec.add_violation(sub, last["f"], last["case"])
            rec.skip.add(last["f"].bucket)
            rounds += 1
            if rounds >= max_buckets:
                return
            continue
        return


def drive_cases(
    rec: Recorder,
    sub: str,
    cases: Iterable[Any],
    oracle: Callable[[Any], Result],
    sample: bool = True,
) -> None:
    """Plain loop over explicit cases (enumeration in-process).  First failing case of each
    new bucket is recorded (enumeration order = shortest first, so it is minimal)."""
    if rec.only is not None and sub not in rec.only:
        return
    oracle = guarded(oracle)
    _t0 = time.time()
    for case in cases:
        res = oracle(case)
        rec.count(sub, case, res, want_sample=sample)
        new, old = rec.split(res)
        rec.note_known(old)
        for f in new:
            rec.add_violation(sub, f, case)
            rec.skip.add(f.bucket)
    rec.sub_seconds[sub] = round(rec.sub_seconds.get(sub, 0.0) + time.time() - _t0, 2)


def _fresh_thread_pools() -> None:
    """After fork the worker threads of the parent's executors do not exist, but the executor objects
    still believe they do: work submitted to them would wait for ever.  baize keeps one class-level
    pool for WSGI event streams; give the child its own."""
    mod = sys.modules.get("baize.wsgi.responses")
    if mod is None:
        return
    cls = getattr(mod, "SendEventResponse", None)
    pool = getattr(cls, "thread_pool", None)
    if pool is not None:
        cls.thread_pool = type(pool)(max_workers=getattr(pool, "_max_workers", 10), thread_name_prefix="SendEvent_")


def _shard_entry(args: Tuple[Any, ...]) -> Dict[str, Any]:
    fn, pid, tier, seed, level, k, n, extra = args
    try:
        from harness import tmpfiles

        del tmpfiles._DIRS[:]  # directories inherited from the parent belong to the parent
        from harness import gateways

        if gateways._LOOP is not None:
            gateways._INHERITED.append(gateways._LOOP)  # never finalise the parent's loop here (see gateways._INHERITED)
        gateways._LOOP = None  # the parent's loop has executor threads that do not exist after fork
        _fresh_thread_pools()
        for hook in AFTER_FORK:
            hook()
        rec = Recorder(pid, tier, seed, level)
        try:
            fn(rec, k, n, *extra)
        finally:
            from harness import tmpfiles

            tmpfiles.cleanup()
        return rec.state()
    except HarnessError as exc:
        return {"__harness_error__": f"shard {k}: {exc}"}
    except BaseException as exc:  # noqa: BLE001
        return {"__harness_error__": f"shard {k}: " + "".join(traceback.format_exception(exc))[-3000:]}


def run_sharded(
    rec: Recorder,
    fn: Callable[..., None],
    nshards: int,
    procs: int,
    extra: Tuple[Any, ...] = (),
) -> None:
    """Run fn(shard_recorder, k, nshards, *extra) for k in range(nshards) in `procs` worker
    processes (fork) and merge the shard recorders into rec.  fn must be a module-level
    function."""
    if procs <= 1 or nshards <= 1:
        for k in range(nshards):
            sub = Recorder(rec.pid, rec.tier, rec.seed, rec.level)
            fn(sub, k, nshards, *extra)
            rec.merge(sub.state())
        return
    # a live event loop must not be inherited by the workers (see gateways._INHERITED): finish it first, the next
    # gateway call in this process makes a new one
    gw_mod = sys.modules.get("harness.gateways")
    lp = getattr(gw_mod, "_LOOP", None)
    if lp is not None and not lp.is_running():
        try:
            lp.close()
        except Exception:  # noqa: BLE001
            pass
        gw_mod._LOOP = None
    ctx = multiprocessing.get_context("fork")
    args = [(fn, rec.pid, rec.tier, rec.seed, rec.level, k, nshards, extra) for k in range(nshards)]
    with ctx.Pool(min(procs, nshards)) as pool:
        for st in pool.imap_unordered(_shard_entry, args):
            if "__harness_error__" in st:
                pool.terminate()
                raise HarnessError(st["__harness_error__"])
            rec.merge(st)


def ncpu() -> int:
    try:
        return max(1, len(os.sched_getaffinity(0)))
    except Exception:  # noqa: BLE001
        return os.cpu_count() or 1
