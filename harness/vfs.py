"""Virtual file clock and open-audit.

install() must run before baize is imported: it replaces os.stat by a wrapper that, for
paths registered in CLOCK, returns a genuine os.stat_result whose atime/mtime/ctime (float, int
and _ns forms) come from the harness table.  Everything else passes through.  This makes
"touch", "rewrite one second later", "restore an old mtime" exact and instantaneous, whatever
stat field or import style the code under test uses.

The audit hook records `open` events (raised by open() and os.open()) while armed.
"""
from __future__ import annotations

import os
import sys
from typing import Dict, List, Optional, Tuple

_orig_stat = os.stat
CLOCK: Dict[str, Tuple[float, float, float]] = {}  # abspath -> (atime, mtime, ctime)
_installed = False
_audit_armed = False
_audit_log: List[str] = []


def _rebuild(st: os.stat_result, times: Tuple[float, float, float]) -> os.stat_result:
    cls, (seq, extra) = st.__reduce__()  # type: ignore[misc]
    seq = list(seq)
    a, m, c = times
    seq[7], seq[8], seq[9] = int(a), int(m), int(c)
    extra = dict(extra)
    extra["st_atime"], extra["st_mtime"], extra["st_ctime"] = float(a), float(m), float(c)
    extra["st_atime_ns"] = int(round(a * 1_000_000_000))
    extra["st_mtime_ns"] = int(round(m * 1_000_000_000))
    extra["st_ctime_ns"] = int(round(c * 1_000_000_000))
    return cls(tuple(seq), extra)


def _stat(path, *args, **kwargs):  # type: ignore[no-untyped-def]
    st = _orig_stat(path, *args, **kwargs)
    if CLOCK and isinstance(path, (str, bytes, os.PathLike)) and not args and not kwargs.get("dir_fd"):
        try:
            key = os.path.abspath(os.fsdecode(path))
        except Exception:  # noqa: BLE001
            return st
        times = CLOCK.get(key)
        if times is not None:
            return _rebuild(st, times)
    return st


def _audit(event: str, args) -> None:  # type: ignore[no-untyped-def]
    if _audit_armed and event == "open":
        try:
            p = args[0]
            if isinstance(p, (str, bytes)):
                _audit_log.append(os.path.abspath(os.fsdecode(p)))
        except Exception:  # noqa: BLE001
            pass


def install() -> None:
    global _installed
    if _installed:
        return
    _installed = True
    os.stat = _stat  # type: ignore[assignment]
    import mimetypes

    mimetypes.init()  # one-time reads must not show up in the audit log
    sys.addaudithook(_audit)


def arm() -> None:
    global _audit_armed
    del _audit_log[:]
    _audit_armed = True


def disarm() -> List[str]:
    global _audit_armed
    _audit_armed = False
    out = list(_audit_log)
    del _audit_log[:]
    return out


def set_times(path: str, atime: float, mtime: float, ctime: float) -> None:
    CLOCK[os.path.abspath(path)] = (atime, mtime, ctime)


def clear_times(prefix: Optional[str] = None) -> None:
    if prefix is None:
        CLOCK.clear()
    else:
        prefix = os.path.abspath(prefix)
        for k in [k for k in CLOCK if k.startswith(prefix)]:
            del CLOCK[k]
