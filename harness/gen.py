"""Shared Hypothesis strategies: multipart forms, partitions, abstract requests."""
from __future__ import annotations

from typing import Any, Dict, List

from hypothesis import strategies as st

B_ALPHABET = "abcdefghijklmnopqrstuvwxyzABCDEFGHIJKLMNOPQRSTUVWXYZ0123456789'()+_,-./:=?"


@st.composite
def boundaries(draw) -> str:
    kind = draw(st.integers(0, 9))
    if kind <= 4:
        s = draw(st.text(alphabet="abX-1", min_size=1, max_size=4))  # short: look-alikes are frequent
    elif kind <= 6:
        s = draw(st.text(alphabet=B_ALPHABET, min_size=1, max_size=12))
    elif kind == 7:
        s = draw(st.text(alphabet=B_ALPHABET + " ", min_size=2, max_size=20))
    elif kind == 8:
        s = draw(st.sampled_from(["----WebKitFormBoundary7MA4YWxkTrZu0gW", "a" * 70, "b b", "'()+_,-./:=?", "-", "--", "---", "boundary", "X" * 69 + "-"]))
    else:
        s = draw(st.text(alphabet="-", min_size=1, max_size=5))
    s = s.strip(" ") or "b"
    return s[:70]


def _content_pieces(boundary: str):
    b = boundary
    delim = "\r\n--" + b
    prefixes = [delim[:i] for i in range(1, len(delim))]
    lookalike = ["--" + b[:-1] + ("Z" if b[-1:] != "Z" else "Y"), "\r\n--" + b[:-1], "--" + b[: max(1, len(b) // 2)], "-" + b, b, b + "--"]
    fixed = ["\r", "\n", "\r\n", "-", "--", "---", " ", "\t", "\r\r", "\n\n", "\n\r", "a", "xyz", "\x00", "\xff", "é"]
    return st.one_of(
        st.sampled_from(fixed),
        st.sampled_from(prefixes),
        st.sampled_from(lookalike),
        st.binary(max_size=6).map(lambda x: x.decode("latin-1")),
    )


@st.composite
def contents(draw, boundary: str, max_pieces: int = 8, text_charset: str | None = None) -> bytes:
    """Content bytes that never contain '--'+boundary.  With text_charset, the result is the
    encoding of a text in that charset (field content)."""
    pieces = draw(st.lists(_content_pieces(boundary), max_size=max_pieces))
    s = "".join(pieces)
    if draw(st.integers(0, 5)) == 0:
        s += draw(st.sampled_from(["\r", "\r\n", "\n", "\r\n-", "\r\n--", "-", "--"]))
    needle = "--" + boundary
    for _ in range(20):
        if needle not in s:
            break
        s = s.replace(needle, "")
    else:
        s = s.replace("-", "")
    if text_charset is not None:
        # keep only what the charset can encode (hostile pieces are ASCII, so they survive)
        s = "".join(ch for ch in s if _enc_ok(ch, text_charset))
        data = s.encode(text_charset)
    else:
        data = s.encode("latin-1")
    nb = needle.encode("latin-1")
    for _ in range(20):
        if nb not in data:
            break
        data = data.replace(nb, b"")
    else:
        data = data.replace(b"-", b"")
    return data


def _enc_ok(ch: str, cs: str) -> bool:
    try:
        return ch.encode(cs).decode(cs) == ch
    except (UnicodeEncodeError, UnicodeDecodeError):
        return False


_NAME_CHARS = st.one_of(
    st.sampled_from(["a", "b", "field", "f1", ";", "=", " ", "é", "中", ":", ",", "'", "x y", "a;b=c", "name", "*", "%22", "&"]),
    st.text(alphabet="abc123;= .:é-_", min_size=1, max_size=5),
)


@st.composite
def names(draw, charset: str, allow_empty: bool = False) -> str:
    s = "".join(draw(st.lists(_NAME_CHARS, min_size=0 if allow_empty else 1, max_size=3)))
    s = "".join(ch for ch in s if ch not in '"\\\r\n' and _enc_ok(ch, charset))
    if not s and not allow_empty:
        s = "n"
    return s


@st.composite
def forms(draw, max_parts: int = 6, max_pieces: int = 8) -> Dict[str, Any]:
    boundary = draw(boundaries())
    charset = draw(st.sampled_from(["utf-8", "utf-8", "latin-1", "gbk"]))
    nparts = draw(st.integers(0, max_parts))
    parts: List[Dict[str, Any]] = []
    for _ in range(nparts):
        is_file = draw(st.booleans())
        part: Dict[str, Any] = {"name": draw(names(charset)), "filename": None, "headers": []}
        if is_file:
            part["filename"] = draw(names(charset, allow_empty=True))
            if draw(st.booleans()):
                part["headers"].append([draw(st.sampled_from(["Content-Type", "content-type", "CONTENT-TYPE"])),
                                        draw(st.sampled_from(["text/plain", "application/octet-stream", "image/png", "text/plain; charset=utf-8"]))])
            if draw(st.integers(0, 3)) == 0:
                part["headers"].append([draw(st.sampled_from(["X-Extra", "x-meta", "Content-Transfer-Encoding"])),
                                        draw(st.sampled_from(["1", "binary", "a b", "folded\r\n value", "v: w", ""]))])
            part["content"] = draw(contents(boundary, max_pieces))
        else:
            if draw(st.integers(0, 5)) == 0:
                part["headers"].append(["Content-Type", "text/plain"])
            part["content"] = draw(contents(boundary, max_pieces, text_charset=charset))
        if draw(st.integers(0, 7)) == 0:
            part["cd_name"] = draw(st.sampled_from(["content-disposition", "CONTENT-DISPOSITION", "Content-disposition"]))
        parts.append(part)
    needle = ("--" + boundary).encode("latin-1")
    pre = draw(st.one_of(st.none(), st.none(), st.sampled_from([b"", b"This is the preamble.", b"a\r\nb", b"\r\n", b"--", b"x\r"])))
    epi = draw(st.one_of(st.none(), st.none(), st.sampled_from([b"", b"epilogue", b"\r\n", b"a\r\nb", b"--"])))
    if pre is not None and needle in pre:
        pre = b""
    if epi is not None and needle in epi:
        epi = b""
    return {
        "boundary": boundary,
        "charset": charset,
        "preamble": pre,
        "epilogue": epi,
        "padding": draw(st.sampled_from([b"", b"", b"", b" ", b" \t", b"  "])),
        "parts": parts,
    }


def cut_lists(max_len: int = 400):
    """Hypothesis-drawn multi-cut partitions (repeats = empty chunks)."""
    return st.lists(st.integers(0, max_len), max_size=8)
