"""Shared Hypothesis strategies: multipart forms, partitions, abstract requests."""
from __future__ import annotations

from typing import Any, Dict, List

from hypothesis import strategies as st

B_ALPHABET = "abcdefghijklmnopqrstuvwxyzABCDEFGHIJKLMNOPQRSTUVWXYZ0123456789'()+_,-./:=?"


@st.composite
def boundaries(draw) -> str:
    kind = draw(st.integers(0, 9))
    if kind <= 4:
        s = draw(st.text(alphabet="abX-1", min_size=1, max_size=4))  # short: look-alikes are frequent
    elif kind <= 6:
        s = draw(st.text(alphabet=B_ALPHABET, min_size=1, max_size=12))
    elif kind == 7:
        s = draw(st.text(alphabet=B_ALPHABET + " ", min_size=2, max_size=20))
    elif kind == 8:
        s = draw(st.sampled_from(["----WebKitFormBoundary7MA4YWxkTrZu0gW", "a" * 70, "b b", "'()+_,-./:=?", "-", "--", "---", "boundary", "X" * 69 + "-"]))
    else:
        s = draw(st.text(alphabet="-", min_size=1, max_size=5))
    s = s.strip(" ") or "b"
    return s[:70]


def _content_pieces(boundary: str):
    b = boundary
    delim = "\r\n--" + b
    prefixes = [delim[:i] for i in range(1, len(delim))]
    lookalike = ["--" + b[:-1] + ("Z" if b[-1:] != "Z" else "Y"), "\r\n--" + b[:-1], "--" + b[: max(1, len(b) // 2)], "-" + b, b, b + "--"]
    fixed = ["\r", "\n", "\r\n", "-", "--", "---", " ", "\t", "\r\r", "\n\n", "\n\r", "a", "xyz", "\x00", "\xff", "é"]
    return st.one_of(
        st.sampled_from(fixed),
        st.sampled_from(prefixes),
        st.sampled_from(lookalike),
        st.binary(max_size=6).map(lambda x: x.decode("latin-1")),
    )


@st.composite
def contents(draw, boundary: str, max_pieces: int = 8, text_charset: str | None = None) -> bytes:
    """Content bytes that never contain '--'+boundary.  With text_charset, the result is the
    encoding of a text in that charset (field content)."""
    pieces = draw(st.lists(_content_pieces(boundary), max_size=max_pieces))
    s = "".join(pieces)
    if draw(st.integers(0, 5)) == 0:
        s += draw(st.sampled_from(["\r", "\r\n", "\n", "\r\n-", "\r\n--", "-", "--"]))
    needle = "--" + boundary
    for _ in range(20):
        if needle not in s:
            break
        s = s.replace(needle, "")
    else:
        s = s.replace("-", "")
    if text_charset is not None:
        # keep only what the charset can encode (hostile pieces are ASCII, so they survive)
        s = "".join(ch for ch in s if _enc_ok(ch, text_charset))
        data = s.encode(text_charset)
    else:
        data = s.encode("latin-1")
    nb = needle.encode("latin-1")
    for _ in range(20):
        if nb not in data:
            break
        data = data.replace(nb, b"")
    else:
        data = data.replace(b"-", b"")
    return data


def _enc_ok(ch: str, cs: str) -> bool:
    try:
        return ch.encode(cs).decode(cs) == ch
    except (UnicodeEncodeError, UnicodeDecodeError):
        return False


_NAME_CHARS = st.one_of(
    st.sampled_from(["a", "b", "field", "f1", ";", "=", " ", "é", "中", ":", ",", "'", "x y", "a;b=c", "name", "*", "%22", "&",
                     "a\x0bb", "a\x0cb", "x\x1cy", "n\x85m", "l\u2028s", "p\u2029s", "t\tb", "co:lon"]),
    st.text(alphabet="abc123;= .:é-_", min_size=1, max_size=5),
)


@st.composite
def names(draw, charset: str, allow_empty: bool = False) -> str:
    s = "".join(draw(st.lists(_NAME_CHARS, min_size=0 if allow_empty else 1, max_size=3)))
    s = "".join(ch for ch in s if ch not in '"\\\r\n' and _enc_ok(ch, charset))
    if not s and not allow_empty:
        s = "n"
    return s


@st.composite
def forms(draw, max_parts: int = 6, max_pieces: int = 8) -> Dict[str, Any]:
    boundary = draw(boundaries())
    charset = draw(st.sampled_from(["utf-8", "utf-8", "latin-1", "gbk"]))
    nparts = draw(st.integers(0, max_parts))
    parts: List[Dict[str, Any]] = []
    for _ in range(nparts):
        is_file = draw(st.booleans())
        part: Dict[str, Any] = {"name": draw(names(charset)), "filename": None, "headers": []}
        if is_file:
            part["filename"] = draw(names(charset, allow_empty=True))
            if draw(st.booleans()):
                part["headers"].append([draw(st.sampled_from(["Content-Type", "content-type", "CONTENT-TYPE"])),
                                        draw(st.sampled_from(["text/plain", "application/octet-stream", "image/png", "text/plain; charset=utf-8"]))])
            if draw(st.integers(0, 3)) == 0:
                part["headers"].append([draw(st.sampled_from(["X-Extra", "x-meta", "Content-Transfer-Encoding"])),
                                        draw(st.sampled_from(["1", "binary", "a b", "folded\r\n value", "v: w", ""]))])
            part["content"] = draw(contents(boundary, max_pieces))
        else:
            if draw(st.integers(0, 5)) == 0:
                part["headers"].append(["Content-Type", "text/plain"])
            part["content"] = draw(contents(boundary, max_pieces, text_charset=charset))
        if draw(st.integers(0, 7)) == 0:
            part["cd_name"] = draw(st.sampled_from(["content-disposition", "CONTENT-DISPOSITION", "Content-disposition"]))
        parts.append(part)
    needle = ("--" + boundary).encode("latin-1")
    pre = draw(st.one_of(st.none(), st.none(), st.sampled_from([b"", b"This is the preamble.", b"a\r\nb", b"\r\n", b"--", b"x\r"])))
    epi = draw(st.one_of(st.none(), st.none(), st.sampled_from([b"", b"epilogue", b"\r\n", b"a\r\nb", b"--"])))
    if pre is not None and needle in pre:
        pre = b""
    if epi is not None and needle in epi:
        epi = b""
    return {
        "boundary": boundary,
        "charset": charset,
        "preamble": pre,
        "epilogue": epi,
        "padding": draw(st.sampled_from([b"", b"", b"", b" ", b" \t", b"  "])),
        "parts": parts,
    }


def cut_lists(max_len: int = 400):
    """Hypothesis-drawn multi-cut partitions (repeats = empty chunks)."""
    return st.lists(st.integers(0, max_len), max_size=8)


# ------------------------------------------------------------------------------------------
# response recipes (see harness/recipes.py)

HEADER_NAMES = ["x-a", "X-B", "Cache-Control", "Vary", "Content-Language", "x-empty", "ETag", "X-Frame-Options", "x-inner", "Link", "Server-Timing"]
_hval = st.one_of(
    st.sampled_from(["1", "no-cache", "a, b", "", "é", "ÿ", "x y", "\tq", "max-age=0", "W/\"x\"", "<a>; rel=next", "value"]),
    st.text(alphabet=st.characters(min_codepoint=0x20, max_codepoint=0xFF, exclude_characters="\x7f"), max_size=8),
)


def header_dicts(max_size: int = 3):
    return st.dictionaries(st.sampled_from(HEADER_NAMES), _hval, max_size=max_size)


def header_ops():
    name = st.sampled_from(HEADER_NAMES)
    return st.lists(
        st.one_of(
            st.tuples(st.just("set"), name, _hval),
            st.tuples(st.just("append"), name, _hval),
            st.tuples(st.just("setdefault"), name, _hval),
            st.tuples(st.just("del"), name),
        ).map(list),
        max_size=3,
    )


_cookie_value = st.one_of(st.sampled_from(["v", "", "a b", 'q"uote', "semi;colon", "é", "a=b", "x,y", "tok\n", "tok\r", "\ntok", "a\r\nSet-Cookie: x=1", '"a\r\nb"', "tok\x00", "tok\x0b", "tok\x85"]), st.text(alphabet=st.characters(max_codepoint=255), max_size=6))


def cookie_lists():
    return st.lists(
        st.fixed_dictionaries(
            {"name": st.sampled_from(["sid", "a", "k.1", "theme", "x_y", "sid\n", "$v", "a b", "n\r\nx"]), "value": _cookie_value},
            optional={"max_age": st.sampled_from([0, 60]), "expires": st.sampled_from([0, 3600]), "httponly": st.booleans(), "secure": st.booleans(),
                      "samesite": st.sampled_from(["lax", "strict", "none"]), "domain": st.sampled_from(["example.com"]), "delete": st.booleans()},
        ),
        max_size=3,
    )


STATUSES = [200, 200, 200, 201, 202, 204, 206, 301, 302, 304, 307, 400, 401, 403, 404, 410, 418, 422, 500, 503, 299, 599, 499, 226, 451, 100, 103]

_json_leaf = st.one_of(st.none(), st.booleans(), st.integers(-10**6, 10**6), st.sampled_from(["", "a", "é", "中文", " ", "\"q\"", "\\", "\n"]), st.floats(allow_nan=False, allow_infinity=False, width=32))
json_values = st.recursive(_json_leaf, lambda ch: st.one_of(st.lists(ch, max_size=3), st.dictionaries(st.sampled_from(["a", "b", "k", "é"]), ch, max_size=3)), max_leaves=8)

_text_content = st.one_of(st.sampled_from(["", "hello", "é", "中文", "line\r\n", "\x00", "<b>x</b>"]), st.text(max_size=12))
_bytes_content = st.one_of(st.sampled_from([b"", b"hello", b"\xff\x00", b"\r\n"]), st.binary(max_size=12))

FILE_NAMES = ["f.txt", "f.bin", "page.html", "résumé.txt", "数据.bin", "data", "a b.txt", "x.json"]
DOWNLOAD_NAMES = [None, None, None, "report.pdf", "naïve.txt", "中文.pdf", "a b.csv", "x;y.txt"]


@st.composite
def response_recipes(draw, kinds=("empty", "plain", "html", "json", "redirect", "stream", "sse", "file"), faults: bool = False):
    kind = draw(st.sampled_from(kinds))
    r = {"kind": kind}
    if kind != "file":
        if draw(st.booleans()):
            r["status"] = draw(st.sampled_from(STATUSES))
    if draw(st.booleans()):
        r["headers"] = draw(header_dicts())
    if draw(st.integers(0, 2)) == 0:
        r["header_ops"] = draw(header_ops())
    if draw(st.integers(0, 2)) == 0:
        r["cookies"] = draw(cookie_lists())
    if kind in ("plain", "html"):
        r["content"] = draw(st.one_of(_text_content, _bytes_content))
        if draw(st.integers(0, 4)) == 0:
            r["media_type"] = draw(st.sampled_from(["text/css", "application/xml", "text/plain", "image/svg+xml"]))
        if draw(st.integers(0, 4)) == 0 and isinstance(r["content"], str):
            cs = draw(st.sampled_from(["utf-8", "utf-16", "gbk", "latin-1"]))
            try:
                r["content"].encode(cs)
                r["charset"] = cs
            except UnicodeEncodeError:
                pass
        if isinstance(r["content"], str):
            try:
                r["content"].encode(r.get("charset", "utf-8"))
            except UnicodeEncodeError:  # lone surrogates etc.: caller error, not generated
                r["content"] = "x"
    elif kind == "json":
        r["content"] = draw(json_values)
    elif kind == "redirect":
        r["url"] = draw(st.sampled_from(["/", "/next", "https://example.org/a?b=1#c", "/é", "/a b", "//host/x", "?q=1", "", "/中文/", "https://例え.jp/パス?q=値", "/a\u2028b"]))
        if draw(st.booleans()):
            r["url_object"] = True  # pass a baize URL object instead of a str
    elif kind == "stream":
        r["chunks"] = draw(st.lists(st.one_of(st.just(b""), st.binary(min_size=1, max_size=6)), max_size=5))
        if draw(st.integers(0, 3)) == 0:
            r["content_type"] = draw(st.sampled_from(["text/plain", "application/x-ndjson"]))
        if faults and draw(st.integers(0, 2)) == 0:
            r["raise_at"] = draw(st.integers(0, len(r["chunks"])))
    elif kind == "sse":
        r["events"] = draw(
            st.lists(
                st.fixed_dictionaries({"data": st.sampled_from(["x", "a\nb", "", "é"])}, optional={"event": st.sampled_from(["e", "update"]), "id": st.sampled_from(["1", "abc"]), "retry": st.sampled_from([0, 3000])}),
                max_size=4,
            )
        )
        if faults and draw(st.integers(0, 2)) == 0:
            r["raise_at"] = draw(st.integers(0, len(r["events"])))
    elif kind == "file":
        r["name"] = draw(st.sampled_from(FILE_NAMES))
        r["size"] = draw(st.sampled_from([0, 1, 5, 64, 200]))
        r["chunk"] = draw(st.sampled_from([1, 3, 64, 4096]))
        dn = draw(st.sampled_from(DOWNLOAD_NAMES))
        if dn:
            r["download_name"] = dn
        if draw(st.integers(0, 4)) == 0:
            r["content_type"] = draw(st.sampled_from(["image/png", "text/plain; charset=utf-8", "application/octet-stream"]))
    return r


RANGE_HEADERS = [None, None, "bytes=0-0", "bytes=1-3", "bytes=-2", "bytes=2-", "bytes=0-0,2-3", "bytes=0-1,3-", "bytes=9999-", "bytes=3-1", "bogus", "bytes=", "",
                 "bytes=1-\xff", "bytes=0-1\xe9", "\xfcnits=0-1", "bytes=0-1,\xa0 2-3"]
