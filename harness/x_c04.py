"""Helpers of the C04 check (WSGI / ASGI equivalence) that the shared recipe language does not offer:

* alternative *presentations* of one abstract request: a PEP 3333 environ that leaves out what the PEP allows a
  server to leave out and carries the CGI variables real servers add; an ASGI scope / message script that leaves out
  the keys the ASGI specification marks optional;
* views that run a *sequence* of request accessors (with repetitions) on one request object;
* static-file applications over a directory owned by the caller, kept alive over a *history* of requests and
  file-system changes;
* bulk request bodies described by a few numbers (many parts, large fields, large uploads).

Everything takes and returns plain data; the two interfaces are always built from the same description.
"""
from __future__ import annotations

import os
import shutil
import tempfile
from typing import Any, Callable, Dict, List, Optional, Sequence, Tuple

import baize.asgi as A
import baize.wsgi as W

from . import gateways as gw
from . import recipes, tmpfiles, vfs
from .core import HarnessError
from .refs import multipart as mref

# ------------------------------------------------------------------------------------------
# presentations of one abstract request

WSGI_FLAGS = ("omit-empty", "server-extras")
ASGI_FLAGS = ("omit-scope", "omit-message", "header-lists", "spec-2.0")


def environ_variant(rq: Dict[str, Any], flags: Sequence[str]) -> Dict[str, Any]:
    """The environ of the server model, varied within PEP 3333.

    omit-empty     SCRIPT_NAME, PATH_INFO and QUERY_STRING are left out when they would be empty ("must be present, unless
                   their value would be an empty string, in which case they may be omitted")
    server-extras  the variables Apache/mod_wsgi, uWSGI, gunicorn ... add next to the required ones
    """
    env = gw.make_environ(rq)
    for f in flags:
        if f == "omit-empty":
            for k in ("SCRIPT_NAME", "PATH_INFO", "QUERY_STRING"):
                if env.get(k) == "":
                    del env[k]
        elif f == "server-extras":
            target = env.get("SCRIPT_NAME", "") + env.get("PATH_INFO", "")
            if env.get("QUERY_STRING"):
                target += "?" + env["QUERY_STRING"]
            env.update(
                {
                    "HTTPS": "on" if rq.get("scheme") == "https" else "off",
                    "REQUEST_SCHEME": rq.get("scheme", "http"),
                    "REQUEST_URI": target,
                    "RAW_URI": target,
                    "SERVER_SOFTWARE": "verif/1.0",
                    "GATEWAY_INTERFACE": "CGI/1.1",
                    "DOCUMENT_ROOT": "/var/www/html",
                    "REMOTE_HOST": "",
                    "wsgi.input_terminated": True,
                    "mod_wsgi.application_group": "",
                    "uwsgi.node": b"verif",
                }
            )
            # ... and the optional file wrapper of PEP 3333 that these servers offer
            from wsgiref.util import FileWrapper

            env["wsgi.file_wrapper"] = FileWrapper
        else:
            raise HarnessError(f"environ flag {f!r}")
    return env


def scope_variant(rq: Dict[str, Any], flags: Sequence[str]) -> Tuple[Dict[str, Any], List[Dict[str, Any]]]:
    """Scope and receive script of the server model, varied within the ASGI HTTP specification.

    omit-scope    optional scope keys are left out when they carry their default: root_path "", scheme "http",
                  client None; raw_path (optional since 2.1) is always left out
    omit-message  `body` is left out of http.request messages when empty, `more_body` when false
    header-lists  header pairs are two-item lists (daphne) instead of tuples
    spec-2.0      the asgi dict carries no spec_version (defaults to "2.0")
    """
    scope = gw.make_scope(rq)
    parts = list(rq.get("body") or []) or [b""]
    script: List[Dict[str, Any]] = [{"type": "http.request", "body": bytes(c), "more_body": i < len(parts) - 1} for i, c in enumerate(parts)]
    for f in flags:
        if f == "omit-scope":
            if scope.get("root_path") == "":
                del scope["root_path"]
            if scope.get("scheme") == "http":
                del scope["scheme"]
            if scope.get("client") is None:
                scope.pop("client", None)
            scope.pop("raw_path", None)
        elif f == "omit-message":
            for m in script:
                if not m["body"]:
                    del m["body"]
                if not m["more_body"]:
                    del m["more_body"]
        elif f == "header-lists":
            scope["headers"] = [[k, v] for k, v in scope["headers"]]
        elif f == "spec-2.0":
            scope["asgi"] = {"version": "3.0"}
        else:
            raise HarnessError(f"scope flag {f!r}")
    return scope, script


def run_presented(app_recipe: Dict[str, Any], rq: Dict[str, Any], side: str, flags: Sequence[str]) -> Tuple[Any, List[Tuple[str, str]], Any]:
    """One run of a freshly built application on one interface, with the request presented as `flags` say.
    Returns (run, header pairs as text, built) like C04.run_pair does per side."""
    built = recipes.build_app(app_recipe, side)
    if side == "wsgi":
        rq2 = {**rq, "body": [c for c in rq.get("body", []) if c]}
        run = gw.run_wsgi(built.app, environ_variant(rq2, flags))
        heads = [(k, v) for k, v in run.headers]
    else:
        scope, script = scope_variant(rq, flags)
        run = gw.run_sync(gw.run_asgi(built.app, scope, receive_script=script))
        heads = [(k.decode("latin-1"), v.decode("latin-1")) for k, v in run.headers]
    return run, heads, built


# ------------------------------------------------------------------------------------------
# accessor sequences on one request object

SEQ_OPS = ("body", "json", "form", "stream", "close")


def _wsgi_form(form: Any) -> List[Any]:
    out = []
    for k, v in form.multi_items():
        if isinstance(v, str):
            out.append(["field", k, v])
        else:
            v.seek(0)
            out.append(["file", k, v.filename, v.content_type, sorted(dict(v.headers).items()), v.read()])
    return out


async def _asgi_form(form: Any) -> List[Any]:
    out = []
    for k, v in form.multi_items():
        if isinstance(v, str):
            out.append(["field", k, v])
        else:
            await v.aseek(0)
            out.append(["file", k, v.filename, v.content_type, sorted(dict(v.headers).items()), await v.aread()])
    return out


def build_seq_app(side: str, ops: Sequence[str]) -> recipes.Built:
    """request_response(view) where the view performs `ops` in order on its request object and notes the
    outcome of every step (value, or '!' + exception class) in built.stash.  An op written with a trailing '!'
    is not guarded: its exception leaves the view (and the application), as in a view that relies on the
    framework to turn HTTP exceptions into answers."""
    built = recipes.Built(None)
    for op in ops:
        if op.rstrip("!") not in SEQ_OPS:
            raise HarnessError(f"sequence op {op!r}")

    if side == "wsgi":

        def view(request: Any) -> Any:
            log: List[Any] = []
            for op_ in ops:
                op = op_.rstrip("!")
                try:
                    if op == "body":
                        log.append([op, request.body])
                    elif op == "json":
                        log.append([op, request.json])
                    elif op == "form":
                        log.append([op, _wsgi_form(request.form)])
                    elif op == "stream":
                        log.append([op, b"".join(request.stream())])
                    elif op == "close":
                        request.close()
                        log.append([op, None])
                except Exception as exc:  # noqa: BLE001 - the class of the exception is the observation
                    if op_.endswith("!"):
                        built.stash.append({"steps": log, "escaped": op})
                        raise
                    log.append([op, "!" + recipes._exc_name(exc)])
            built.stash.append({"steps": log})
            return W.PlainTextResponse("seq")

        built.app = W.request_response(view)
    else:

        async def aview(request: Any) -> Any:
            log: List[Any] = []
            for op_ in ops:
                op = op_.rstrip("!")
                try:
                    if op == "body":
                        log.append([op, await request.body])
                    elif op == "json":
                        log.append([op, await request.json])
                    elif op == "form":
                        log.append([op, await _asgi_form(await request.form)])
                    elif op == "stream":
                        log.append([op, b"".join([c async for c in request.stream()])])
                    elif op == "close":
                        await request.close()
                        log.append([op, None])
                except Exception as exc:  # noqa: BLE001
                    if op_.endswith("!"):
                        built.stash.append({"steps": log, "escaped": op})
                        raise
                    log.append([op, "!" + recipes._exc_name(exc)])
            built.stash.append({"steps": log})
            return A.PlainTextResponse("seq")

        built.app = A.request_response(aview)
    return built


# ------------------------------------------------------------------------------------------
# bulk bodies from a few numbers

def bulk_body(spec: Dict[str, Any]) -> Tuple[List[List[str]], bytes]:
    """(request headers, body) for {"kind": fields|files|bigfield|bigfile|raw|urlencoded, ...}."""
    kind = spec["kind"]
    if kind in ("fields", "files", "mixed"):
        n = spec["n"]
        parts = []
        for i in range(n):
            is_file = kind == "files" or (kind == "mixed" and i % 2 == 1)
            parts.append({"name": f"f{i}", "filename": f"n{i}.txt" if is_file else None, "headers": [["Content-Type", "text/plain"]] if is_file else [], "content": b"v%d" % i})
        form = {"boundary": "BulkB", "charset": "utf-8", "preamble": None, "epilogue": None, "padding": b"", "parts": parts}
        return [["Content-Type", "multipart/form-data; boundary=BulkB"]], mref.encode(form)
    if kind in ("bigfield", "bigfile"):
        unit = "é0123456789abcde".encode("utf-8") if kind == "bigfield" else bytes(range(256))
        sizes = spec["sizes"]
        parts = []
        for i, size in enumerate(sizes):
            content = (unit * (size // len(unit) + 1))[:size]
            if kind == "bigfield" and content[-1:] == b"\xc3":
                content = content[:-1] + b"x"
            parts.append({"name": f"p{i}", "filename": f"up{i}.bin" if kind == "bigfile" else None, "headers": [], "content": content})
        parts.append({"name": "tail", "filename": None, "headers": [], "content": b"end"})
        form = {"boundary": "BulkB", "charset": "utf-8", "preamble": None, "epilogue": None, "padding": b"", "parts": parts}
        return [["Content-Type", "multipart/form-data; boundary=BulkB"]], mref.encode(form)
    if kind == "raw":
        return [["Content-Type", "application/octet-stream"]], recipes.pattern(spec["size"])
    if kind == "urlencoded":
        return [["Content-Type", "application/x-www-form-urlencoded"]], b"&".join(b"k%d=%s" % (i, b"v" * spec["width"]) for i in range(spec["n"]))
    if kind == "json":
        import json

        return [["Content-Type", "application/json"]], json.dumps({"k%d" % i: "é" * spec["width"] for i in range(spec["n"])}, ensure_ascii=False).encode("utf-8")
    raise HarnessError(f"bulk kind {kind!r}")


def slices(body: bytes, size: Optional[int]) -> List[bytes]:
    if not size:
        return [body]
    return [body[i:i + size] for i in range(0, len(body), size)] or [b""]


# ------------------------------------------------------------------------------------------
# static files over a directory that changes between requests

_HIST_BASE: List[str] = []


def _hist_base() -> str:
    if not _HIST_BASE:
        _HIST_BASE.append(tmpfiles.workdir("verif_c04hist_"))
    return _HIST_BASE[0]


def _reset() -> None:
    del _HIST_BASE[:]


class StaticHistory:
    """A private directory plus one Files/Pages application object per interface that live as long as the
    history.  File-system steps are applied once, request steps are put to both application objects."""

    def __init__(self, kind: str, tree: Dict[str, bytes], mount: Optional[str] = None, handle_404: bool = False) -> None:
        self.base = tempfile.mkdtemp(dir=_hist_base())
        self.root = os.path.join(self.base, "root")
        os.makedirs(self.root)
        for rel, content in sorted(tree.items()):
            self._write(rel, content)
        self.apps: Dict[str, Any] = {}
        self.calls: Dict[str, List[Any]] = {"wsgi": [], "asgi": []}
        for side, M in (("wsgi", W), ("asgi", A)):
            cls = M.Files if kind == "files" else M.Pages
            kw: Dict[str, Any] = {}
            if handle_404:
                kw["handle_404"] = M.PlainTextResponse("custom 404", 404)
            app: Any = cls(self.root, **kw)
            if mount is not None:
                app = M.Subpaths((mount, app))
            self.apps[side] = app

    def _path(self, rel: str) -> str:
        return os.path.join(self.root, *rel.split("/"))

    def _write(self, rel: str, content: bytes) -> None:
        p = self._path(rel)
        os.makedirs(os.path.dirname(p), exist_ok=True)
        with open(p, "wb") as fh:
            fh.write(content)

    def fs(self, step: Sequence[Any]) -> None:
        op = step[0]
        if op == "write":
            self._write(step[1], step[2])
        elif op == "delete":
            os.remove(self._path(step[1]))
            vfs.CLOCK.pop(os.path.abspath(self._path(step[1])), None)
        elif op == "touch":
            vfs.set_times(self._path(step[1]), step[2], step[2], step[3])
        else:
            raise HarnessError(f"history step {step!r}")

    def request(self, rq: Dict[str, Any]) -> Dict[str, Any]:
        out = {}
        for side in ("wsgi", "asgi"):
            holder = recipes.Built(self.apps[side])
            if side == "wsgi":
                run = gw.call_wsgi(self.apps[side], rq)
                heads = [(k, v) for k, v in run.headers]
            else:
                run = gw.call_asgi(self.apps[side], rq)
                heads = [(k.decode("latin-1"), v.decode("latin-1")) for k, v in run.headers]
            out[side] = (run, heads, holder)
        return out

    def close(self) -> None:
        vfs.clear_times(self.base)
        shutil.rmtree(self.base, ignore_errors=True)


from . import core as _core  # noqa: E402

_core.AFTER_FORK.append(_reset)
