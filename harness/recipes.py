"""Recipe language: responses, applications and middleware stacks described by plain data
(JSON-able, hence shrinkable and replayable) with two interpreters that build the baize.wsgi and
the baize.asgi object graph from the same recipe.

Response recipe  R = {"kind": empty|plain|html|json|redirect|stream|sse|file, ...}
    common: status (int), headers ({name: value}), header_ops ([[op, ...]]), cookies ([{...}])
Application recipe A = {"app": response|view|echo|router|subpaths|hosts|files|pages|raw|middleware|decorator, ...}

Every build returns a fresh object graph (responses with generators are single-use)."""
from __future__ import annotations

import asyncio
import hashlib
import json
import os
from typing import Any, Callable, Dict, List, Optional, Tuple

import baize.asgi as A
import baize.wsgi as W
from baize.exceptions import HTTPException

from . import tmpfiles
from .core import HarnessError, canon

# ------------------------------------------------------------------------------------------
# file trees


_TREES: Dict[str, str] = {}


def _reset() -> None:
    _TREES.clear()


def materialise(tree: Dict[str, Any]) -> str:
    """Create (once per process) a directory for a tree {relpath: bytes | None (directory)} and
    return the path of its root."""
    key = hashlib.sha1(canon(tree).encode()).hexdigest()[:16]
    if key in _TREES:
        return _TREES[key]
    base = tmpfiles.workdir("verif_tree_")
    root = os.path.join(base, "root")
    os.makedirs(root)
    for rel, content in sorted(tree.items()):
        path = os.path.join(root, *rel.split("/"))
        if content is None:
            os.makedirs(path, exist_ok=True)
        else:
            os.makedirs(os.path.dirname(path), exist_ok=True)
            with open(path, "wb") as fh:
                fh.write(content)
    _TREES[key] = root
    return root


def pattern(n: int) -> bytes:
    return bytes(0x80 + ((i * 37 + (i // 128) * 11) % 128) for i in range(n))


# ------------------------------------------------------------------------------------------
# responses


class ProducerError(Exception):
    """Raised by generated producers at the scripted step."""


def _apply_common(resp: Any, r: Dict[str, Any]) -> Any:
    for op in r.get("header_ops", []):
        name = op[0]
        if name == "set":
            resp.headers[op[1]] = op[2]
        elif name == "append":
            resp.headers.append(op[1], op[2])
        elif name == "setdefault":
            resp.headers.setdefault(op[1], op[2])
        elif name == "update":
            resp.headers.update({k: v for k, v in op[1]})
        elif name == "del":
            resp.headers.pop(op[1], None)
        else:
            raise HarnessError(f"header op {op!r}")
    for c in r.get("cookies", []):
        if c.get("delete"):
            resp.delete_cookie(c["name"])
        else:
            kw = {k: c[k] for k in ("max_age", "expires", "path", "domain", "secure", "httponly", "samesite") if k in c and c[k] is not None}
            resp.set_cookie(c["name"], c.get("value", ""), **kw)
    return resp


def _sync_producer(items: List[Any], raise_at: Optional[int], log: Optional[List[str]], delays: Optional[List[float]] = None):
    def gen():
        if log is not None:
            log.append("enter")
        try:
            for i, it in enumerate(items):
                if delays and i < len(delays) and delays[i]:
                    import time

                    time.sleep(delays[i])  # an idle producer (real time: the WSGI event stream pings from a real thread)
                if raise_at is not None and i == raise_at:
                    raise ProducerError(f"producer failed at step {i}")
                yield dict(it) if isinstance(it, dict) else it
            if raise_at is not None and raise_at >= len(items):
                raise ProducerError("producer failed at the end")
        finally:
            if log is not None:
                log.append("finally")

    return gen()


def _async_producer(items: List[Any], raise_at: Optional[int], log: Optional[List[str]], delays: Optional[List[float]] = None):
    async def gen():
        if log is not None:
            log.append("enter")
        try:
            for i, it in enumerate(items):
                if delays and i < len(delays) and delays[i]:
                    await asyncio.sleep(delays[i])
                if raise_at is not None and i == raise_at:
                    raise ProducerError(f"producer failed at step {i}")
                yield dict(it) if isinstance(it, dict) else it
            if raise_at is not None and raise_at >= len(items):
                raise ProducerError("producer failed at the end")
        finally:
            if log is not None:
                log.append("finally")

    return gen()


def build_response(r: Dict[str, Any], side: str, log: Optional[List[str]] = None) -> Any:
    M = W if side == "wsgi" else A
    kind = r["kind"]
    status = r.get("status")
    headers = dict(r["headers"]) if r.get("headers") else None
    kw: Dict[str, Any] = {}
    if headers is not None:
        kw["headers"] = headers
    if kind == "empty":
        resp = M.Response(status if status is not None else 200, headers)
    elif kind in ("plain", "html"):
        cls = M.PlainTextResponse if kind == "plain" else M.HTMLResponse
        if status is not None:
            kw["status_code"] = status
        for k in ("media_type", "charset"):
            if r.get(k):
                kw[k] = r[k]
        resp = cls(r["content"], **kw)
    elif kind == "json":
        if status is not None:
            kw["status_code"] = status
        for k in ("ensure_ascii", "indent", "sort_keys"):
            if k in r:
                kw[k] = r[k]
        resp = M.JSONResponse(r["content"], **kw)
    elif kind == "redirect":
        if status is not None:
            kw["status_code"] = status
        target = r["url"]
        if r.get("url_object"):
            from baize.datastructures import URL

            target = URL(target)
        resp = M.RedirectResponse(target, **kw)
    elif kind == "stream":
        if status is not None:
            kw["status_code"] = status
        if r.get("content_type"):
            kw["content_type"] = r["content_type"]
        prod = _sync_producer(r["chunks"], r.get("raise_at"), log) if side == "wsgi" else _async_producer(r["chunks"], r.get("raise_at"), log, r.get("delays"))
        resp = M.StreamResponse(prod, **kw)
    elif kind == "sse":
        if status is not None:
            kw["status_code"] = status
        kw["ping_interval"] = r.get("ping_interval", 30)
        if r.get("charset"):
            kw["charset"] = r["charset"]
        prod = _sync_producer(r["events"], r.get("raise_at"), log, r.get("delays")) if side == "wsgi" else _async_producer(r["events"], r.get("raise_at"), log, r.get("delays"))
        resp = M.SendEventResponse(prod, **kw)
    elif kind == "file":
        root = materialise({r.get("name", "f.txt"): pattern(r["size"])})
        path = os.path.join(root, r.get("name", "f.txt"))
        fkw: Dict[str, Any] = {}
        for k in ("content_type", "download_name"):
            if r.get(k):
                fkw[k] = r[k]
        if r.get("chunk"):
            fkw["chunk_size"] = r["chunk"]
        if headers is not None:
            fkw["headers"] = headers
        resp = M.FileResponse(path, **fkw)
    else:
        raise HarnessError(f"response kind {kind!r}")
    return _apply_common(resp, r)


# ------------------------------------------------------------------------------------------
# echo of the request view


def _exc_name(exc: BaseException) -> str:
    if isinstance(exc, HTTPException):
        return f"HTTPException({exc.status_code})"
    return type(exc).__name__


def _form_items(form: Any, read: Callable[[Any], bytes]) -> List[Any]:
    out = []
    for k, v in form.multi_items():
        if isinstance(v, str):
            out.append(["field", k, v])
        else:
            out.append(["file", k, v.filename, v.content_type, read(v)])
    return out


def _echo_common(request: Any) -> Dict[str, Any]:
    e: Dict[str, Any] = {}

    def grab(name: str, fn: Callable[[], Any]) -> None:
        try:
            e[name] = fn()
        except Exception as exc:  # noqa: BLE001
            e[name] = "!" + _exc_name(exc)

    grab("method", lambda: request.method)
    grab("url", lambda: str(request.url))
    grab("url_parts", lambda: [request.url.scheme, request.url.netloc, request.url.path, request.url.query, request.url.hostname, request.url.port])
    grab("headers", lambda: dict(request.headers))
    grab("query", lambda: request.query_params.multi_items())
    grab("cookies", lambda: dict(request.cookies))
    grab("content_type", lambda: [str(request.content_type), request.content_type.type, dict(request.content_type.options)])
    grab("content_length", lambda: request.content_length)
    grab("accepted", lambda: [str(t) for t in request.accepted_types])
    grab("accepts", lambda: [request.accepts(x) for x in ("text/html", "application/json", "image/png", "text/plain")])
    grab("client", lambda: [request.client.host, request.client.port])
    grab("date", lambda: request.date.isoformat() if request.date is not None else None)
    grab("referrer", lambda: str(request.referrer) if request.referrer is not None else None)
    grab("path_params", lambda: {k: [type(v).__name__, str(v)] for k, v in request.path_params.items()})
    return e


def wsgi_echo_view(order: List[str], stash: List[Any]) -> Callable[[Any], Any]:
    def view(request: Any) -> Any:
        e = _echo_common(request)
        for what in order:
            try:
                if what == "body":
                    e["body"] = request.body
                elif what == "json":
                    e["json"] = request.json
                elif what == "form":
                    e["form"] = _form_items(request.form, lambda f: f.read())
                elif what == "stream":
                    e["stream"] = b"".join(request.stream())
            except Exception as exc:  # noqa: BLE001
                e[what] = "!" + _exc_name(exc)
        try:
            request.close()
        except Exception as exc:  # noqa: BLE001
            e["close"] = "!" + _exc_name(exc)
        stash.append(e)
        return W.PlainTextResponse("echo")

    return view


def asgi_echo_view(order: List[str], stash: List[Any]) -> Callable[[Any], Any]:
    async def view(request: Any) -> Any:
        e = _echo_common(request)
        for what in order:
            try:
                if what == "body":
                    e["body"] = await request.body
                elif what == "json":
                    e["json"] = await request.json
                elif what == "form":
                    form = await request.form
                    items = []
                    for k, v in form.multi_items():
                        if isinstance(v, str):
                            items.append(["field", k, v])
                        else:
                            items.append(["file", k, v.filename, v.content_type, await v.aread()])
                    e["form"] = items
                elif what == "stream":
                    e["stream"] = b"".join([c async for c in request.stream()])
            except Exception as exc:  # noqa: BLE001
                e[what] = "!" + _exc_name(exc)
        try:
            await request.close()
        except Exception as exc:  # noqa: BLE001
            e["close"] = "!" + _exc_name(exc)
        stash.append(e)
        return A.PlainTextResponse("echo")

    return view


# ------------------------------------------------------------------------------------------
# applications


class Built:
    """An application plus its side channels."""

    def __init__(self, app: Any) -> None:
        self.app = app
        self.stash: List[Any] = []  # echo structures
        self.calls: List[Any] = []  # (label, info) for every leaf application invoked
        self.logs: List[List[str]] = []  # producer logs


_EXC_BASES = {"TypeError": TypeError, "AttributeError": AttributeError, "KeyError": KeyError, "ValueError": ValueError, "OSError": OSError,
              "RuntimeError": RuntimeError, "LookupError": LookupError, "StopIteration": None}
_EXC_CACHE: Dict[str, type] = {}


def _producer_exc(a: Dict[str, Any], msg: str) -> BaseException:
    """The failure of a raw application: ProducerError, or - with a["exc"] - a class that is ALSO the named built-in
    exception (application code fails with TypeError, KeyError ... as often as with its own classes)."""
    name = a.get("exc")
    base = _EXC_BASES.get(name) if name else None
    if base is None:
        return ProducerError(msg)
    if name not in _EXC_CACHE:
        _EXC_CACHE[name] = type("Producer" + name, (ProducerError, base), {})
    return _EXC_CACHE[name](msg)


def _raw_wsgi(a: Dict[str, Any], built: Built) -> Any:
    status, headers, chunks = a["status"], [tuple(h) for h in a["headers"]], list(a["chunks"])
    returns, raises = a.get("returns", "list"), a.get("raises")

    def app(environ: Any, start_response: Any) -> Any:
        built.calls.append(("raw", a.get("label")))
        if raises == "before":
            raise _producer_exc(a, "raw app failed before start")
        start_response(status, headers)
        if raises == "after":
            raise _producer_exc(a, "raw app failed after start")
        if returns == "list":
            return list(chunks)
        if returns == "tuple":
            return tuple(chunks)
        if returns == "iter":
            return iter(list(chunks))

        def gen():
            for i, c in enumerate(chunks):
                if raises == "mid" and i == max(1, len(chunks) // 2):
                    raise _producer_exc(a, "raw app failed mid-body")
                yield c

        return gen()

    if returns == "restart":
        # PEP 3333 error pattern: a first start_response, a failure before any body, then a second
        # start_response with exc_info that replaces status and headers
        first_headers = [tuple(h) for h in a.get("first_headers", [["Set-Cookie", "stale=1"], ["X-First", "1"]])]

        def app3(environ: Any, start_response: Any) -> Any:
            built.calls.append(("raw", a.get("label")))
            start_response("200 OK", first_headers)
            try:
                raise _producer_exc(a, "failure before the first body chunk")
            except ProducerError:
                import sys

                start_response(status, headers, sys.exc_info())
            return list(chunks)

        return app3
    if returns == "generator-late-start":

        def app2(environ: Any, start_response: Any) -> Any:
            built.calls.append(("raw", a.get("label")))
            start_response(status, headers)
            for c in chunks:
                yield c

        return app2
    return app


def _raw_asgi(a: Dict[str, Any], built: Built) -> Any:
    code = int(str(a["status"])[:3])
    headers = [(k.lower().encode("latin-1"), v.encode("latin-1")) for k, v in a["headers"]]
    chunks = list(a["chunks"])
    raises = a.get("raises")

    async def app(scope: Any, receive: Any, send: Any) -> None:
        built.calls.append(("raw", a.get("label")))
        if raises == "before":
            raise _producer_exc(a, "raw app failed before start")
        # the ASGI specification types `headers` as an iterable: hand over a list, a tuple, a one-shot
        # iterator or a generator depending on the variant
        hv: Any = headers
        if a.get("returns") == "tuple":
            hv = tuple(headers)
        elif a.get("returns") == "iter":
            hv = iter(list(headers))
        elif a.get("returns") in ("gen", "generator", "generator-late-start"):
            hv = (h for h in list(headers))
        await send({"type": "http.response.start", "status": code, "headers": hv})
        if raises == "after":
            raise _producer_exc(a, "raw app failed after start")
        if not chunks:
            await send({"type": "http.response.body", "body": b"", "more_body": False})
            return
        for i, c in enumerate(chunks):
            if raises == "mid" and i == max(1, len(chunks) // 2):
                raise _producer_exc(a, "raw app failed mid-body")
            msg = {"type": "http.response.body", "body": c, "more_body": i < len(chunks) - 1}
            if a.get("returns") in ("restart", "tuple") and i == len(chunks) - 1:
                del msg["more_body"]  # optional key, defaults to False
            await send(msg)

    return app


_MW_HEADER = ("x-mw", "1")


def _wsgi_handler(kind: str, built: Built) -> Callable[[Any, Any], Any]:
    def handler(request: Any, next_call: Any) -> Any:
        built.calls.append(("mw", kind))
        response = next_call(request)
        if kind == "add":
            response.headers[_MW_HEADER[0]] = _MW_HEADER[1]
        elif kind == "replace":
            response.headers["x-inner"] = "replaced"
        elif kind == "delete":
            response.headers.pop("x-inner", None)
        return response

    return handler


def _asgi_handler(kind: str, built: Built) -> Callable[[Any, Any], Any]:
    async def handler(request: Any, next_call: Any) -> Any:
        built.calls.append(("mw", kind))
        response = await next_call(request)
        if kind == "add":
            response.headers[_MW_HEADER[0]] = _MW_HEADER[1]
        elif kind == "replace":
            response.headers["x-inner"] = "replaced"
        elif kind == "delete":
            response.headers.pop("x-inner", None)
        return response

    return handler


def build_app(a: Dict[str, Any], side: str, built: Optional[Built] = None) -> Built:
    top = built is None
    if built is None:
        built = Built(None)
    M = W if side == "wsgi" else A
    kind = a["app"]
    app: Any
    if kind == "response":
        log: List[str] = []
        built.logs.append(log)
        resp = build_response(a["response"], side, log)
        label = a.get("label")

        if side == "wsgi":

            def app(environ: Any, start_response: Any, _resp: Any = resp) -> Any:
                built.calls.append(("response", label))
                return _resp(environ, start_response)

        else:

            async def app(scope: Any, receive: Any, send: Any, _resp: Any = resp) -> None:
                built.calls.append(("response", label))
                return await _resp(scope, receive, send)

    elif kind in ("view", "echo"):
        label = a.get("label")
        deco = a.get("decorators", [])
        if kind == "echo":
            view = wsgi_echo_view(a.get("order", ["body"]), built.stash) if side == "wsgi" else asgi_echo_view(a.get("order", ["body"]), built.stash)
            inner_view = view

            if side == "wsgi":

                def counted(request: Any, _v: Any = inner_view) -> Any:
                    built.calls.append(("view", label))
                    return _v(request)

            else:

                async def counted(request: Any, _v: Any = inner_view) -> Any:
                    built.calls.append(("view", label))
                    return await _v(request)

        else:
            log = []
            built.logs.append(log)
            rr = a["response"]

            if side == "wsgi":

                def counted(request: Any) -> Any:
                    built.calls.append(("view", label))
                    return build_response(rr, side, log)

            else:

                async def counted(request: Any) -> Any:
                    built.calls.append(("view", label))
                    return build_response(rr, side, log)

        view = counted
        for d in deco:
            handler = _wsgi_handler(d, built) if side == "wsgi" else _asgi_handler(d, built)
            view = M.decorator(handler)(view)
        app = M.request_response(view)
    elif kind == "router":
        app = M.Router(*[(tpl, build_app(sub, side, built).app) for tpl, sub in a["routes"]])
    elif kind == "subpaths":
        app = M.Subpaths(*[(prefix, build_app(sub, side, built).app) for prefix, sub in a["mounts"]])
    elif kind == "hosts":
        app = M.Hosts(*[(pat, build_app(sub, side, built).app) for pat, sub in a["table"]])
    elif kind in ("files", "pages"):
        root = materialise(a["tree"])
        directory = os.path.join(root, *a["directory"].split("/")) if a.get("directory") else root
        cls = M.Files if kind == "files" else M.Pages
        kw = {}
        for k in ("cacheability", "max_age"):
            if k in a:
                kw[k] = a[k]
        if a.get("handle_404"):
            kw["handle_404"] = build_app(a["handle_404"], side, built).app
        app = cls(directory, **kw)
    elif kind == "raw":
        app = _raw_wsgi(a, built) if side == "wsgi" else _raw_asgi(a, built)
    elif kind == "middleware":
        inner = build_app(a["inner"], side, built).app
        handler = _wsgi_handler(a["kind"], built) if side == "wsgi" else _asgi_handler(a["kind"], built)
        app = M.middleware(handler)(inner)
    else:
        raise HarnessError(f"app kind {kind!r}")
    if top:
        built.app = app
        return built
    sub = Built(app)
    return sub


def leaf_calls(built: Built) -> List[Any]:
    return [c for c in built.calls if c[0] != "mw"]


from . import core as _core  # noqa: E402

_core.AFTER_FORK.append(_reset)
