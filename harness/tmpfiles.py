"""Scratch directories for checks (removed by vrun before the process exits)."""
from __future__ import annotations

import os
import shutil
import tempfile
from typing import List

_DIRS: List[str] = []


def workdir(prefix: str = "verif_") -> str:
    d = tempfile.mkdtemp(prefix=prefix)
    _DIRS.append(d)
    return os.path.realpath(d)


def cleanup() -> None:
    while _DIRS:
        shutil.rmtree(_DIRS.pop(), ignore_errors=True)
