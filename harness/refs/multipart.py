"""RFC 7578 / RFC 2046 multipart/form-data *encoder* and partition helpers (no baize import).

A form is plain data:
  {"boundary": str, "charset": str, "preamble": bytes|None, "epilogue": bytes|None,
   "padding": bytes (transport padding after each boundary), "parts": [part...]}
  part = {"name": str, "filename": str|None, "headers": [[name, value]...],   # extra part headers
          "content": bytes}       # for a field, content is the text encoded in the charset
"""
from __future__ import annotations

from typing import Any, Dict, List, Optional, Sequence, Tuple

CRLF = b"\r\n"


def part_header_block(part: Dict[str, Any], charset: str) -> bytes:
    disp = f'form-data; name="{part["name"]}"'
    if part.get("filename") is not None:
        disp += f'; filename="{part["filename"]}"'
    lines = []
    cd_name = part.get("cd_name", "Content-Disposition")
    lines.append(f"{cd_name}: {disp}")
    for k, v in part.get("headers", []):
        lines.append(f"{k}: {v}")
    return CRLF.join(line.encode(charset) for line in lines) + CRLF + CRLF


def encode(form: Dict[str, Any]) -> bytes:
    b = form["boundary"].encode("ascii")
    pad = form.get("padding", b"")
    out = bytearray()
    if form.get("preamble") is not None:
        out += form["preamble"] + CRLF
    parts = form["parts"]
    if parts:
        for i, part in enumerate(parts):
            if i > 0:
                out += CRLF
            out += b"--" + b + pad + CRLF
            out += part_header_block(part, form["charset"])
            out += part["content"]
        out += CRLF + b"--" + b + b"--" + pad
    else:
        out += b"--" + b + b"--" + pad
    if form.get("epilogue") is not None:
        out += CRLF + form["epilogue"]
    return bytes(out)


def expected_items(form: Dict[str, Any]) -> List[Tuple[Any, ...]]:
    """Ordered ('field', name, text) / ('file', name, filename, headers dict, content_type, bytes)."""
    out: List[Tuple[Any, ...]] = []
    cs = form["charset"]
    for part in form["parts"]:
        if part.get("filename") is None:
            out.append(("field", part["name"], part["content"].decode(cs)))
        else:
            hdrs = {part.get("cd_name", "Content-Disposition").lower(): _disp(part)}
            for k, v in part.get("headers", []):
                hdrs[k.lower()] = unfold(v)
            out.append(("file", part["name"], part["filename"], hdrs, hdrs.get("content-type", ""), part["content"]))
    return out


def _disp(part: Dict[str, Any]) -> str:
    disp = f'form-data; name="{part["name"]}"'
    if part.get("filename") is not None:
        disp += f'; filename="{part["filename"]}"'
    return disp


def unfold(v: str) -> str:
    """A folded header value 'a\\r\\n b' denotes 'a b'."""
    return v.replace("\r\n ", " ").strip()


def chunks_from_cuts(body: bytes, cuts: Sequence[int]) -> List[bytes]:
    """Consecutive chunks; repeated cut offsets yield empty chunks."""
    pts = [0] + sorted(min(max(c, 0), len(body)) for c in cuts) + [len(body)]
    return [body[pts[i]:pts[i + 1]] for i in range(len(pts) - 1)]


def delimiter_spans(body: bytes, boundary: bytes) -> List[Tuple[int, int]]:
    spans = []
    needle = b"--" + boundary
    i = body.find(needle)
    while i != -1:
        start = i
        if body[max(0, i - 2):i] == CRLF:
            start = i - 2
        spans.append((start, i + len(needle) + 2))
        i = body.find(needle, i + 1)
    return spans


def interesting_offsets(body: bytes, boundary: bytes) -> List[int]:
    """Offsets around every delimiter and every CR/LF (where hold-back logic is decided)."""
    offs = set()
    w = len(boundary) + 6
    for s, e in delimiter_spans(body, boundary):
        for o in range(s - 3, e + 3):
            offs.add(o)
        _ = w
    for i, ch in enumerate(body):
        if ch in (13, 10):
            offs.update((i, i + 1, i + 2))
    return sorted(o for o in offs if 0 < o < len(body))
