"""Parser for multipart/byteranges bodies (RFC 7233 appendix A), tolerant of LF or CRLF line
ends.  Does not import baize."""
from __future__ import annotations

import re
from typing import Dict, List, Optional, Tuple

_CR = re.compile(rb"^bytes (\d+)-(\d+)/(\d+)$")


class ParseError(Exception):
    pass


def _line(body: bytes, pos: int) -> Tuple[bytes, int]:
    """Line starting at pos (without terminator) and the position after its terminator."""
    i = body.find(b"\n", pos)
    if i == -1:
        raise ParseError(f"unterminated line at offset {pos}: {body[pos:pos + 40]!r}")
    line = body[pos:i]
    if line.endswith(b"\r"):
        line = line[:-1]
    return line, i + 1


def parse(body: bytes, boundary: bytes) -> List[Dict[str, object]]:
    """-> list of parts {headers: {lower-name: value}, start, end (inclusive), size, data}.
    Part data is cut by the declared Content-Range length, then a line break and the next
    delimiter must follow exactly."""
    parts: List[Dict[str, object]] = []
    pos = 0
    dash = b"--" + boundary
    while True:
        line, nxt = _line(body, pos) if body.find(b"\n", pos) != -1 else (body[pos:], len(body))
        if line == dash + b"--":
            rest = body[nxt:]
            if rest.strip(b"\r\n") != b"":
                raise ParseError(f"data after the close delimiter: {rest[:40]!r}")
            return parts
        if line != dash:
            raise ParseError(f"expected delimiter at offset {pos}, found {line[:60]!r}")
        pos = nxt
        headers: Dict[str, str] = {}
        while True:
            line, pos = _line(body, pos)
            if line == b"":
                break
            if b":" not in line:
                raise ParseError(f"part header line without colon: {line!r}")
            k, v = line.split(b":", 1)
            headers[k.decode("latin-1").strip().lower()] = v.decode("latin-1").strip()
        cr = headers.get("content-range")
        if cr is None:
            raise ParseError(f"part without Content-Range: {headers!r}")
        m = _CR.match(cr.encode("latin-1"))
        if m is None:
            raise ParseError(f"bad Content-Range {cr!r}")
        s, e, size = int(m.group(1)), int(m.group(2)), int(m.group(3))
        n = e - s + 1
        if n < 0:
            raise ParseError(f"Content-Range {cr!r} has last < first")
        data = body[pos:pos + n]
        if len(data) != n:
            raise ParseError(f"body ends inside part {cr!r}: {len(data)} of {n} bytes")
        pos += n
        if body[pos:pos + 2] == b"\r\n":
            pos += 2
        elif body[pos:pos + 1] == b"\n":
            pos += 1
        else:
            raise ParseError(f"no line break after the data of part {cr!r}: {body[pos:pos + 20]!r}")
        parts.append({"headers": headers, "start": s, "end": e, "size": size, "data": data})


def boundary_of(content_type: str) -> Optional[str]:
    m = re.match(r'^multipart/byteranges;\s*boundary="?([^";]+)"?\s*$', content_type)
    return m.group(1) if m else None
