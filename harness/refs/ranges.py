"""Reference resolver for HTTP Range headers (does not import baize).

A *clean* header is  bytes=spec(,spec)*  with optional blanks around the commas, each spec one
of  first-last | first- | -suffix  in ASCII digits.  For those the denotation is defined:
each spec denotes a set of byte positions after clipping to [0, size)."""
from __future__ import annotations

import re
from typing import List, Optional, Sequence, Set, Tuple

Spec = Tuple[Optional[int], Optional[int]]
_SPEC = re.compile(r"^([0-9]*)-([0-9]*)$")


def parse_clean(header: str) -> Optional[List[Spec]]:
    """Specs of a grammar-clean header, or None when the header is not clean."""
    if not header.startswith("bytes="):
        return None
    body = header[len("bytes="):]
    specs: List[Spec] = []
    for item in body.split(","):
        item = item.strip(" \t")
        m = _SPEC.match(item)
        if m is None or (m.group(1) == "" and m.group(2) == ""):
            return None
        a, b = m.group(1), m.group(2)
        if len(a) > 4000 or len(b) > 4000:
            return None
        specs.append((int(a) if a else None, int(b) if b else None))
    return specs


def verdicts(specs: Sequence[Spec], size: int) -> Set[int]:
    """Set of rejection statuses the statement allows (empty set = must succeed)."""
    out: Set[int] = set()
    for a, b in specs:
        if a is None:
            assert b is not None
            if b == 0 or b > size:
                out.add(416)
        else:
            if a >= size:
                out.add(416)
            if b is not None and a > b:
                out.add(400)
    return out


def intervals(specs: Sequence[Spec], size: int) -> List[Tuple[int, int]]:
    """Half-open clipped interval of every spec (only for satisfiable, well-formed sets)."""
    out = []
    for a, b in specs:
        if a is None:
            out.append((size - b, size))  # type: ignore[operator]
        elif b is None:
            out.append((a, size))
        else:
            out.append((a, min(b + 1, size)))
    return out


def runs_by_sets(specs: Sequence[Spec], size: int) -> List[Tuple[int, int]]:
    """Maximal runs of the union, computed with Python sets of positions (small sizes)."""
    pos: Set[int] = set()
    for lo, hi in intervals(specs, size):
        pos.update(range(lo, hi))
    runs: List[Tuple[int, int]] = []
    start = None
    for p in range(size + 1):
        if p in pos and start is None:
            start = p
        elif p not in pos and start is not None:
            runs.append((start, p))
            start = None
    return runs


def runs_by_sweep(specs: Sequence[Spec], size: int) -> List[Tuple[int, int]]:
    """Same, by an endpoint sweep (any size)."""
    events = []
    for lo, hi in intervals(specs, size):
        if lo < hi:
            events.append((lo, 0))  # opens sort before closes at the same point => adjacent merge
            events.append((hi, 1))
    events.sort()
    runs: List[Tuple[int, int]] = []
    depth = 0
    start = 0
    for point, kind in events:
        if kind == 0:
            if depth == 0:
                start = point
            depth += 1
        else:
            depth -= 1
            if depth == 0:
                runs.append((start, point))
    return runs


def structural_problems(result: object, size: int) -> List[str]:
    """Clause that applies to every successful resolution."""
    probs: List[str] = []
    try:
        items = list(result)  # type: ignore[call-overload]
    except TypeError:
        return ["result is not a sequence"]
    if not items:
        probs.append("empty result")
    prev_end = None
    for it in items:
        if not (isinstance(it, (tuple, list)) and len(it) == 2 and all(type(v) is int for v in it)):
            probs.append(f"item {it!r} is not an (int, int) pair")
            continue
        s, e = it
        if not (0 <= s < e <= size):
            probs.append(f"range {it!r} violates 0 <= start < end <= {size}")
        if prev_end is not None and not (prev_end < s):
            probs.append(f"range {it!r} is not strictly after the previous one (disjoint and non-adjacent)")
        prev_end = e
    return probs
