"""WHATWG event-stream parser (HTML standard, "9.2.6 Interpreting an event stream"), written
from the standard's text; does not import baize."""
from __future__ import annotations

from typing import Dict, List, Optional


def split_lines(text: str) -> List[str]:
    """Lines as the standard defines them: terminated by CRLF, LF or CR.  The text after the
    last terminator (an unterminated line) is returned as a final element only if non-empty;
    callers that need to know about it use `unterminated`."""
    lines: List[str] = []
    cur: List[str] = []
    i, n = 0, len(text)
    while i < n:
        ch = text[i]
        if ch == "\r":
            lines.append("".join(cur))
            cur = []
            if i + 1 < n and text[i + 1] == "\n":
                i += 1
        elif ch == "\n":
            lines.append("".join(cur))
            cur = []
        else:
            cur.append(ch)
        i += 1
    # an unterminated trailing line is never processed (end of stream discards it)
    return lines


def parse(text: str) -> List[Dict[str, object]]:
    """Dispatch algorithm.  Returns the dispatched events as dicts
    {type, data, last_event_id, retry} where retry is the reconnection time in force when the
    event was dispatched (None = never set)."""
    if text.startswith("﻿"):
        text = text[1:]
    events: List[Dict[str, object]] = []
    data_buf: List[str] = []
    have_data = False
    type_buf = ""
    id_buf = ""
    last_id = ""
    retry: Optional[int] = None
    for line in split_lines(text):
        if line == "":
            last_id = id_buf
            if not have_data:
                data_buf, type_buf = [], ""
                have_data = False
                continue
            data = "".join(data_buf)
            if data.endswith("\n"):
                data = data[:-1]
            events.append({"type": type_buf or "message", "data": data, "last_event_id": last_id, "retry": retry})
            data_buf, type_buf, have_data = [], "", False
            continue
        if line.startswith(":"):
            continue
        if ":" in line:
            field, _, value = line.partition(":")
            if value.startswith(" "):
                value = value[1:]
        else:
            field, value = line, ""
        if field == "event":
            type_buf = value
        elif field == "data":
            data_buf.append(value)
            data_buf.append("\n")
            have_data = True
        elif field == "id":
            if "\x00" not in value:
                id_buf = value
        elif field == "retry":
            if value != "" and all(c in "0123456789" for c in value):
                retry = int(value)
    return events


def data_lines(data: str) -> List[str]:
    """The original's lines as delimited by CR, LF or CRLF only (an unterminated last line
    counts; a trailing terminator yields a final empty line)."""
    out: List[str] = []
    cur: List[str] = []
    i, n = 0, len(data)
    while i < n:
        ch = data[i]
        if ch == "\r":
            out.append("".join(cur))
            cur = []
            if i + 1 < n and data[i + 1] == "\n":
                i += 1
        elif ch == "\n":
            out.append("".join(cur))
            cur = []
        else:
            cur.append(ch)
        i += 1
    out.append("".join(cur))
    return out
