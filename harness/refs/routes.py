"""Reference route matcher with explicit per-type languages (does not import baize).

A route is a list of tokens: ["lit", text] or ["p", name, type] (type None = default str)."""
from __future__ import annotations

import datetime
import decimal
import uuid
from typing import Any, Dict, Iterator, List, Optional, Sequence, Tuple

ASCII_DIGITS = "0123456789"
HEX = "0123456789abcdef"


def in_language(typ: Optional[str], s: str) -> bool:
    typ = typ or "str"
    if typ == "str":
        return len(s) > 0 and "/" not in s
    if typ == "int":
        return len(s) > 0 and all(c in ASCII_DIGITS for c in s)
    if typ == "decimal":
        if s.count(".") > 1:
            return False
        head, dot, tail = s.partition(".")
        if not head or not all(c in ASCII_DIGITS for c in head):
            return False
        if dot and (not tail or not all(c in ASCII_DIGITS for c in tail)):
            return False
        return True
    if typ == "uuid":
        parts = s.split("-")
        if [len(p) for p in parts] != [8, 4, 4, 4, 12]:
            return False
        return all(c in HEX for p in parts for c in p)
    if typ == "date":
        if len(s) != 10 or s[4] != "-" or s[7] != "-":
            return False
        if not all(c in ASCII_DIGITS for c in s[0:4] + s[5:7] + s[8:10]):
            return False
        try:
            datetime.date(int(s[0:4]), int(s[5:7]), int(s[8:10]))
        except ValueError:
            return False
        return True
    if typ == "any":
        return True
    raise ValueError(typ)


def convert(typ: Optional[str], s: str) -> Any:
    typ = typ or "str"
    if typ in ("str", "any"):
        return s
    if typ == "int":
        return int(s)
    if typ == "decimal":
        return decimal.Decimal(s)
    if typ == "uuid":
        return uuid.UUID(s)
    if typ == "date":
        return datetime.date(int(s[0:4]), int(s[5:7]), int(s[8:10]))
    raise ValueError(typ)


def template(route: Sequence[Sequence[Any]]) -> str:
    out = []
    for tok in route:
        if tok[0] == "lit":
            out.append(tok[1])
        else:
            out.append("{%s}" % tok[1] if tok[2] is None else "{%s:%s}" % (tok[1], tok[2]))
    return "".join(out)


class _Index:
    """Per-path tables that make 'where may a placeholder of this type end' cheap."""

    def __init__(self, path: str) -> None:
        n = len(path)
        self.path = path
        self.n = n
        self.digit_end = [0] * (n + 1)  # end of the run of ASCII digits starting at pos
        self.seg_end = [0] * (n + 1)  # position of the next "/" at or after pos (or n)
        self.digit_end[n] = n
        self.seg_end[n] = n
        for pos in range(n - 1, -1, -1):
            self.digit_end[pos] = self.digit_end[pos + 1] if path[pos] in ASCII_DIGITS else pos
            self.seg_end[pos] = pos if path[pos] == "/" else self.seg_end[pos + 1]

    def intervals(self, typ: Optional[str], pos: int) -> List[Tuple[int, int]]:
        """Inclusive intervals [lo, hi] of end positions e such that path[pos:e] is in the language."""
        typ = typ or "str"
        n, path = self.n, self.path
        if typ == "str":
            return [(pos + 1, self.seg_end[pos])] if self.seg_end[pos] > pos else []
        if typ == "any":
            return [(pos, n)]
        if typ == "int":
            de = self.digit_end[pos]
            return [(pos + 1, de)] if de > pos else []
        if typ == "decimal":
            de = self.digit_end[pos]
            if de == pos:
                return []
            out = [(pos + 1, de)]
            if de < n and path[de] == ".":
                de2 = self.digit_end[de + 1]
                if de2 > de + 1:
                    out.append((de + 2, de2))
            return out
        if typ == "uuid":
            return [(pos + 36, pos + 36)] if pos + 36 <= n and in_language("uuid", path[pos:pos + 36]) else []
        if typ == "date":
            return [(pos + 10, pos + 10)] if pos + 10 <= n and in_language("date", path[pos:pos + 10]) else []
        raise ValueError(typ)


def _viable(route: Sequence[Sequence[Any]], ix: _Index) -> List[List[bool]]:
    """viable[i][pos]: tokens i.. can consume exactly path[pos:].  O(len(route) * len(path))."""
    n, path = ix.n, ix.path
    nxt = [False] * n + [True]
    layers = [nxt]
    for tok in reversed(list(route)):
        cur = [False] * (n + 1)
        if tok[0] == "lit":
            lit = tok[1]
            for pos in range(n + 1):
                e = pos + len(lit)
                cur[pos] = e <= n and nxt[e] and path.startswith(lit, pos)
        else:
            pref = [0] * (n + 2)  # pref[k] = number of viable next positions < k
            for k in range(n + 1):
                pref[k + 1] = pref[k] + (1 if nxt[k] else 0)
            for pos in range(n + 1):
                for lo, hi in ix.intervals(tok[2], pos):
                    if hi >= lo and pref[hi + 1] - pref[lo] > 0:
                        cur[pos] = True
                        break
        layers.append(cur)
        nxt = cur
    layers.reverse()
    return layers


def decompositions(route: Sequence[Sequence[Any]], path: str, limit: int = 64) -> List[Dict[str, str]]:
    """All ways the whole path can be split so that literals match verbatim and every placeholder
    gets a string of its language (up to `limit` of them, in order of increasing split points).
    Dead branches are pruned with a suffix-viability table, so a path that does not match costs
    O(tokens x length) whatever the number of adjacent placeholders."""
    found: List[Dict[str, str]] = []
    ix = _Index(path)
    viable = _viable(route, ix)
    if not viable[0][0]:
        return found

    def rec(i: int, pos: int, acc: Dict[str, str]) -> None:
        if len(found) >= limit:
            return
        if i == len(route):
            found.append(dict(acc))
            return
        tok = route[i]
        if tok[0] == "lit":
            rec(i + 1, pos + len(tok[1]), acc)
            return
        name, typ = tok[1], tok[2]
        nxt = viable[i + 1]
        for lo, hi in ix.intervals(typ, pos):
            for end in range(lo, hi + 1):
                if nxt[end]:
                    if len(found) >= limit:
                        return
                    acc[name] = path[pos:end]
                    rec(i + 1, end, acc)
                    del acc[name]

    rec(0, 0, {})
    return found


def expected(routes: Sequence[Sequence[Sequence[Any]]], path: str) -> Tuple[Optional[int], List[Dict[str, Any]]]:
    """(index of the first route that matches the entire path, list of admissible converted
    parameter dicts) or (None, [])."""
    for idx, route in enumerate(routes):
        decs = decompositions(route, path)
        if decs:
            types = {tok[1]: tok[2] for tok in route if tok[0] == "p"}
            return idx, [{k: convert(types[k], v) for k, v in d.items()} for d in decs]
    return None, []


def admits(route: Sequence[Sequence[Any]], path: str, params: Dict[str, Any]) -> bool:
    """Is there a decomposition of the whole path whose converted placeholder values are exactly
    `params` (same types)?  Directed, memoised search: adjacent placeholders do not blow up."""
    names = [tok[1] for tok in route if tok[0] == "p"]
    if set(names) != set(params):
        return False
    ix = _Index(path)
    viable = _viable(route, ix)
    if not viable[0][0]:
        return False
    memo: Dict[Tuple[int, int], bool] = {}

    def rec(i: int, pos: int) -> bool:
        key = (i, pos)
        if key in memo:
            return memo[key]
        memo[key] = out = _rec(i, pos)
        return out

    def _rec(i: int, pos: int) -> bool:
        if i == len(route):
            return pos == len(path)
        tok = route[i]
        if tok[0] == "lit":
            return path.startswith(tok[1], pos) and rec(i + 1, pos + len(tok[1]))
        name, typ = tok[1], tok[2]
        want = params[name]
        nxt = viable[i + 1]
        if (typ or "str") in ("str", "any"):
            if type(want) is not str:
                return False
            end = pos + len(want)
            if end > len(path) or path[pos:end] != want or not in_language(typ, want):
                return False
            return nxt[end] and rec(i + 1, end)
        for lo, hi in ix.intervals(typ, pos):
            for end in range(lo, hi + 1):
                if not nxt[end]:
                    continue
                try:
                    v = convert(typ, path[pos:end])
                except ValueError:
                    continue
                if type(v) is type(want) and v == want and rec(i + 1, end):
                    return True
        return False

    return rec(0, 0)
