"""Reference route matcher with explicit per-type languages (does not import baize).

A route is a list of tokens: ["lit", text] or ["p", name, type] (type None = default str)."""
from __future__ import annotations

import datetime
import decimal
import uuid
from typing import Any, Dict, Iterator, List, Optional, Sequence, Tuple

ASCII_DIGITS = "0123456789"
HEX = "0123456789abcdef"


def in_language(typ: Optional[str], s: str) -> bool:
    typ = typ or "str"
    if typ == "str":
        return len(s) > 0 and "/" not in s
    if typ == "int":
        return len(s) > 0 and all(c in ASCII_DIGITS for c in s)
    if typ == "decimal":
        if s.count(".") > 1:
            return False
        head, dot, tail = s.partition(".")
        if not head or not all(c in ASCII_DIGITS for c in head):
            return False
        if dot and (not tail or not all(c in ASCII_DIGITS for c in tail)):
            return False
        return True
    if typ == "uuid":
        parts = s.split("-")
        if [len(p) for p in parts] != [8, 4, 4, 4, 12]:
            return False
        return all(c in HEX for p in parts for c in p)
    if typ == "date":
        if len(s) != 10 or s[4] != "-" or s[7] != "-":
            return False
        if not all(c in ASCII_DIGITS for c in s[0:4] + s[5:7] + s[8:10]):
            return False
        try:
            datetime.date(int(s[0:4]), int(s[5:7]), int(s[8:10]))
        except ValueError:
            return False
        return True
    if typ == "any":
        return True
    raise ValueError(typ)


def convert(typ: Optional[str], s: str) -> Any:
    typ = typ or "str"
    if typ in ("str", "any"):
        return s
    if typ == "int":
        return int(s)
    if typ == "decimal":
        return decimal.Decimal(s)
    if typ == "uuid":
        return uuid.UUID(s)
    if typ == "date":
        return datetime.date(int(s[0:4]), int(s[5:7]), int(s[8:10]))
    raise ValueError(typ)


def template(route: Sequence[Sequence[Any]]) -> str:
    out = []
    for tok in route:
        if tok[0] == "lit":
            out.append(tok[1])
        else:
            out.append("{%s}" % tok[1] if tok[2] is None else "{%s:%s}" % (tok[1], tok[2]))
    return "".join(out)


def decompositions(route: Sequence[Sequence[Any]], path: str, limit: int = 64) -> List[Dict[str, str]]:
    """All ways the whole path can be split so that literals match verbatim and every placeholder
    gets a string of its language (up to `limit` of them)."""
    found: List[Dict[str, str]] = []

    def rec(i: int, pos: int, acc: Dict[str, str]) -> None:
        if len(found) >= limit:
            return
        if i == len(route):
            if pos == len(path):
                found.append(dict(acc))
            return
        tok = route[i]
        if tok[0] == "lit":
            if path.startswith(tok[1], pos):
                rec(i + 1, pos + len(tok[1]), acc)
            return
        name, typ = tok[1], tok[2]
        # a placeholder directly followed by a literal can only end where that literal starts
        for end in range(pos, len(path) + 1):
            s = path[pos:end]
            if in_language(typ, s):
                acc[name] = s
                rec(i + 1, end, acc)
                del acc[name]

    rec(0, 0, {})
    return found


def expected(routes: Sequence[Sequence[Sequence[Any]]], path: str) -> Tuple[Optional[int], List[Dict[str, Any]]]:
    """(index of the first route that matches the entire path, list of admissible converted
    parameter dicts) or (None, [])."""
    for idx, route in enumerate(routes):
        decs = decompositions(route, path)
        if decs:
            types = {tok[1]: tok[2] for tok in route if tok[0] == "p"}
            return idx, [{k: convert(types[k], v) for k, v in d.items()} for d in decs]
    return None, []


def admits(route: Sequence[Sequence[Any]], path: str, params: Dict[str, Any]) -> bool:
    """Is there a decomposition of the whole path whose converted placeholder values are exactly
    `params` (same types)?  Directed search, so adjacent placeholders do not blow up."""
    names = [tok[1] for tok in route if tok[0] == "p"]
    if set(names) != set(params):
        return False

    def rec(i: int, pos: int) -> bool:
        if i == len(route):
            return pos == len(path)
        tok = route[i]
        if tok[0] == "lit":
            return path.startswith(tok[1], pos) and rec(i + 1, pos + len(tok[1]))
        name, typ = tok[1], tok[2]
        want = params[name]
        for end in range(pos, len(path) + 1):
            s = path[pos:end]
            if in_language(typ, s):
                try:
                    v = convert(typ, s)
                except ValueError:
                    continue
                if type(v) is type(want) and v == want and rec(i + 1, end):
                    return True
        return False

    return rec(0, 0)
