"""Strict server models ("gateways") for WSGI and ASGI applications.

They call application objects directly (no HTTP client), record every protocol event and
validate it on the fly.  Validation findings are collected in `.errors` as (code, text) pairs;
the checks decide which codes matter for their property.

Nothing here imports baize except for the HTTPException class (looked up lazily), which
framework code is documented to translate into a response.
"""
from __future__ import annotations

import asyncio
import io
import sys
import os
import re
from typing import Any, Callable, Dict, Iterable, List, Optional, Sequence, Tuple
from urllib.parse import quote

HOP_BY_HOP = {
    "connection", "keep-alive", "proxy-authenticate", "proxy-authorization", "te", "trailers", "transfer-encoding", "upgrade",
}
_TOKEN = re.compile(r"^[!#$%&'*+\-.^_`|~0-9A-Za-z]+$")
_STATUS = re.compile(r"^[0-9]{3} \S.*$", re.S)
_CTL = re.compile(r"[\x00-\x08\x0a-\x1f\x7f]")  # C0 except HTAB, and DEL


def http_exception_class():
    from baize.exceptions import HTTPException

    return HTTPException


# --------------------------------------------------------------------------------------
# abstract request -> environ / scope


def areq(
    method: str = "GET",
    path: str = "/",
    query: bytes = b"",
    headers: Sequence[Sequence[str]] = (),
    body: Sequence[bytes] = (),
    client: Optional[Sequence[Any]] = ("127.0.0.1", 54321),
    server: Optional[Sequence[Any]] = ("testserver", 80),
    scheme: str = "http",
    root_path: str = "",
    extensions: Optional[Dict[str, Any]] = None,
    path_bytes: Optional[bytes] = None,
) -> Dict[str, Any]:
    return {
        "method": method,
        "path": path,
        "path_bytes": path_bytes,
        "query": bytes(query),
        "headers": [[str(k), str(v)] for k, v in headers],
        "body": [bytes(b) for b in body],
        "client": list(client) if client else None,
        "server": list(server) if server else None,
        "scheme": scheme,
        "root_path": root_path,
        "extensions": extensions or {},
    }


def _native(s: str) -> str:
    """What a WSGI server hands over for percent-decoded request-target text."""
    return s.encode("utf-8").decode("latin-1")


class InputStream:
    """wsgi.input model: read(n) returns at most n bytes and never crosses a boundary of the
    scripted partition (short reads are what a socket-backed reader may produce); returns b""
    only at EOF."""

    def __init__(self, chunks: Iterable[bytes]) -> None:
        self.chunks = [bytes(c) for c in chunks if c]
        self.reads = 0
        self.reads_after_eof = 0
        self.delivered = 0
        self._eof_seen = False

    def read(self, size: Optional[int] = -1) -> bytes:
        if size is not None and not isinstance(size, int):
            raise TypeError(f"integer argument expected, got {type(size).__name__}")  # what io readers do
        if size is not None and size > sys.maxsize:
            # io.BytesIO / BufferedReader / socket files: a size that does not fit a C ssize_t is refused
            raise OverflowError("Python int too large to convert to C ssize_t")
        self.reads += 1
        if not self.chunks:
            if self._eof_seen:
                self.reads_after_eof += 1
            self._eof_seen = True
            return b""
        if size is None or size < 0:
            data = b"".join(self.chunks)
            self.chunks = []
        else:
            head = self.chunks[0]
            if size >= len(head):
                data = head
                self.chunks.pop(0)
            else:
                data = head[:size]
                self.chunks[0] = head[size:]
        self.delivered += len(data)
        return data

    def readline(self, size: int = -1) -> bytes:  # pragma: no cover - baize never calls it
        raise NotImplementedError

    def __iter__(self):  # pragma: no cover
        raise NotImplementedError


def make_environ(rq: Dict[str, Any]) -> Dict[str, Any]:
    server = rq.get("server") or ["testserver", 80]
    path = rq["path_bytes"].decode("latin-1") if rq.get("path_bytes") is not None else _native(rq["path"])
    env: Dict[str, Any] = {
        "REQUEST_METHOD": rq["method"],
        "SCRIPT_NAME": _native(rq.get("root_path", "")),
        "PATH_INFO": path,
        "QUERY_STRING": rq["query"].decode("latin-1"),
        "SERVER_NAME": str(server[0]),
        "SERVER_PORT": str(server[1]),
        "SERVER_PROTOCOL": rq.get("protocol") or "HTTP/1.1",
        "wsgi.version": (1, 0),
        "wsgi.url_scheme": rq.get("scheme", "http"),
        "wsgi.input": InputStream(rq.get("body", ())),
        "wsgi.errors": io.StringIO(),
        "wsgi.multithread": True,
        "wsgi.multiprocess": False,
        "wsgi.run_once": False,
    }
    if rq.get("file_wrapper"):
        # the optional platform-specific file handling of PEP 3333 that most servers (gunicorn, uWSGI, waitress, wsgiref) offer
        from wsgiref.util import FileWrapper

        env["wsgi.file_wrapper"] = FileWrapper
    if rq.get("client"):
        env["REMOTE_ADDR"] = str(rq["client"][0])
        env["REMOTE_PORT"] = str(rq["client"][1])
    for name, value in rq.get("headers", ()):
        key = name.upper().replace("-", "_")
        if key not in ("CONTENT_TYPE", "CONTENT_LENGTH"):
            key = "HTTP_" + key
        if key in env:
            env[key] = env[key] + ", " + value
        else:
            env[key] = value
    return env


def make_scope(rq: Dict[str, Any]) -> Dict[str, Any]:
    if rq.get("path_bytes") is not None:
        path = rq["path_bytes"].decode("utf-8", "replace")
        raw_path = quote(rq["path_bytes"]).encode("ascii")
    else:
        path = rq["path"]
        raw_path = quote(path).encode("ascii")
    scope: Dict[str, Any] = {
        "type": "http",
        "asgi": {"version": "3.0", "spec_version": "2.3"},
        "http_version": {"HTTP/1.0": "1.0", "HTTP/2": "2", "HTTP/3": "3"}.get(rq.get("protocol") or "", "1.1"),
        "method": rq["method"],
        "scheme": rq.get("scheme", "http"),
        "path": path,
        "raw_path": raw_path,
        "query_string": bytes(rq["query"]),
        "root_path": rq.get("root_path", ""),
        "headers": [(k.lower().encode("latin-1"), v.encode("latin-1")) for k, v in rq.get("headers", ())],
        "client": tuple(rq["client"]) if rq.get("client") else None,
        "server": tuple(rq["server"]) if rq.get("server") else None,
    }
    if rq.get("extensions"):
        scope["extensions"] = dict(rq["extensions"])
    return scope


# --------------------------------------------------------------------------------------
# WSGI gateway


class WsgiRun:
    def __init__(self) -> None:
        self.status: Optional[str] = None
        self.status_code: Optional[int] = None
        self.headers: List[Tuple[str, str]] = []
        self.chunks: List[bytes] = []
        self.exc: Optional[BaseException] = None
        self.errors: List[Tuple[str, str]] = []
        self.start_calls = 0
        self.items = 0
        self.closed_early = False
        self.via_http_exception = False
        self.environ: Dict[str, Any] = {}

    @property
    def body(self) -> bytes:
        return b"".join(self.chunks)

    def err(self, code: str, text: str) -> None:
        self.errors.append((code, text))

    def header_multiset(self) -> List[Tuple[str, str]]:
        return sorted((k.lower(), v) for k, v in self.headers)

    def get(self, name: str) -> Optional[str]:
        for k, v in self.headers:
            if k.lower() == name:
                return v
        return None


def validate_wsgi_start(run: WsgiRun, status: Any, headers: Any) -> None:
    if type(status) is not str:
        run.err("status-type", f"status is {type(status).__name__}")
    elif not _STATUS.match(status):
        run.err("status-format", f"status line {status!r} is not 'NNN reason'")
    else:
        try:
            status.encode("latin-1")
        except UnicodeEncodeError:
            run.err("status-latin1", f"status {status!r}")
        if _CTL.search(status):
            run.err("status-control", f"status {status!r}")
    if type(headers) is not list:
        run.err("headers-type", f"response headers is {type(headers).__name__}, PEP 3333 requires a list")
    try:
        items = list(headers)
    except TypeError:
        run.err("headers-type", "response headers not iterable")
        return
    for it in items:
        if type(it) is not tuple or len(it) != 2:
            run.err("header-item", f"header item {it!r} is not a 2-tuple")
            continue
        k, v = it
        if type(k) is not str or type(v) is not str:
            run.err("header-str", f"header {k!r}: {v!r} is not (str, str)")
            continue
        for what, s in (("name", k), ("value", v)):
            try:
                s.encode("latin-1")
            except UnicodeEncodeError:
                run.err("header-latin1", f"header {what} of {k!r} not Latin-1: {s!r}")
            if _CTL.search(s):
                run.err("header-control", f"header {what} of {k!r} contains a control character: {s!r}")
        if not _TOKEN.match(k):
            run.err("header-token", f"header name {k!r} is not a token")
        if k.lower() in HOP_BY_HOP:
            run.err("header-hop", f"hop-by-hop header {k!r}")


def run_wsgi(
    app: Callable[..., Any],
    environ: Dict[str, Any],
    close_after: Optional[int] = None,
    translate_http_exception: bool = True,
    stall_after: Optional[Dict[int, float]] = None,
) -> WsgiRun:
    """Call the application the way a PEP 3333 server does.  close_after=k: the server stops
    iterating after k items and calls close() (client went away).  stall_after={k: seconds}: the
    server (a slow client behind it) waits that long after having taken the k-th item."""
    run = WsgiRun()
    run.environ = environ
    first_bytes_seen = False

    def start_response(status: Any, headers: Any, exc_info: Any = None) -> Callable[[bytes], None]:
        run.start_calls += 1
        if run.start_calls > 1 and exc_info is None:
            run.err("start-twice", "start_response called again without exc_info")
        if first_bytes_seen and exc_info is None:
            run.err("start-after-body", "start_response called after body bytes")
        validate_wsgi_start(run, status, headers)
        run.status = status if isinstance(status, str) else repr(status)
        try:
            run.status_code = int(str(status)[:3])
        except ValueError:
            run.status_code = None
        try:
            run.headers = [(str(k), str(v)) for k, v in headers]
        except Exception:  # noqa: BLE001
            run.headers = []

        def write(data: bytes) -> None:  # pragma: no cover - baize does not use write()
            run.chunks.append(data)

        return write

    HTTPException = http_exception_class()
    result = None
    try:
        result = app(environ, start_response)
        it = iter(result)
        while True:
            if close_after is not None and run.items >= close_after:
                run.closed_early = True
                break
            try:
                item = next(it)
            except StopIteration:
                break
            run.items += 1
            if stall_after and run.items in stall_after:
                import time as _time

                _time.sleep(stall_after[run.items])
            if type(item) is not bytes:
                run.err("item-type", f"yielded {type(item).__name__}, not bytes")
                item = bytes(item) if isinstance(item, (bytearray, memoryview)) else b""
            if item:
                if run.start_calls == 0:
                    run.err("body-before-start", "body bytes yielded before start_response")
                first_bytes_seen = True
            elif run.start_calls == 0 and False:
                pass
            run.chunks.append(item)
        if not run.closed_early and run.start_calls == 0:
            run.err("no-start", "iterable exhausted without start_response")
    except HTTPException as exc:
        if translate_http_exception and run.start_calls == 0:
            run.via_http_exception = True
            run.status_code = exc.status_code
            run.status = f"{exc.status_code} (HTTPException)"
            run.headers = [(str(k), str(v)) for k, v in (exc.headers or {}).items()]
            content = exc.content
            run.chunks = [b"" if content is None else (content if isinstance(content, bytes) else str(content).encode("utf-8"))]
        else:
            run.exc = exc
    except BaseException as exc:  # noqa: BLE001
        run.exc = exc
    finally:
        close = getattr(result, "close", None)
        if close is not None:
            try:
                close()
            except HTTPException as exc:
                if run.exc is None:
                    run.exc = exc
            except BaseException as exc:  # noqa: BLE001
                if run.exc is None:
                    run.exc = exc
    return run


# --------------------------------------------------------------------------------------
# ASGI gateway


class ExtraReceive(Exception):
    """receive() called although no further receive is legitimate."""


class AsgiRun:
    def __init__(self) -> None:
        self.events: List[Dict[str, Any]] = []
        self.status_code: Optional[int] = None
        self.headers: List[Tuple[bytes, bytes]] = []
        self.chunks: List[bytes] = []
        self.exc: Optional[BaseException] = None
        self.errors: List[Tuple[str, str]] = []
        self.receive_calls = 0
        self.receives_after_final = 0
        self.sends = 0
        self.complete = False
        self.via_http_exception = False
        self.disconnected = False
        self.zerocopy_events = 0
        self.scope: Dict[str, Any] = {}
        self.disconnected_at: Optional[float] = None
        self.events_after_disconnect = 0
        self.send_times: List[float] = []
        self.returned_at: Optional[float] = None

    @property
    def body(self) -> bytes:
        return b"".join(self.chunks)

    def err(self, code: str, text: str) -> None:
        self.errors.append((code, text))

    def header_multiset(self) -> List[Tuple[str, str]]:
        return sorted((k.decode("latin-1").lower(), v.decode("latin-1")) for k, v in self.headers)

    def get(self, name: str) -> Optional[str]:
        for k, v in self.headers:
            if k.decode("latin-1").lower() == name:
                return v.decode("latin-1")
        return None


class AsgiValidator:
    """Automaton for http.response.* events (prefix-closed)."""

    def __init__(self, run: AsgiRun, zerocopy: bool) -> None:
        self.run = run
        self.zerocopy = zerocopy
        self.state = "start"  # start -> body -> done

    def feed(self, message: Any) -> None:
        run = self.run
        if not isinstance(message, dict):
            run.err("message-type", f"send() got {type(message).__name__}")
            return
        t = message.get("type")
        if self.state == "done":
            run.err("after-final", f"event {t!r} after the final body event")
            return
        if self.state == "start":
            if t != "http.response.start":
                run.err("first-not-start", f"first event is {t!r}")
                if t in ("http.response.body", "http.response.zerocopysend"):
                    self.state = "body"
                    self._body(message)
                return
            self.state = "body"
            status = message.get("status")
            if not isinstance(status, int) or isinstance(status, bool):  # an IntEnum member (HTTPStatus) is an integer
                run.err("status-type", f"status {status!r} is {type(status).__name__}")
            elif not (100 <= status <= 999):
                run.err("status-range", f"status {status}")
            hdrs = message.get("headers", [])
            try:
                hdrs = list(hdrs)
            except TypeError:
                run.err("headers-type", "headers not iterable")
                hdrs = []
            for it in hdrs:
                try:
                    k, v = it
                except (TypeError, ValueError):
                    run.err("header-item", f"header item {it!r}")
                    continue
                if type(k) is not bytes or type(v) is not bytes:
                    run.err("header-bytes", f"header {k!r}: {v!r} is not (bytes, bytes)")
                    continue
                if k != k.lower():
                    run.err("header-case", f"header name {k!r} is not lower-case")
                if re.search(rb"[\x00\r\n]", k) or re.search(rb"[\x00\r\n]", v):
                    run.err("header-control", f"header {k!r}: {v!r} contains CR/LF/NUL")
                if not re.match(rb"^[!#$%&'*+\-.^_`|~0-9A-Za-z]+$", k):
                    run.err("header-token", f"header name {k!r} is not a token")
            return
        if t == "http.response.start":
            run.err("start-twice", "second http.response.start")
            return
        self._body(message)

    def _body(self, message: Dict[str, Any]) -> None:
        run = self.run
        t = message.get("type")
        if t == "http.response.body":
            body = message.get("body", b"")
            if type(body) is not bytes:
                run.err("body-type", f"body is {type(body).__name__}")
        elif t == "http.response.zerocopysend":
            if not self.zerocopy:
                run.err("zerocopy-not-offered", "zerocopysend without the extension")
            if type(message.get("file")) is not int:
                run.err("zerocopy-file", f"file is {message.get('file')!r}")
        else:
            run.err("bad-event", f"event {t!r} in body phase")
            return
        more = message.get("more_body", False)
        if type(more) is not bool:
            run.err("more-body-type", f"more_body is {more!r}")
        if not more:
            self.state = "done"
            run.complete = True


# Zero-copy slices longer than this many bytes are not read into the body: the server model notes the slice in
# run.zc_spans (index of the chunk, file position, length, read or not) and moves the file position as a real sendfile
# loop would.  None = read everything (the default; checks that serve multi-gigabyte sparse files set it for their runs).
ZC_SPARSE_LIMIT: Optional[int] = None


def _read_zerocopy(run: AsgiRun, message: Dict[str, Any]) -> bytes:
    fd = message.get("file")
    try:
        size = os.fstat(fd).st_size
    except OSError as exc:
        run.err("zerocopy-fd-closed", f"fd {fd!r}: {exc}")
        return b""
    offset = message.get("offset")
    count = message.get("count")
    if offset is not None:
        if not (isinstance(offset, int) and 0 <= offset <= size):
            run.err("zerocopy-offset", f"offset {offset!r} outside file of {size} bytes")
            return b""
        os.lseek(fd, offset, os.SEEK_SET)
    pos = os.lseek(fd, 0, os.SEEK_CUR)
    if count is not None:
        if not (isinstance(count, int) and count >= 0 and pos + count <= size):
            run.err("zerocopy-count", f"count {count!r} at position {pos} outside file of {size} bytes")
            count = max(0, min(count if isinstance(count, int) else 0, size - pos))
        remaining = count
    else:
        remaining = size - pos
    spans = run.__dict__.setdefault("zc_spans", [])
    if ZC_SPARSE_LIMIT is not None and remaining > ZC_SPARSE_LIMIT:
        spans.append((len(run.chunks), pos, remaining, False))
        os.lseek(fd, pos + remaining, os.SEEK_SET)
        return b""
    spans.append((len(run.chunks), pos, remaining, True))
    out = []
    while remaining > 0:
        data = os.read(fd, min(remaining, 1 << 20))
        if not data:
            break
        out.append(data)
        remaining -= len(data)
    return b"".join(out)


async def run_asgi(
    app: Callable[..., Any],
    scope: Dict[str, Any],
    body: Sequence[bytes] = (),
    *,
    disconnect_after_sends: Optional[int] = None,
    send_raises_after_disconnect: bool = False,
    receive_script: Optional[Sequence[Dict[str, Any]]] = None,
    strict_receive: bool = False,
    translate_http_exception: bool = True,
    send_delay: float = 0.0,
    on_send: Optional[Callable[[AsgiRun, Dict[str, Any]], None]] = None,
    disconnect_at: Optional[float] = None,
) -> AsgiRun:
    """Drive one ASGI http application call.

    body: request body partition (empty messages allowed); the last message has more_body False.
    receive beyond the script blocks until the gateway disconnects (never, unless
    disconnect_after_sends=k: the client goes away once k send() calls completed; k=0 means
    before the first send).  strict_receive: a receive() beyond the script raises ExtraReceive
    instead of blocking.
    """
    run = AsgiRun()
    run.scope = scope
    zerocopy = "http.response.zerocopysend" in scope.get("extensions", {})
    validator = AsgiValidator(run, zerocopy)
    if receive_script is None:
        parts = list(body) if body else [b""]
        script = [
            {"type": "http.request", "body": bytes(c), "more_body": i < len(parts) - 1} for i, c in enumerate(parts)
        ]
    else:
        script = [dict(m) for m in receive_script]
    pos = 0
    gone = asyncio.Event()
    if disconnect_after_sends == 0:
        gone.set()
        run.disconnected = True
    if disconnect_at is not None:
        # the client goes away at a (virtual) instant
        def _go() -> None:
            run.disconnected = True
            run.disconnected_at = asyncio.get_running_loop().time()
            gone.set()

        asyncio.get_running_loop().call_later(disconnect_at, _go)

    async def receive() -> Dict[str, Any]:
        nonlocal pos
        run.receive_calls += 1
        if gone.is_set():
            return {"type": "http.disconnect"}
        if pos < len(script):
            msg = dict(script[pos])
            pos += 1
            return msg
        run.receives_after_final += 1
        if strict_receive:
            raise ExtraReceive("receive() after the final request message")
        await gone.wait()
        return {"type": "http.disconnect"}

    async def send(message: Dict[str, Any]) -> None:
        if run.disconnected and send_raises_after_disconnect:
            raise OSError("client disconnected (injected)")
        # a real server's send() always gives other tasks a turn
        await asyncio.sleep(send_delay if send_delay else 0)
        run.sends += 1
        run.send_times.append(asyncio.get_running_loop().time())
        if run.disconnected:
            # sent into the void: not delivered, but what the application emits must still be a legal
            # continuation of the sequence
            msg = dict(message) if isinstance(message, dict) else message
            if isinstance(msg, dict) and "headers" in msg:
                try:
                    msg["headers"] = [tuple(h) for h in msg["headers"]]
                except TypeError:
                    pass
            validator.feed(msg)
            run.events_after_disconnect += 1
        if not run.disconnected:
            msg = dict(message) if isinstance(message, dict) else message
            if isinstance(msg, dict) and "headers" in msg:
                try:
                    msg["headers"] = [tuple(h) for h in msg["headers"]]
                except TypeError:
                    pass
            validator.feed(msg)
            if isinstance(msg, dict):
                run.events.append(msg)
                t = msg.get("type")
                if t == "http.response.start":
                    run.status_code = msg.get("status") if isinstance(msg.get("status"), int) else None
                    try:
                        run.headers = [(bytes(k), bytes(v)) for k, v in msg.get("headers", [])]
                    except Exception:  # noqa: BLE001
                        run.headers = []
                elif t == "http.response.body":
                    b = msg.get("body", b"")
                    run.chunks.append(b if isinstance(b, bytes) else b"")
                elif t == "http.response.zerocopysend":
                    run.zerocopy_events += 1
                    run.chunks.append(_read_zerocopy(run, msg))
                if on_send is not None:
                    on_send(run, msg)
        if disconnect_after_sends is not None and run.sends >= disconnect_after_sends and not run.disconnected:
            run.disconnected = True
            gone.set()

    HTTPException = http_exception_class()
    try:
        await app(scope, receive, send)
    except HTTPException as exc:
        if translate_http_exception and not run.events:
            run.via_http_exception = True
            run.status_code = exc.status_code
            run.headers = [
                (str(k).lower().encode("latin-1"), str(v).encode("latin-1")) for k, v in (exc.headers or {}).items()
            ]
            content = exc.content
            run.chunks = [b"" if content is None else (content if isinstance(content, bytes) else str(content).encode("utf-8"))]
            run.complete = True
        else:
            run.exc = exc
    except asyncio.CancelledError:
        raise
    except BaseException as exc:  # noqa: BLE001
        run.exc = exc
    run.returned_at = asyncio.get_running_loop().time()
    return run


_LOOP: Optional[asyncio.AbstractEventLoop] = None
# loops inherited from a parent process through fork are kept alive here: finalising one in the child would close it and
# thereby remove the PARENT's wake-up pipe from the epoll object both processes share (the parent's next executor-backed
# call then never wakes up and ends in "real-loop coroutine timed out")
_INHERITED: list = []


def loop() -> asyncio.AbstractEventLoop:
    global _LOOP
    if _LOOP is None or _LOOP.is_closed():
        _LOOP = asyncio.new_event_loop()
        asyncio.set_event_loop(_LOOP)
    return _LOOP


def run_sync(coro: Any, timeout: float = 300.0) -> Any:
    """Run a coroutine on the process-wide real event loop (file I/O goes through its default
    executor).  A timeout here is a harness error, not a verdict."""
    from harness.core import HarnessError

    lp = loop()
    try:
        return lp.run_until_complete(asyncio.wait_for(coro, timeout))
    except asyncio.TimeoutError as exc:
        raise HarnessError("real-loop coroutine timed out") from exc


def call_asgi(app: Callable[..., Any], rq: Dict[str, Any], **kw: Any) -> AsgiRun:
    scope = make_scope(rq)
    return run_sync(run_asgi(app, scope, rq.get("body", ()), **kw))


def call_wsgi(app: Callable[..., Any], rq: Dict[str, Any], **kw: Any) -> WsgiRun:
    return run_wsgi(app, make_environ(rq), **kw)


def leftover_tasks() -> List[str]:
    lp = loop()
    return [repr(t) for t in asyncio.all_tasks(lp) if not t.done()]
