"""Extra recipe interpreter for C20 (middleware transparency).

`harness/recipes.py` fixes four handler kinds (identity / add x-mw / replace x-inner / delete x-inner) and
raw inner applications with a fixed protocol shape.  The sub-checks added to C20 later need more freedom,
and recipes.py is shared with other checks, so the additions live here:

layers   [{"layer": "decorator" | "middleware", "edit": E}, ...]   innermost first; decorator layers (view
         decorators) come before middleware layers and need a view-like inner application
E        {"op": "identity"} | {"op": "observe"}                    pass-through (observe reads request and response
                                                                    attributes the way a logging layer does)
         {"op": "set" | "append", "name": N, "value": V}           response.headers[N] = V / response.headers.append(N, V)
         {"op": "del" | "delitem", "name": N}                      response.headers.pop(N, None) / del response.headers[N]
         {"op": "setdefault" | "ifabsent", "name": N, "value": V}  response.headers.setdefault(N, V) / if N not in response.headers: set
         {"op": "cookie", "name": N, "value": V}                   response.set_cookie(N, V)
inner    every application recipe of recipes.build_app, plus
         {"app": "xraw", "status", "headers" [[name, value]], "chunks" [bytes | {"pat": n}], "returns": list|generator,
          "omit": [optional ASGI keys left out: "body" (final message), "headers" (start, only without headers),
          "more_body" (final message)], "header_items": tuple|list, "raises": None|"mid"}
             a raw application; header names are handed over as spelled on WSGI and lower-cased on ASGI
         {"app": "xview", "response": R | "raise_http": [status, headers|None, content|None] | "raise_exc": "ValueError"}
             a view (wrapped by request_response after the decorator layers)
         {"app": "echo", "order": [...]}                            the echo view of recipes.py

file_ops {"size": n, "ops": [...], "final": "op" | "empty-body"}     key of an xraw application (then "chunks" is []) or of an xview
         (then the view returns a response object of a foreign class built on baize's Response): the body comes from a file
         of n position-identifying bytes that the application opens itself.  ops, in order:
             {"seek": k} / {"read": k}            the application positions / reads the descriptor itself (a preamble)
             {"body": bytes}                      an ordinary http.response.body chunk
             {"zc": {"offset": o?, "count": c?}}  if the scope offers `http.response.zerocopysend`: that event with the open
                                                  descriptor (offset absent = from the descriptor's current position, count
                                                  absent = to the end of the file); otherwise, and on WSGI, the same bytes as
                                                  an ordinary chunk
         the last message carries more_body False ("op") or an empty final body message follows ("empty-body").
         reference_body() is the reference for what such an application sends (pure Python over the file's content).

Nothing here decides a verdict; the oracle is in checks/C20.py.
"""
from __future__ import annotations

import os
from typing import Any, Callable, Dict, List, Optional, Tuple

import baize.asgi as A
import baize.wsgi as W
from baize.exceptions import HTTPException

from . import recipes, tmpfiles
from . import core as _core
from .core import HarnessError
from .recipes import Built, ProducerError


_PATTERNS: Dict[int, bytes] = {}


def _pattern(n: int) -> bytes:
    if n not in _PATTERNS:
        _PATTERNS[n] = recipes.pattern(n)
    return _PATTERNS[n]


def expand(chunks: List[Any]) -> List[bytes]:
    out = []
    for c in chunks:
        if isinstance(c, dict):
            out.append(_pattern(int(c["pat"])))
        else:
            out.append(bytes(c))
    return out


# ------------------------------------------------------------------------------------------
# applications that use the zero-copy send extension themselves

ZEROCOPY = "http.response.zerocopysend"
_ZC_PATHS: Dict[int, str] = {}


def zc_content(n: int) -> bytes:
    """n bytes in which every 8-byte block names its own offset."""
    return b"".join(b"%07d|" % i for i in range(0, n + 8, 8))[:n]


def zc_path(n: int) -> str:
    if n not in _ZC_PATHS:
        path = os.path.join(tmpfiles.workdir("verif_c20_zc_"), f"body{n}.bin")
        with open(path, "wb") as fh:
            fh.write(zc_content(n))
        _ZC_PATHS[n] = path
    return _ZC_PATHS[n]


_core.AFTER_FORK.append(_ZC_PATHS.clear)


def file_ops_plan(spec: Dict[str, Any]) -> List[Tuple[str, Any, bytes]]:
    """Reference semantics of a file_ops recipe: [(kind, op, bytes this message stands for)] for the message ops.
    A zerocopysend without offset starts at the descriptor's position and moves it (like sendfile(2) without offset);
    where one with offset leaves the position is the server's business, so recipes never rely on it."""
    size = int(spec["size"])
    content = zc_content(size)
    pos = 0
    pos_known = True
    out: List[Tuple[str, Any, bytes]] = []
    for op in spec["ops"]:
        if "seek" in op:
            pos, pos_known = min(size, int(op["seek"])), True
        elif "read" in op:
            if not pos_known:
                raise HarnessError(f"file_ops {spec!r}: position unknown before {op!r}")
            pos = min(size, pos + int(op["read"]))
        elif "body" in op:
            out.append(("body", op, bytes(op["body"])))
        elif "zc" in op:
            z = op["zc"]
            if z.get("offset") is not None:
                start = int(z["offset"])
                if start > size:
                    raise HarnessError(f"file_ops {spec!r}: offset outside the file")
                pos_known = False
            else:
                if not pos_known:
                    raise HarnessError(f"file_ops {spec!r}: position unknown before {op!r}")
                start = pos
            end = size if z.get("count") is None else min(size, start + int(z["count"]))
            out.append(("zc", op, content[start:end]))
            if z.get("offset") is None:
                pos = end
        else:
            raise HarnessError(f"file op {op!r}")
    return out


def reference_body(inner: Dict[str, Any]) -> bytes:
    if inner.get("file_ops"):
        return b"".join(data for _, _, data in file_ops_plan(inner["file_ops"]))
    return b"".join(expand(inner.get("chunks", [])))


async def _send_file_ops(spec: Dict[str, Any], scope: Any, send: Any) -> None:
    """The body part of an ASGI application described by a file_ops recipe."""
    plan = file_ops_plan(spec)
    offered = ZEROCOPY in (scope.get("extensions") or {})
    final_own = spec.get("final", "op") == "empty-body" or not plan
    fd = os.open(zc_path(int(spec["size"])), os.O_RDONLY)
    try:
        k = 0
        for op in spec["ops"]:
            if "seek" in op:
                os.lseek(fd, int(op["seek"]), os.SEEK_SET)
                continue
            if "read" in op:
                os.read(fd, int(op["read"]))
                continue
            kind, _, data = plan[k]
            k += 1
            more = final_own or k < len(plan)
            if kind == "zc" and offered:
                msg: Dict[str, Any] = {"type": ZEROCOPY, "file": fd, "more_body": more}
                for key in ("offset", "count"):
                    if op["zc"].get(key) is not None:
                        msg[key] = int(op["zc"][key])
                await send(msg)
            else:
                await send({"type": "http.response.body", "body": data, "more_body": more})
                if kind == "zc" and op["zc"].get("offset") is None:
                    os.lseek(fd, len(data), os.SEEK_CUR)  # what the server would have done to the position
        if final_own:
            await send({"type": "http.response.body", "body": b"", "more_body": False})
    finally:
        os.close(fd)


class AsgiFileOpsResponse(A.Response):
    """A response class of a foreign package: status / headers / cookies of baize's Response, body by file ops."""

    def __init__(self, spec: Dict[str, Any], status_code: int = 200, headers: Optional[Dict[str, str]] = None) -> None:
        super().__init__(status_code, headers)
        self.spec = spec

    async def __call__(self, scope: Any, receive: Any, send: Any) -> None:
        await send({"type": "http.response.start", "status": self.status_code, "headers": self.list_headers(as_bytes=True)})
        await _send_file_ops(self.spec, scope, send)


class WsgiFileOpsResponse(W.Response):
    def __init__(self, spec: Dict[str, Any], status_code: int = 200, headers: Optional[Dict[str, str]] = None) -> None:
        super().__init__(status_code, headers)
        self.spec = spec

    def __call__(self, environ: Any, start_response: Any) -> Any:
        start_response(f"{self.status_code} Status", self.list_headers(as_bytes=False))
        return [data for _, _, data in file_ops_plan(self.spec)]


class ViewError(ValueError):
    """Raised by generated views (an ordinary programming error of the application)."""


# ------------------------------------------------------------------------------------------
# handlers


def _observe_request(request: Any) -> None:
    # what an access-log / metrics layer reads; nothing is written
    request.method
    str(request.url)
    dict(request.headers)
    dict(request.cookies)
    request.query_params.multi_items()
    request.client
    request.content_type


def _observe_response(response: Any) -> None:
    response.status_code
    dict(response.headers)
    "content-type" in response.headers
    response.headers.get("Content-Length")
    len(response.headers)
    list(response.headers.items())


def _edit(response: Any, e: Dict[str, Any]) -> None:
    op = e["op"]
    if op in ("identity", "observe"):
        return
    if op == "set":
        response.headers[e["name"]] = e["value"]
    elif op == "append":
        response.headers.append(e["name"], e["value"])
    elif op == "del":
        response.headers.pop(e["name"], None)
    elif op == "delitem":
        if e["name"] in response.headers:
            del response.headers[e["name"]]
    elif op == "setdefault":
        response.headers.setdefault(e["name"], e["value"])
    elif op == "ifabsent":
        if e["name"] not in response.headers:
            response.headers[e["name"]] = e["value"]
    elif op == "cookie":
        response.set_cookie(e["name"], e["value"])
    else:
        raise HarnessError(f"edit {e!r}")


def wsgi_handler(index: int, e: Dict[str, Any], built: Built) -> Callable[[Any, Any], Any]:
    def handler(request: Any, next_call: Any) -> Any:
        built.calls.append(("mw", index))
        if e["op"] == "observe":
            _observe_request(request)
        response = next_call(request)
        if e["op"] == "observe":
            _observe_response(response)
        _edit(response, e)
        return response

    return handler


def asgi_handler(index: int, e: Dict[str, Any], built: Built) -> Callable[[Any, Any], Any]:
    async def handler(request: Any, next_call: Any) -> Any:
        built.calls.append(("mw", index))
        if e["op"] == "observe":
            _observe_request(request)
        response = await next_call(request)
        if e["op"] == "observe":
            _observe_response(response)
        _edit(response, e)
        return response

    return handler


# ------------------------------------------------------------------------------------------
# raw applications


def _xraw_wsgi(a: Dict[str, Any], built: Built) -> Any:
    status = a["status"]
    headers = [(str(k), str(v)) for k, v in a["headers"]]
    chunks = expand(a["chunks"])
    raises = a.get("raises")

    def app(environ: Any, start_response: Any) -> Any:
        built.calls.append(("raw", None))
        start_response(status, list(headers))
        if a.get("file_ops"):
            return [data for _, _, data in file_ops_plan(a["file_ops"])]
        if a.get("returns", "list") == "list" and raises is None:
            return list(chunks)

        def gen():
            for i, c in enumerate(chunks):
                if raises == "mid" and i == max(1, len(chunks) // 2):
                    raise ProducerError("raw app failed mid-body")
                yield c
            if raises == "mid" and len(chunks) < 2:
                raise ProducerError("raw app failed mid-body")

        return gen()

    return app


def _xraw_asgi(a: Dict[str, Any], built: Built) -> Any:
    code = int(str(a["status"])[:3])
    item = tuple if a.get("header_items", "tuple") == "tuple" else list
    headers = [item((str(k).lower().encode("latin-1"), str(v).encode("latin-1"))) for k, v in a["headers"]]
    chunks = expand(a["chunks"])
    omit = set(a.get("omit", []))
    raises = a.get("raises")

    async def app(scope: Any, receive: Any, send: Any) -> None:
        built.calls.append(("raw", None))
        start: Dict[str, Any] = {"type": "http.response.start", "status": code, "headers": list(headers)}
        if "headers" in omit and not headers:
            del start["headers"]  # optional key, defaults to no headers
        await send(start)
        if a.get("file_ops"):
            await _send_file_ops(a["file_ops"], scope, send)
            return
        if not chunks:
            if raises == "mid":
                raise ProducerError("raw app failed mid-body")
            msg: Dict[str, Any] = {"type": "http.response.body", "body": b"", "more_body": False}
            if "body" in omit:
                del msg["body"]
            if "more_body" in omit:
                del msg["more_body"]
            await send(msg)
            return
        for i, c in enumerate(chunks):
            if raises == "mid" and i == max(1, len(chunks) // 2):
                raise ProducerError("raw app failed mid-body")
            await send({"type": "http.response.body", "body": c, "more_body": True})
        if raises == "mid" and len(chunks) < 2:
            raise ProducerError("raw app failed mid-body")
        # the body ends with a message of its own; `body` defaults to b"" and `more_body` to False
        msg = {"type": "http.response.body", "body": b"", "more_body": False}
        if "body" in omit:
            del msg["body"]
        if "more_body" in omit:
            del msg["more_body"]
        await send(msg)

    return app


# ------------------------------------------------------------------------------------------
# views


def _xview(a: Dict[str, Any], side: str, built: Built) -> Any:
    log: List[str] = []
    built.logs.append(log)

    def act() -> Any:
        built.calls.append(("view", None))
        if a.get("raise_http") is not None:
            status, headers, content = a["raise_http"]
            raise HTTPException(status, dict(headers) if headers is not None else None, content)
        if a.get("raise_exc"):
            raise ViewError("view failed")
        if a.get("file_ops"):
            cls = WsgiFileOpsResponse if side == "wsgi" else AsgiFileOpsResponse
            return cls(a["file_ops"], int(a.get("status", 200)), dict(a.get("headers", {})))
        return recipes.build_response(a["response"], side, log)

    if side == "wsgi":

        def view(request: Any) -> Any:
            return act()

    else:

        async def view(request: Any) -> Any:
            return act()

    return view


def _echo(a: Dict[str, Any], side: str, built: Built) -> Any:
    order = a.get("order", ["body"])
    if side == "wsgi":
        inner = recipes.wsgi_echo_view(order, built.stash)

        def view(request: Any) -> Any:
            built.calls.append(("view", None))
            return inner(request)

    else:
        inner = recipes.asgi_echo_view(order, built.stash)

        async def view(request: Any) -> Any:
            built.calls.append(("view", None))
            return await inner(request)

    return view


# ------------------------------------------------------------------------------------------


def build(inner: Dict[str, Any], layers: List[Dict[str, Any]], side: str) -> Built:
    """Application `inner` wrapped in `layers` (innermost first)."""
    M = W if side == "wsgi" else A
    built = Built(None)
    mk = wsgi_handler if side == "wsgi" else asgi_handler
    kind = inner["app"]
    seen_mw = False
    for ly in layers:
        if ly["layer"] == "middleware":
            seen_mw = True
        elif seen_mw:
            raise HarnessError("decorator layer outside a middleware layer")
    deco = [(i, ly) for i, ly in enumerate(layers) if ly["layer"] == "decorator"]
    if kind in ("xview", "echo"):
        view = _xview(inner, side, built) if kind == "xview" else _echo(inner, side, built)
        for i, ly in deco:
            view = M.decorator(mk(i, ly["edit"], built))(view)
        app = M.request_response(view)
    else:
        if deco:
            raise HarnessError("decorator layer on an application that is not a view")
        if kind == "xraw":
            app = _xraw_wsgi(inner, built) if side == "wsgi" else _xraw_asgi(inner, built)
        else:
            app = recipes.build_app(inner, side, built).app
    for i, ly in enumerate(layers):
        if ly["layer"] == "middleware":
            app = M.middleware(mk(i, ly["edit"], built))(app)
    built.app = app
    return built
