"""Extra recipe interpreter for C20 (middleware transparency).

`harness/recipes.py` fixes four handler kinds (identity / add x-mw / replace x-inner / delete x-inner) and
raw inner applications with a fixed protocol shape.  The sub-checks added to C20 later need more freedom,
and recipes.py is shared with other checks, so the additions live here:

layers   [{"layer": "decorator" | "middleware", "edit": E}, ...]   innermost first; decorator layers (view
         decorators) come before middleware layers and need a view-like inner application
E        {"op": "identity"} | {"op": "observe"}                    pass-through (observe reads request and response
                                                                    attributes the way a logging layer does)
         {"op": "set" | "append", "name": N, "value": V}           response.headers[N] = V / response.headers.append(N, V)
         {"op": "del" | "delitem", "name": N}                      response.headers.pop(N, None) / del response.headers[N]
         {"op": "setdefault" | "ifabsent", "name": N, "value": V}  response.headers.setdefault(N, V) / if N not in response.headers: set
         {"op": "cookie", "name": N, "value": V}                   response.set_cookie(N, V)
inner    every application recipe of recipes.build_app, plus
         {"app": "xraw", "status", "headers" [[name, value]], "chunks" [bytes | {"pat": n}], "returns": (below), "start": eager|lazy,
          "omit": [optional ASGI keys left out: "body" (final message), "headers" (start, only without headers),
          "more_body" (final message)], "header_items": tuple|list, "raises": None|"mid"|"first"}
             a raw application; header names are handed over as spelled on WSGI and lower-cased on ASGI
             "returns" (WSGI; what the application hands the server - PEP 3333 asks for `an iterable yielding zero or more
             bytestrings`, nothing more): list | tuple | generator | iterator (an object of a class with __iter__ returning
             itself and __next__) | iterator-close (the same with close()) | iterable (an object of a class whose __iter__
             returns a fresh generator each time) | iterable-close | map (a map object) | chain | chain-tail (itertools.chain
             objects) | callable-iter (iter(callable, sentinel)) | filewrapper (wsgiref.util.FileWrapper over a file-like
             object; it ends at the first empty read, so empty chunks are not produced)
             "start" (WSGI): eager (start_response is called before the application returns; default) | lazy (it is called in
             the first iteration step, i.e. inside the first next() - PEP 3333: `this invocation may be performed by the
             iterable's first iteration, so servers must not assume that start_response() has been called before they begin
             iterating over the iterable`); lists and tuples are eager by nature
             "raises": "mid" (in the middle of the body) | "first" (in the first iteration step, before a lazy start_response)
         {"app": "xview", "response": R | "raise_http": [status, headers|None, content|None] | "raise_exc": "ValueError"}
             a view (wrapped by request_response after the decorator layers)
         {"app": "xwrap", "how": H, "inner": any inner application}
             a layer of a foreign package (no baize code) between the baize layers and the inner application.  WSGI: it calls
             the inner application and hands back its return value re-packaged as H = map | chain | iterator | iterator-close
             | iterable-close | callable-iter, or H = deferred-call (an object whose __iter__ is a generator method that calls
             the inner application only when iterated - the usual shape of class-based response objects and of
             closing-iterator wrappers); close() is forwarded where the shape has one.  ASGI: a pure pass-through wrapper
             (receive and send are forwarded through closures)
         {"app": "echo", "order": [...]}                            the echo view of recipes.py

file_ops {"size": n, "ops": [...], "final": "op" | "empty-body"}     key of an xraw application (then "chunks" is []) or of an xview
         (then the view returns a response object of a foreign class built on baize's Response): the body comes from a file
         of n position-identifying bytes that the application opens itself.  ops, in order:
             {"seek": k} / {"read": k}            the application positions / reads the descriptor itself (a preamble)
             {"body": bytes}                      an ordinary http.response.body chunk
             {"zc": {"offset": o?, "count": c?}}  if the scope offers `http.response.zerocopysend`: that event with the open
                                                  descriptor (offset absent = from the descriptor's current position, count
                                                  absent = to the end of the file); otherwise, and on WSGI, the same bytes as
                                                  an ordinary chunk
         the last message carries more_body False ("op") or an empty final body message follows ("empty-body").
         reference_body() is the reference for what such an application sends (pure Python over the file's content).

Nothing here decides a verdict; the oracle is in checks/C20.py.
"""
from __future__ import annotations

import os
from typing import Any, Callable, Dict, List, Optional, Tuple

import baize.asgi as A
import baize.wsgi as W
from baize.exceptions import HTTPException

from . import recipes, tmpfiles
from . import core as _core
from .core import HarnessError
from .recipes import Built, ProducerError


_PATTERNS: Dict[int, bytes] = {}


def _pattern(n: int) -> bytes:
    if n not in _PATTERNS:
        _PATTERNS[n] = recipes.pattern(n)
    return _PATTERNS[n]


def expand(chunks: List[Any]) -> List[bytes]:
    out = []
    for c in chunks:
        if isinstance(c, dict):
            out.append(_pattern(int(c["pat"])))
        else:
            out.append(bytes(c))
    return out


# ------------------------------------------------------------------------------------------
# applications that use the zero-copy send extension themselves

ZEROCOPY = "http.response.zerocopysend"
_ZC_PATHS: Dict[int, str] = {}


def zc_content(n: int) -> bytes:
    """n bytes in which every 8-byte block names its own offset."""
    return b"".join(b"%07d|" % i for i in range(0, n + 8, 8))[:n]


def zc_path(n: int) -> str:
    if n not in _ZC_PATHS:
        path = os.path.join(tmpfiles.workdir("verif_c20_zc_"), f"body{n}.bin")
        with open(path, "wb") as fh:
            fh.write(zc_content(n))
        _ZC_PATHS[n] = path
    return _ZC_PATHS[n]


_core.AFTER_FORK.append(_ZC_PATHS.clear)


def file_ops_plan(spec: Dict[str, Any]) -> List[Tuple[str, Any, bytes]]:
    """Reference semantics of a file_ops recipe: [(kind, op, bytes this message stands for)] for the message ops.
    A zerocopysend without offset starts at the descriptor's position and moves it (like sendfile(2) without offset);
    where one with offset leaves the position is the server's business, so recipes never rely on it."""
    size = int(spec["size"])
    content = zc_content(size)
    pos = 0
    pos_known = True
    out: List[Tuple[str, Any, bytes]] = []
    for op in spec["ops"]:
        if "seek" in op:
            pos, pos_known = min(size, int(op["seek"])), True
        elif "read" in op:
            if not pos_known:
                raise HarnessError(f"file_ops {spec!r}: position unknown before {op!r}")
            pos = min(size, pos + int(op["read"]))
        elif "body" in op:
            out.append(("body", op, bytes(op["body"])))
        elif "zc" in op:
            z = op["zc"]
            if z.get("offset") is not None:
                start = int(z["offset"])
                if start > size:
                    raise HarnessError(f"file_ops {spec!r}: offset outside the file")
                pos_known = False
            else:
                if not pos_known:
                    raise HarnessError(f"file_ops {spec!r}: position unknown before {op!r}")
                start = pos
            end = size if z.get("count") is None else min(size, start + int(z["count"]))
            out.append(("zc", op, content[start:end]))
            if z.get("offset") is None:
                pos = end
        else:
            raise HarnessError(f"file op {op!r}")
    return out


def reference_body(inner: Dict[str, Any]) -> bytes:
    if inner.get("file_ops"):
        return b"".join(data for _, _, data in file_ops_plan(inner["file_ops"]))
    return b"".join(expand(inner.get("chunks", [])))


async def _send_file_ops(spec: Dict[str, Any], scope: Any, send: Any) -> None:
    """The body part of an ASGI application described by a file_ops recipe."""
    plan = file_ops_plan(spec)
    offered = ZEROCOPY in (scope.get("extensions") or {})
    final_own = spec.get("final", "op") == "empty-body" or not plan
    fd = os.open(zc_path(int(spec["size"])), os.O_RDONLY)
    try:
        k = 0
        for op in spec["ops"]:
            if "seek" in op:
                os.lseek(fd, int(op["seek"]), os.SEEK_SET)
                continue
            if "read" in op:
                os.read(fd, int(op["read"]))
                continue
            kind, _, data = plan[k]
            k += 1
            more = final_own or k < len(plan)
            if kind == "zc" and offered:
                msg: Dict[str, Any] = {"type": ZEROCOPY, "file": fd, "more_body": more}
                for key in ("offset", "count"):
                    if op["zc"].get(key) is not None:
                        msg[key] = int(op["zc"][key])
                await send(msg)
            else:
                await send({"type": "http.response.body", "body": data, "more_body": more})
                if kind == "zc" and op["zc"].get("offset") is None:
                    os.lseek(fd, len(data), os.SEEK_CUR)  # what the server would have done to the position
        if final_own:
            await send({"type": "http.response.body", "body": b"", "more_body": False})
    finally:
        os.close(fd)


class AsgiFileOpsResponse(A.Response):
    """A response class of a foreign package: status / headers / cookies of baize's Response, body by file ops."""

    def __init__(self, spec: Dict[str, Any], status_code: int = 200, headers: Optional[Dict[str, str]] = None) -> None:
        super().__init__(status_code, headers)
        self.spec = spec

    async def __call__(self, scope: Any, receive: Any, send: Any) -> None:
        await send({"type": "http.response.start", "status": self.status_code, "headers": self.list_headers(as_bytes=True)})
        await _send_file_ops(self.spec, scope, send)


class WsgiFileOpsResponse(W.Response):
    def __init__(self, spec: Dict[str, Any], status_code: int = 200, headers: Optional[Dict[str, str]] = None) -> None:
        super().__init__(status_code, headers)
        self.spec = spec

    def __call__(self, environ: Any, start_response: Any) -> Any:
        start_response(f"{self.status_code} Status", self.list_headers(as_bytes=False))
        return [data for _, _, data in file_ops_plan(self.spec)]


class ViewError(ValueError):
    """Raised by generated views (an ordinary programming error of the application)."""


# ------------------------------------------------------------------------------------------
# handlers


def _observe_request(request: Any) -> None:
    # what an access-log / metrics layer reads; nothing is written
    request.method
    str(request.url)
    dict(request.headers)
    dict(request.cookies)
    request.query_params.multi_items()
    request.client
    request.content_type


def _observe_response(response: Any) -> None:
    response.status_code
    dict(response.headers)
    "content-type" in response.headers
    response.headers.get("Content-Length")
    len(response.headers)
    list(response.headers.items())


def _edit(response: Any, e: Dict[str, Any]) -> None:
    op = e["op"]
    if op in ("identity", "observe"):
        return
    if op == "set":
        response.headers[e["name"]] = e["value"]
    elif op == "append":
        response.headers.append(e["name"], e["value"])
    elif op == "del":
        response.headers.pop(e["name"], None)
    elif op == "delitem":
        if e["name"] in response.headers:
            del response.headers[e["name"]]
    elif op == "setdefault":
        response.headers.setdefault(e["name"], e["value"])
    elif op == "ifabsent":
        if e["name"] not in response.headers:
            response.headers[e["name"]] = e["value"]
    elif op == "cookie":
        response.set_cookie(e["name"], e["value"])
    else:
        raise HarnessError(f"edit {e!r}")


def wsgi_handler(index: int, e: Dict[str, Any], built: Built) -> Callable[[Any, Any], Any]:
    def handler(request: Any, next_call: Any) -> Any:
        built.calls.append(("mw", index))
        if e["op"] == "observe":
            _observe_request(request)
        response = next_call(request)
        if e["op"] == "observe":
            _observe_response(response)
        _edit(response, e)
        return response

    return handler


def asgi_handler(index: int, e: Dict[str, Any], built: Built) -> Callable[[Any, Any], Any]:
    async def handler(request: Any, next_call: Any) -> Any:
        built.calls.append(("mw", index))
        if e["op"] == "observe":
            _observe_request(request)
        response = await next_call(request)
        if e["op"] == "observe":
            _observe_response(response)
        _edit(response, e)
        return response

    return handler


# ------------------------------------------------------------------------------------------
# raw applications


RETURNS_EAGER_ONLY = ("list", "tuple")
RETURNS_LAZY_CAPABLE = ("generator", "iterator", "iterator-close", "iterable", "iterable-close", "map", "chain", "chain-tail", "callable-iter", "filewrapper")
RETURNS = RETURNS_EAGER_ONLY + RETURNS_LAZY_CAPABLE
WRAP_HOWS = ("map", "chain", "iterator", "iterator-close", "iterable-close", "callable-iter", "deferred-call")
_END = object()


class _Iterator:
    """An iterator object of a class of its own: __iter__ returns self, __next__ produces the chunks."""

    def __init__(self, step: Callable[[], bytes]) -> None:
        self._step = step

    def __iter__(self) -> "_Iterator":
        return self

    def __next__(self) -> bytes:
        return self._step()


class _ClosingIterator(_Iterator):
    def __init__(self, step: Callable[[], bytes], on_close: Callable[[], None]) -> None:
        super().__init__(step)
        self._on_close = on_close

    def close(self) -> None:
        self._on_close()


class _Iterable:
    """Not an iterator: every __iter__ call makes a fresh generator."""

    def __init__(self, make: Callable[[], Any]) -> None:
        self._make = make

    def __iter__(self) -> Any:
        return self._make()


class _ClosingIterable(_Iterable):
    def __init__(self, make: Callable[[], Any], on_close: Callable[[], None]) -> None:
        super().__init__(make)
        self._on_close = on_close

    def close(self) -> None:
        self._on_close()


class _LazyFile:
    """File-like object under wsgiref's FileWrapper: read(n) hands out at most n bytes of the chunks, b"" at the end."""

    def __init__(self, source: Any, on_close: Callable[[], None]) -> None:
        self._source = source
        self._buf = b""
        self._on_close = on_close

    def read(self, n: int = -1) -> bytes:
        while not self._buf:
            try:
                self._buf = next(self._source)
            except StopIteration:
                return b""
        n = len(self._buf) if n is None or n < 0 else n
        data, self._buf = self._buf[:n], self._buf[n:]
        return data

    def close(self) -> None:
        self._on_close()


def _closes(built: Built) -> List[Any]:
    if not hasattr(built, "closes"):
        built.closes = []  # type: ignore[attr-defined]
    return built.closes  # type: ignore[attr-defined]


def shape_iterable(how: str, make: Callable[[], Any], on_close: Callable[[], None]) -> Any:
    """The chunks of the generator make() as an object of the shape `how` (see RETURNS)."""
    import itertools
    from wsgiref.util import FileWrapper

    if how == "list":
        return list(make())
    if how == "tuple":
        return tuple(make())
    if how == "generator":
        return make()
    if how == "iterator":
        return _Iterator(make().__next__)
    if how == "iterator-close":
        return _ClosingIterator(make().__next__, on_close)
    if how == "iterable":
        return _Iterable(make)
    if how == "iterable-close":
        return _ClosingIterable(make, on_close)
    if how == "map":
        return map(bytes, make())
    if how == "chain":
        return itertools.chain(make())
    if how == "chain-tail":
        return itertools.chain(make(), (b"",))
    if how == "callable-iter":
        g = make()
        return iter(lambda: next(g, _END), _END)
    if how == "filewrapper":
        return FileWrapper(_LazyFile(make(), on_close), 65536)
    raise HarnessError(f"returns {how!r}")


def _note_return(built: Built, ret: Any, started: bool, outer: bool = True) -> Any:
    """For the non-trivial rules and labels of the check: what kind of object went back to the caller (the innermost
    baize layer, or the server) and whether start_response had been called by then."""
    import inspect

    if not outer:
        return ret
    built.returned = {"type": type(ret).__name__, "generator": inspect.isgenerator(ret), "sequence": isinstance(ret, (list, tuple)), "started": started,
                      "closable": hasattr(ret, "close") and not inspect.isgenerator(ret)}  # type: ignore[attr-defined]
    return ret


def _xraw_wsgi(a: Dict[str, Any], built: Built, outer: bool = True) -> Any:
    status = a["status"]
    headers = [(str(k), str(v)) for k, v in a["headers"]]
    chunks = expand(a["chunks"])
    raises = a.get("raises")
    returns = a.get("returns", "list")
    lazy = a.get("start", "eager") == "lazy"
    if returns not in RETURNS or (lazy and returns in RETURNS_EAGER_ONLY) or a.get("start", "eager") not in ("eager", "lazy"):
        raise HarnessError(f"xraw returns {returns!r} start {a.get('start')!r}")
    if returns == "filewrapper":
        chunks = [c for c in chunks if c]

    def app(environ: Any, start_response: Any) -> Any:
        built.calls.append(("raw", None))
        if not lazy:
            start_response(status, list(headers))
        if a.get("file_ops"):
            return [data for _, _, data in file_ops_plan(a["file_ops"])]
        if returns == "list" and raises is None:
            return _note_return(built, list(chunks), True, outer)
        if returns == "tuple" and raises is None:
            return _note_return(built, tuple(chunks), True, outer)
        begun = []

        def gen():
            if raises == "first":
                raise ProducerError("raw app failed in the first iteration step")
            if lazy and not begun:
                begun.append(1)
                start_response(status, list(headers))
            for i, c in enumerate(chunks):
                if raises == "mid" and i == max(1, len(chunks) // 2):
                    raise ProducerError("raw app failed mid-body")
                yield c
            if raises == "mid" and len(chunks) < 2:
                raise ProducerError("raw app failed mid-body")

        closes = _closes(built)
        return _note_return(built, shape_iterable("generator" if returns in RETURNS_EAGER_ONLY else returns, gen, lambda: closes.append("outer" if outer else "raw")), not lazy, outer)

    return app


def _xwrap_wsgi(a: Dict[str, Any], inner_app: Any, built: Built, outer: bool = True) -> Any:
    how = a["how"]
    if how not in WRAP_HOWS:
        raise HarnessError(f"xwrap how {how!r}")

    def app(environ: Any, start_response_: Any) -> Any:
        closes = _closes(built)
        started = []

        def start_response(*args: Any, **kw: Any) -> Any:
            started.append(1)
            return start_response_(*args, **kw)

        if how == "deferred-call":

            class Deferred:
                result: Any = None

                def __iter__(self) -> Any:
                    self.result = inner_app(environ, start_response)
                    yield from self.result

                def close(self) -> None:
                    closes.append("outer" if outer else "wrap")
                    if hasattr(self.result, "close"):
                        self.result.close()

            return _note_return(built, Deferred(), False, outer)
        result = inner_app(environ, start_response)

        def on_close() -> None:
            closes.append("outer" if outer else "wrap")
            if hasattr(result, "close"):
                result.close()

        return _note_return(built, shape_iterable(how, lambda: iter(result), on_close), bool(started), outer)

    return app


def _xwrap_asgi(a: Dict[str, Any], inner_app: Any, built: Built) -> Any:
    async def app(scope: Any, receive: Any, send: Any) -> None:
        async def receive_() -> Any:
            return await receive()

        async def send_(message: Any) -> None:
            await send(message)

        await inner_app(scope, receive_, send_)

    return app


def _xraw_asgi(a: Dict[str, Any], built: Built) -> Any:
    code = int(str(a["status"])[:3])
    item = tuple if a.get("header_items", "tuple") == "tuple" else list
    headers = [item((str(k).lower().encode("latin-1"), str(v).encode("latin-1"))) for k, v in a["headers"]]
    chunks = expand(a["chunks"])
    omit = set(a.get("omit", []))
    raises = a.get("raises")

    async def app(scope: Any, receive: Any, send: Any) -> None:
        built.calls.append(("raw", None))
        if raises == "first":
            raise ProducerError("raw app failed in the first iteration step")
        start: Dict[str, Any] = {"type": "http.response.start", "status": code, "headers": list(headers)}
        if "headers" in omit and not headers:
            del start["headers"]  # optional key, defaults to no headers
        await send(start)
        if a.get("file_ops"):
            await _send_file_ops(a["file_ops"], scope, send)
            return
        if not chunks:
            if raises == "mid":
                raise ProducerError("raw app failed mid-body")
            msg: Dict[str, Any] = {"type": "http.response.body", "body": b"", "more_body": False}
            if "body" in omit:
                del msg["body"]
            if "more_body" in omit:
                del msg["more_body"]
            await send(msg)
            return
        for i, c in enumerate(chunks):
            if raises == "mid" and i == max(1, len(chunks) // 2):
                raise ProducerError("raw app failed mid-body")
            await send({"type": "http.response.body", "body": c, "more_body": True})
        if raises == "mid" and len(chunks) < 2:
            raise ProducerError("raw app failed mid-body")
        # the body ends with a message of its own; `body` defaults to b"" and `more_body` to False
        msg = {"type": "http.response.body", "body": b"", "more_body": False}
        if "body" in omit:
            del msg["body"]
        if "more_body" in omit:
            del msg["more_body"]
        await send(msg)

    return app


# ------------------------------------------------------------------------------------------
# views


def _xview(a: Dict[str, Any], side: str, built: Built) -> Any:
    log: List[str] = []
    built.logs.append(log)

    def act() -> Any:
        built.calls.append(("view", None))
        if a.get("raise_http") is not None:
            status, headers, content = a["raise_http"]
            raise HTTPException(status, dict(headers) if headers is not None else None, content)
        if a.get("raise_exc"):
            raise ViewError("view failed")
        if a.get("file_ops"):
            cls = WsgiFileOpsResponse if side == "wsgi" else AsgiFileOpsResponse
            return cls(a["file_ops"], int(a.get("status", 200)), dict(a.get("headers", {})))
        return recipes.build_response(a["response"], side, log)

    if side == "wsgi":

        def view(request: Any) -> Any:
            return act()

    else:

        async def view(request: Any) -> Any:
            return act()

    return view


def _echo(a: Dict[str, Any], side: str, built: Built) -> Any:
    order = a.get("order", ["body"])
    if side == "wsgi":
        inner = recipes.wsgi_echo_view(order, built.stash)

        def view(request: Any) -> Any:
            built.calls.append(("view", None))
            return inner(request)

    else:
        inner = recipes.asgi_echo_view(order, built.stash)

        async def view(request: Any) -> Any:
            built.calls.append(("view", None))
            return await inner(request)

    return view


# ------------------------------------------------------------------------------------------


def _build_plain(inner: Dict[str, Any], side: str, built: Built, outer: bool = True) -> Any:
    """An inner application without decorator layers."""
    M = W if side == "wsgi" else A
    kind = inner["app"]
    if kind == "xwrap":
        inner_app = _build_plain(inner["inner"], side, built, False)
        return _xwrap_wsgi(inner, inner_app, built, outer) if side == "wsgi" else _xwrap_asgi(inner, inner_app, built)
    if kind == "xraw":
        return _xraw_wsgi(inner, built, outer) if side == "wsgi" else _xraw_asgi(inner, built)
    if kind in ("xview", "echo"):
        return M.request_response(_xview(inner, side, built) if kind == "xview" else _echo(inner, side, built))
    return recipes.build_app(inner, side, built).app


def build(inner: Dict[str, Any], layers: List[Dict[str, Any]], side: str) -> Built:
    """Application `inner` wrapped in `layers` (innermost first)."""
    M = W if side == "wsgi" else A
    built = Built(None)
    mk = wsgi_handler if side == "wsgi" else asgi_handler
    kind = inner["app"]
    seen_mw = False
    for ly in layers:
        if ly["layer"] == "middleware":
            seen_mw = True
        elif seen_mw:
            raise HarnessError("decorator layer outside a middleware layer")
    deco = [(i, ly) for i, ly in enumerate(layers) if ly["layer"] == "decorator"]
    if kind in ("xview", "echo"):
        view = _xview(inner, side, built) if kind == "xview" else _echo(inner, side, built)
        for i, ly in deco:
            view = M.decorator(mk(i, ly["edit"], built))(view)
        app = M.request_response(view)
    else:
        if deco:
            raise HarnessError("decorator layer on an application that is not a view")
        app = _build_plain(inner, side, built)
    for i, ly in enumerate(layers):
        if ly["layer"] == "middleware":
            app = M.middleware(mk(i, ly["edit"], built))(app)
    built.app = app
    return built
