"""Extra recipe interpreter for C20 (middleware transparency).

`harness/recipes.py` fixes four handler kinds (identity / add x-mw / replace x-inner / delete x-inner) and
raw inner applications with a fixed protocol shape.  The sub-checks added to C20 later need more freedom,
and recipes.py is shared with other checks, so the additions live here:

layers   [{"layer": "decorator" | "middleware", "edit": E}, ...]   innermost first; decorator layers (view
         decorators) come before middleware layers and need a view-like inner application
E        {"op": "identity"} | {"op": "observe"}                    pass-through (observe reads request and response
                                                                    attributes the way a logging layer does)
         {"op": "set" | "append", "name": N, "value": V}           response.headers[N] = V / response.headers.append(N, V)
         {"op": "del" | "delitem", "name": N}                      response.headers.pop(N, None) / del response.headers[N]
         {"op": "setdefault" | "ifabsent", "name": N, "value": V}  response.headers.setdefault(N, V) / if N not in response.headers: set
         {"op": "cookie", "name": N, "value": V}                   response.set_cookie(N, V)
inner    every application recipe of recipes.build_app, plus
         {"app": "xraw", "status", "headers" [[name, value]], "chunks" [bytes | {"pat": n}], "returns": list|generator,
          "omit": [optional ASGI keys left out: "body" (final message), "headers" (start, only without headers),
          "more_body" (final message)], "header_items": tuple|list, "raises": None|"mid"}
             a raw application; header names are handed over as spelled on WSGI and lower-cased on ASGI
         {"app": "xview", "response": R | "raise_http": [status, headers|None, content|None] | "raise_exc": "ValueError"}
             a view (wrapped by request_response after the decorator layers)
         {"app": "echo", "order": [...]}                            the echo view of recipes.py

Nothing here decides a verdict; the oracle is in checks/C20.py.
"""
from __future__ import annotations

from typing import Any, Callable, Dict, List

import baize.asgi as A
import baize.wsgi as W
from baize.exceptions import HTTPException

from . import recipes
from .core import HarnessError
from .recipes import Built, ProducerError


_PATTERNS: Dict[int, bytes] = {}


def _pattern(n: int) -> bytes:
    if n not in _PATTERNS:
        _PATTERNS[n] = recipes.pattern(n)
    return _PATTERNS[n]


def expand(chunks: List[Any]) -> List[bytes]:
    out = []
    for c in chunks:
        if isinstance(c, dict):
            out.append(_pattern(int(c["pat"])))
        else:
            out.append(bytes(c))
    return out


class ViewError(ValueError):
    """Raised by generated views (an ordinary programming error of the application)."""


# ------------------------------------------------------------------------------------------
# handlers


def _observe_request(request: Any) -> None:
    # what an access-log / metrics layer reads; nothing is written
    request.method
    str(request.url)
    dict(request.headers)
    dict(request.cookies)
    request.query_params.multi_items()
    request.client
    request.content_type


def _observe_response(response: Any) -> None:
    response.status_code
    dict(response.headers)
    "content-type" in response.headers
    response.headers.get("Content-Length")
    len(response.headers)
    list(response.headers.items())


def _edit(response: Any, e: Dict[str, Any]) -> None:
    op = e["op"]
    if op in ("identity", "observe"):
        return
    if op == "set":
        response.headers[e["name"]] = e["value"]
    elif op == "append":
        response.headers.append(e["name"], e["value"])
    elif op == "del":
        response.headers.pop(e["name"], None)
    elif op == "delitem":
        if e["name"] in response.headers:
            del response.headers[e["name"]]
    elif op == "setdefault":
        response.headers.setdefault(e["name"], e["value"])
    elif op == "ifabsent":
        if e["name"] not in response.headers:
            response.headers[e["name"]] = e["value"]
    elif op == "cookie":
        response.set_cookie(e["name"], e["value"])
    else:
        raise HarnessError(f"edit {e!r}")


def wsgi_handler(index: int, e: Dict[str, Any], built: Built) -> Callable[[Any, Any], Any]:
    def handler(request: Any, next_call: Any) -> Any:
        built.calls.append(("mw", index))
        if e["op"] == "observe":
            _observe_request(request)
        response = next_call(request)
        if e["op"] == "observe":
            _observe_response(response)
        _edit(response, e)
        return response

    return handler


def asgi_handler(index: int, e: Dict[str, Any], built: Built) -> Callable[[Any, Any], Any]:
    async def handler(request: Any, next_call: Any) -> Any:
        built.calls.append(("mw", index))
        if e["op"] == "observe":
            _observe_request(request)
        response = await next_call(request)
        if e["op"] == "observe":
            _observe_response(response)
        _edit(response, e)
        return response

    return handler


# ------------------------------------------------------------------------------------------
# raw applications


def _xraw_wsgi(a: Dict[str, Any], built: Built) -> Any:
    status = a["status"]
    headers = [(str(k), str(v)) for k, v in a["headers"]]
    chunks = expand(a["chunks"])
    raises = a.get("raises")

    def app(environ: Any, start_response: Any) -> Any:
        built.calls.append(("raw", None))
        start_response(status, list(headers))
        if a.get("returns", "list") == "list" and raises is None:
            return list(chunks)

        def gen():
            for i, c in enumerate(chunks):
                if raises == "mid" and i == max(1, len(chunks) // 2):
                    raise ProducerError("raw app failed mid-body")
                yield c
            if raises == "mid" and len(chunks) < 2:
                raise ProducerError("raw app failed mid-body")

        return gen()

    return app


def _xraw_asgi(a: Dict[str, Any], built: Built) -> Any:
    code = int(str(a["status"])[:3])
    item = tuple if a.get("header_items", "tuple") == "tuple" else list
    headers = [item((str(k).lower().encode("latin-1"), str(v).encode("latin-1"))) for k, v in a["headers"]]
    chunks = expand(a["chunks"])
    omit = set(a.get("omit", []))
    raises = a.get("raises")

    async def app(scope: Any, receive: Any, send: Any) -> None:
        built.calls.append(("raw", None))
        start: Dict[str, Any] = {"type": "http.response.start", "status": code, "headers": list(headers)}
        if "headers" in omit and not headers:
            del start["headers"]  # optional key, defaults to no headers
        await send(start)
        if not chunks:
            if raises == "mid":
                raise ProducerError("raw app failed mid-body")
            msg: Dict[str, Any] = {"type": "http.response.body", "body": b"", "more_body": False}
            if "body" in omit:
                del msg["body"]
            if "more_body" in omit:
                del msg["more_body"]
            await send(msg)
            return
        for i, c in enumerate(chunks):
            if raises == "mid" and i == max(1, len(chunks) // 2):
                raise ProducerError("raw app failed mid-body")
            await send({"type": "http.response.body", "body": c, "more_body": True})
        if raises == "mid" and len(chunks) < 2:
            raise ProducerError("raw app failed mid-body")
        # the body ends with a message of its own; `body` defaults to b"" and `more_body` to False
        msg = {"type": "http.response.body", "body": b"", "more_body": False}
        if "body" in omit:
            del msg["body"]
        if "more_body" in omit:
            del msg["more_body"]
        await send(msg)

    return app


# ------------------------------------------------------------------------------------------
# views


def _xview(a: Dict[str, Any], side: str, built: Built) -> Any:
    log: List[str] = []
    built.logs.append(log)

    def act() -> Any:
        built.calls.append(("view", None))
        if a.get("raise_http") is not None:
            status, headers, content = a["raise_http"]
            raise HTTPException(status, dict(headers) if headers is not None else None, content)
        if a.get("raise_exc"):
            raise ViewError("view failed")
        return recipes.build_response(a["response"], side, log)

    if side == "wsgi":

        def view(request: Any) -> Any:
            return act()

    else:

        async def view(request: Any) -> Any:
            return act()

    return view


def _echo(a: Dict[str, Any], side: str, built: Built) -> Any:
    order = a.get("order", ["body"])
    if side == "wsgi":
        inner = recipes.wsgi_echo_view(order, built.stash)

        def view(request: Any) -> Any:
            built.calls.append(("view", None))
            return inner(request)

    else:
        inner = recipes.asgi_echo_view(order, built.stash)

        async def view(request: Any) -> Any:
            built.calls.append(("view", None))
            return await inner(request)

    return view


# ------------------------------------------------------------------------------------------


def build(inner: Dict[str, Any], layers: List[Dict[str, Any]], side: str) -> Built:
    """Application `inner` wrapped in `layers` (innermost first)."""
    M = W if side == "wsgi" else A
    built = Built(None)
    mk = wsgi_handler if side == "wsgi" else asgi_handler
    kind = inner["app"]
    seen_mw = False
    for ly in layers:
        if ly["layer"] == "middleware":
            seen_mw = True
        elif seen_mw:
            raise HarnessError("decorator layer outside a middleware layer")
    deco = [(i, ly) for i, ly in enumerate(layers) if ly["layer"] == "decorator"]
    if kind in ("xview", "echo"):
        view = _xview(inner, side, built) if kind == "xview" else _echo(inner, side, built)
        for i, ly in deco:
            view = M.decorator(mk(i, ly["edit"], built))(view)
        app = M.request_response(view)
    else:
        if deco:
            raise HarnessError("decorator layer on an application that is not a view")
        if kind == "xraw":
            app = _xraw_wsgi(inner, built) if side == "wsgi" else _xraw_asgi(inner, built)
        else:
            app = recipes.build_app(inner, side, built).app
    for i, ly in enumerate(layers):
        if ly["layer"] == "middleware":
            app = M.middleware(mk(i, ly["edit"], built))(app)
    built.app = app
    return built
