"""Virtual-time asyncio event loop.

time() returns a virtual clock; when nothing is ready the clock jumps to the next timer, so
scenarios with sleeps, ping intervals and timeouts run in microseconds and are exactly
repeatable.  If nothing is ready, no timer is pending and no executor job is outstanding while
the main coroutine has not finished, the run is a *detected hang* (Hang is raised) - not a
timeout."""
from __future__ import annotations

import asyncio
from typing import Any, Awaitable, Callable, List, Optional


class Hang(Exception):
    """The event loop ran dry: no ready callback, no timer, main coroutine not finished."""


class VirtualTimeLoop(asyncio.SelectorEventLoop):
    def __init__(self) -> None:
        super().__init__()
        self._vt = 0.0
        self._outstanding_executor_jobs = 0
        self.hung = False
        self.steps = 0
        # a run that never runs dry (e.g. a keep-alive timer re-armed for ever while the call never ends) must end too:
        # after this many loop iterations the run counts as hung (Hang is raised by the runner, like for a dry loop)
        self.max_steps = 2_000_000
        self.runaway = False

    def time(self) -> float:
        return self._vt

    def run_in_executor(self, executor, func, *args):  # type: ignore[no-untyped-def]
        self._outstanding_executor_jobs += 1
        fut = super().run_in_executor(executor, func, *args)

        def done(_f):  # type: ignore[no-untyped-def]
            self._outstanding_executor_jobs -= 1

        fut.add_done_callback(done)
        return fut

    def _run_once(self) -> None:  # type: ignore[override]
        self.steps += 1
        if self.steps > self.max_steps and not self.hung:
            self.hung = True
            self.runaway = True
            self.stop()
        if not self._ready:
            # drop cancelled timers at the head, then jump
            sched = self._scheduled
            while sched and sched[0]._cancelled:
                import heapq

                h = heapq.heappop(sched)
                h._scheduled = False
                self._timer_cancelled_count = max(0, self._timer_cancelled_count - 1)
            if sched:
                when = sched[0]._when
                if when > self._vt:
                    self._vt = when
            elif self._outstanding_executor_jobs == 0:
                self.hung = True
                self.stop()
                # schedule a no-op so that the base implementation does not block in select()
                self.call_soon(lambda: None)
        super()._run_once()


def run_virtual(make_coro: Callable[[], Awaitable[Any]], max_steps: int = 2_000_000) -> Any:
    """Run make_coro() to completion on a fresh virtual-time loop; returns (result, loop)
    where the loop is already closed but still answers .time()/.steps.  Raises Hang when the
    loop runs dry before the coroutine finished."""
    loop = VirtualTimeLoop()
    loop.max_steps = max_steps
    asyncio.set_event_loop(loop)
    try:
        task = loop.create_task(make_coro())
        task.add_done_callback(lambda _t: loop.stop())
        loop.run_forever()
        if not task.done():
            at = loop.time()
            runaway = loop.runaway
            loop.max_steps = loop.steps + 100_000  # room for the unwinding below
            _drain(loop, [task])
            if runaway:
                raise Hang(f"the call was still running after {max_steps} event-loop iterations (virtual time {at:.3f}): it never ends")
            raise Hang(f"event loop ran dry at virtual time {at:.3f} with the call unfinished")
        return task.result(), loop
    finally:
        pending = [t for t in asyncio.all_tasks(loop) if not t.done()]
        _drain(loop, pending)
        try:
            loop.hung = False
            loop.run_until_complete(loop.shutdown_asyncgens())
        except Exception:  # noqa: BLE001
            pass
        loop.close()
        asyncio.set_event_loop(None)


def _drain(loop: VirtualTimeLoop, tasks: List[Any]) -> None:
    """Cancel tasks and give them a bounded chance to unwind."""
    if not tasks:
        return
    for t in tasks:
        t.cancel()
    for _ in range(3):
        loop.hung = False
        loop.max_steps = max(loop.max_steps, loop.steps + 100_000)
        waiter = asyncio.gather(*tasks, return_exceptions=True)
        waiter.add_done_callback(lambda _f: loop.stop())
        try:
            loop.run_forever()
        except Exception:  # noqa: BLE001
            return
        if waiter.done():
            return
        waiter.cancel()
