"""C01 extensions (no baize import): a multipart/form-data *encoder with selectable header syntax*
(every spelling it can produce is equally well-formed: RFC 7578 / RFC 2183 / RFC 2045 / RFC 822
header grammar), the matching expectations, request-header spellings, deterministic big contents
and the enumerated case lists of the sub-checks `syntax`, `align`, `big` of checks/C01.py.

Form model = the one of refs/multipart.py plus, per part, an optional "sx" dict:
  sep     text written before every disposition parameter: "; " (default) ";" ";  " ";\t" " ; "
  colon   text written after every header name of the part: ": " (default) ":" ":  " ":\t"
  pcase   spelling of the parameter names name/filename: lower (default) | upper | title
  dtype   spelling of the disposition type: form-data (default) | Form-Data | FORM-DATA
  order   "nf" (default) name first | "fn" filename first
  token   True: values that are RFC 2045 tokens are written without quotes
  extra   [[k, v]...] further disposition parameters, written verbatim after the others
  extra_first  True: the extra parameters are written before name/filename
  cd_pos  position of the Content-Disposition line among the part's header lines (default 0)
Header values in part["headers"] may contain folds ("\r\n " / "\r\n\t", several blanks after the
line break, several folds): a fold denotes white space (RFC 822 3.1.1, RFC 7230 3.2.4: "one or more SP").
"""
from __future__ import annotations

import re
import string
from typing import Any, Dict, Iterator, List, Optional, Sequence, Tuple

CRLF = b"\r\n"
_TOKEN_CHARS = set("!#$%&'*+-.^_`|~" + string.ascii_letters + string.digits)
_WS = re.compile(r"[ \t]+")
_FOLD = re.compile(r"\r\n[ \t]+")


def is_token(s: str) -> bool:
    return bool(s) and all(ch in _TOKEN_CHARS for ch in s)


def ws(v: str) -> str:
    """Header value with folds unfolded and every run of blanks/tabs reduced to one blank."""
    return _WS.sub(" ", _FOLD.sub(" ", v)).strip()


def disposition_value(part: Dict[str, Any]) -> str:
    sx = part.get("sx") or {}
    sep = sx.get("sep", "; ")
    case = sx.get("pcase", "lower")

    def pn(n: str) -> str:
        return {"lower": n, "upper": n.upper(), "title": n.title()}[case]

    def pv(v: str) -> str:
        return v if (sx.get("token") and is_token(v)) else '"' + v + '"'

    params = [(pn("name"), pv(part["name"]))]
    if part.get("filename") is not None:
        params.append((pn("filename"), pv(part["filename"])))
    if sx.get("order") == "fn":
        params.reverse()
    extra = [(k, v) for k, v in sx.get("extra", [])]
    params = extra + params if sx.get("extra_first") else params + extra
    return sx.get("dtype", "form-data") + "".join(f"{sep}{k}={v}" for k, v in params)


def part_header_block(part: Dict[str, Any], charset: str) -> bytes:
    sx = part.get("sx") or {}
    colon = sx.get("colon", ": ")
    lines = [f"{k}{colon}{v}" for k, v in part.get("headers", [])]
    pos = max(0, min(int(sx.get("cd_pos", 0)), len(lines)))
    lines.insert(pos, f"{part.get('cd_name', 'Content-Disposition')}{colon}{disposition_value(part)}")
    return CRLF.join(line.encode(charset) for line in lines) + CRLF + CRLF


def encode(form: Dict[str, Any]) -> bytes:
    b = form["boundary"].encode("ascii")
    pad = form.get("padding", b"")
    out = bytearray()
    if form.get("preamble") is not None:
        out += form["preamble"] + CRLF
    parts = form["parts"]
    if parts:
        for i, part in enumerate(parts):
            if i > 0:
                out += CRLF
            out += b"--" + b + pad + CRLF
            out += part_header_block(part, form["charset"])
            out += part["content"]
        out += CRLF + b"--" + b + b"--" + pad
    else:
        out += b"--" + b + b"--" + pad
    if form.get("epilogue") is not None:
        out += CRLF + form["epilogue"]
    return bytes(out)


def header_spans(form: Dict[str, Any], body: bytes) -> List[Tuple[int, int]]:
    spans = []
    idx = 0
    for part in form["parts"]:
        hb = part_header_block(part, form["charset"])
        at = body.find(hb, idx)
        spans.append((at, at + len(hb)))
        idx = at + len(hb) + len(part["content"])
    return spans


def expected_items(form: Dict[str, Any]) -> List[Tuple[Any, ...]]:
    """Ordered ('field', name, text) / ('file', name, filename, headers dict, content_type, bytes);
    header values in the canonical white-space form of `ws`."""
    out: List[Tuple[Any, ...]] = []
    cs = form["charset"]
    for part in form["parts"]:
        if part.get("filename") is None:
            out.append(("field", part["name"], part["content"].decode(cs)))
        else:
            hdrs = {k.lower(): ws(v) for k, v in part.get("headers", [])}
            hdrs[part.get("cd_name", "Content-Disposition").lower()] = ws(disposition_value(part))
            out.append(("file", part["name"], part["filename"], hdrs, hdrs.get("content-type", ""), part["content"]))
    return out


def canon_items(items: Sequence[Tuple[Any, ...]]) -> List[Tuple[Any, ...]]:
    """Observed items with header values brought to the same white-space form."""
    out: List[Tuple[Any, ...]] = []
    for it in items:
        if it[0] == "file":
            hdrs = {k: ws(v) for k, v in it[3].items()}
            out.append(("file", it[1], it[2], hdrs, ws(it[4]), it[5]))
        else:
            out.append(tuple(it))
    return out


# ------------------------------------------------------------------------------------------
# request header spellings


CT_STYLES = ["quoted", "token", "upper", "nospace", "tabsep", "charset-first", "charset-quoted", "charset-upper"]


def content_type_value(form: Dict[str, Any], style: str = "quoted") -> str:
    """A Content-Type request header value naming the form's boundary (and charset).  Every style is a
    legal spelling of the same media type (RFC 7231 3.1.1.1: parameter names case-insensitive, values
    token or quoted-string, optional white space around ';')."""
    b = form["boundary"]
    cs = form["charset"]
    bv = b if (style == "token" and is_token(b)) else f'"{b}"'
    pb, pc = ("Boundary", "CHARSET") if style == "upper" else ("boundary", "charset")
    sep = {"nospace": ";", "tabsep": ";\t"}.get(style, "; ")
    csv = {"charset-quoted": f'"{cs}"', "charset-upper": cs.upper()}.get(style, cs)
    params = [(pb, bv)]
    if cs != "utf-8" or style in ("charset-first", "charset-quoted", "charset-upper", "upper"):
        params.append((pc, csv))
    if style == "charset-first":
        params.reverse()
    return "multipart/form-data" + "".join(f"{sep}{k}={v}" for k, v in params)


def request_headers(form: Dict[str, Any], body_len: int, rq: Optional[Dict[str, Any]]) -> List[List[str]]:
    rq = rq or {}
    headers = [["Content-Type", content_type_value(form, rq.get("ct", "quoted"))]]
    length = rq.get("length", "present")
    if length == "present":
        headers.append(["Content-Length", str(body_len)])
    elif length == "chunked":  # the server has removed the transfer coding; the length is unknown up front
        headers.append(["Transfer-Encoding", "chunked"])
    return headers


# ------------------------------------------------------------------------------------------
# deterministic contents


def big_content(size: int, boundary: str, salt: int = 0, text: bool = False, hostile_at: Sequence[int] = ()) -> bytes:
    """`size` bytes of position-identifying records ('%014x|' + one salt-dependent byte) with hostile
    pieces (CR, LF, dashes, the delimiter minus its last byte) written over it at the given offsets.
    Never contains '--' + boundary.  With text=True the result is valid UTF-8."""
    rec = 16
    n = size // rec + 1
    tail = bytes([0x41 + salt % 26]) if text else bytes([0x80 + salt % 100])
    buf = bytearray(b"".join(b"%014x|" % i + tail for i in range(n)))[:size]
    delim = ("\r\n--" + boundary).encode("ascii")
    pieces = [delim[:-1], b"\r", b"\r\n", b"\n", b"--", delim[:-1] + b"\r\n", b"\r\n--", b"-\r\n-" + boundary.encode("ascii")]
    for k, at in enumerate(hostile_at):
        p = pieces[k % len(pieces)]
        if 0 <= at and at + len(p) <= size:
            buf[at:at + len(p)] = p
    data = bytes(buf)
    needle = ("--" + boundary).encode("ascii")
    if needle in data:
        raise AssertionError("big_content produced the delimiter")
    if text:
        data.decode("utf-8")
    return data


# ------------------------------------------------------------------------------------------
# enumerated cases: header / request syntax and names


def _base_parts() -> List[Dict[str, Any]]:
    return [
        {"name": "title", "filename": None, "headers": [], "content": b"hello\r\nworld"},
        {"name": "upload", "filename": "a.txt", "headers": [["Content-Type", "text/plain"], ["X-Extra", "1"]], "content": b"\r\n--\x00\xff\r"},
        {"name": "note", "filename": None, "headers": [], "content": b"x"},
    ]


def _form(parts: List[Dict[str, Any]], boundary: str = "bnd", charset: str = "utf-8", **kw: Any) -> Dict[str, Any]:
    f = {"boundary": boundary, "charset": charset, "preamble": None, "epilogue": b"", "padding": b"", "parts": parts}
    f.update(kw)
    return f


SX_VARIANTS: List[Tuple[str, Dict[str, Any]]] = [
    ("plain", {}),
    ("sep-none", {"sep": ";"}),
    ("sep-two-blanks", {"sep": ";  "}),
    ("sep-tab", {"sep": ";\t"}),
    ("sep-blank-before", {"sep": " ; "}),
    ("colon-bare", {"colon": ":"}),
    ("colon-two-blanks", {"colon": ":  "}),
    ("colon-tab", {"colon": ":\t"}),
    ("pcase-upper", {"pcase": "upper"}),
    ("pcase-title", {"pcase": "title"}),
    ("dtype-title", {"dtype": "Form-Data"}),
    ("dtype-upper", {"dtype": "FORM-DATA"}),
    ("order-filename-first", {"order": "fn"}),
    ("token-values", {"token": True}),
    ("extra-params", {"extra": [["size", "3"], ["creation-date", '"Wed, 12 Feb 1997 16:29:51 -0500"']]}),
    ("extra-params-first", {"extra": [["size", "3"]], "extra_first": True}),
    ("cd-second", {"cd_pos": 1}),
    ("cd-last", {"cd_pos": 9}),
    ("all-at-once", {"sep": ";", "colon": ":", "pcase": "upper", "dtype": "Form-Data", "order": "fn", "token": True, "cd_pos": 9,
                     "extra": [["size", "3"]]}),
]

FOLDED_HEADERS: List[Tuple[str, List[List[str]]]] = [
    ("fold-blank", [["X-Extra", "folded\r\n value"]]),
    ("fold-tab", [["X-Extra", "folded\r\n\tvalue"]]),
    ("fold-many-blanks", [["X-Extra", "folded\r\n    value"]]),
    ("fold-twice", [["X-Extra", "one\r\n two\r\n three"]]),
    ("fold-two-headers", [["X-Extra", "one\r\n two"], ["Content-Type", "text/plain;\r\n charset=utf-8"]]),
    ("fold-tab-twice", [["Content-Type", "text/plain;\r\n\tcharset=utf-8;\r\n\tx=y"]]),
]


def special_names(boundary: str) -> List[Tuple[str, str]]:
    return [
        ("upper", "UPPER"),
        ("mixed-case", "MiXed.TXT"),
        ("slash", "dir/file.txt"),
        ("abs-path", "/abs/path/f"),
        ("dotdot", "../up"),
        ("trailing-slash", "a/"),
        ("nfd", "école"),
        ("angstrom", "Ångstrom"),
        ("ligature", "ﬁle"),
        ("emoji", "\U0001f600.png"),
        ("delimiter-inside", "x--" + boundary),
        ("delimiter-alone", "--" + boundary + "--"),
        ("param-lookalike", "a; filename=b"),
        ("equals", "name=value"),
        ("percent", "100%25 %0A"),
        ("plus", "a+b c"),
        ("lead-trail-blank", " padded "),
        ("ideographic-space", "　x　"),
        ("nul", "a\x00b"),
        ("del", "a\x7fb"),
        ("long-5000", "L" + "o" * 4998 + "g"),
        ("long-70000", "N" + "a" * 69998 + "e"),
    ]


def syntax_cases(quick: bool) -> Iterator[Dict[str, Any]]:
    # 1. disposition / header-line spellings, on every part of a three-part form
    for label, sx in SX_VARIANTS:
        for charset, boundary in (("utf-8", "bnd"), ("gbk", "'()+_,-./:=?")):
            if quick and charset == "gbk" and label not in ("plain", "all-at-once", "pcase-upper", "sep-none"):
                continue
            parts = _base_parts()
            if charset == "gbk":
                parts[0]["name"] = "中文"
                parts[1]["filename"] = "文件.txt"
            for p in parts:
                p["sx"] = dict(sx)
            yield {"label": "sx:" + label, "form": _form(parts, boundary=boundary, charset=charset)}
    # 2. folded header lines
    for label, hdrs in FOLDED_HEADERS:
        parts = _base_parts()
        parts[1]["headers"] = [list(h) for h in hdrs]
        yield {"label": "hdr:" + label, "form": _form(parts)}
        parts = _base_parts()
        parts[1]["headers"] = [list(h) for h in hdrs]
        parts[1]["sx"] = {"cd_pos": 9}
        yield {"label": "hdr:" + label + "+cd-last", "form": _form(parts)}
    # 3. names and filenames
    for boundary in ("bnd", "b"):
        for label, nm in special_names(boundary):
            if boundary == "b" and not label.startswith("delimiter"):
                continue
            if label.startswith("long-"):  # costly: one variant in the quick tier, all three otherwise
                parts = _base_parts()
                parts[1]["filename"] = nm
                yield {"label": "filename:" + label, "form": _form(parts, boundary=boundary)}
                if quick:
                    continue
            parts = _base_parts()
            parts[0]["name"] = nm
            yield {"label": "name:" + label, "form": _form(parts, boundary=boundary)}
            parts = _base_parts()
            parts[1]["filename"] = nm
            yield {"label": "filename:" + label, "form": _form(parts, boundary=boundary)}
            if quick and not (is_token(nm) or label.startswith("delimiter")):
                continue
            parts = _base_parts()
            parts[1]["name"] = nm
            parts[1]["filename"] = nm
            parts[2]["name"] = nm
            if is_token(nm):
                for p in parts:
                    p["sx"] = {"token": True}
            yield {"label": "both:" + label, "form": _form(parts, boundary=boundary, padding=b" ")}
    # 4. request spellings: Content-Type style x length announcement x body-before-form x optional ASGI keys
    for charset in ("utf-8", "latin-1", "gbk"):
        for boundary in ("bnd", "'()+_,-./:=?", "x" * 70, " lead blank", "in  ner"):  # RFC 2046: only the LAST character must not be a blank
            for ct in CT_STYLES:
                if quick and charset != "utf-8" and boundary != "bnd" and ct not in ("upper", "charset-first"):
                    continue
                if " " in boundary and (charset != "utf-8" or ct not in ("quoted", "upper", "nospace")):
                    continue
                parts = _base_parts()
                if charset != "utf-8":
                    parts[0]["content"] = "café".encode(charset)
                    parts[2]["name"] = "né"
                yield {"label": "ct:" + ct, "form": _form(parts, boundary=boundary, charset=charset), "rq": {"ct": ct}}
    for length in ("present", "absent", "chunked"):
        for body_first in (False, True):
            for keys in ("full", "minimal"):
                for empty_form in (False, True):
                    parts = [] if empty_form else _base_parts()
                    yield {"label": f"rq:length-{length}" + ("+body-first" if body_first else "") + ("+minimal-keys" if keys == "minimal" else ""),
                           "form": _form(parts), "rq": {"length": length, "body_first": body_first, "asgi_keys": keys}}


# ------------------------------------------------------------------------------------------
# enumerated cases: alignment of chunk edges with delimiters of every boundary length / padding


_ALIGN_ALPHABETS = ["a", "abcdefghijklmnopqrstuvwxyzABCDEFGHIJKLMNOPQRSTUVWXYZ0123456789'()+_,-./:=?", "-", "a-"]
ALIGN_PADDINGS = [b"", b" ", b"     ", b" \t \t \t \t ", b"\t" * 17]


def align_boundary(blen: int, alpha: int) -> str:
    a = _ALIGN_ALPHABETS[alpha % len(_ALIGN_ALPHABETS)]
    s = "".join(a[(i * 7 + blen) % len(a)] for i in range(blen))
    return s


def align_form(spec: Dict[str, Any]) -> Dict[str, Any]:
    b = align_boundary(spec["blen"], spec["alpha"])
    delim = ("\r\n--" + b).encode("ascii")
    near = delim[:-1]  # the delimiter minus its last byte: as close as content may get
    wrong_last = b"\r\n--" + b[:-1].encode("ascii") + (b"Z" if b[-1] != "Z" else b"Y")
    if ("--" + b).encode("ascii") in wrong_last:
        wrong_last = near
    contents = {
        "near": [b"x" + near, near + b"\r", b"\r"],
        "plain": [b"abc", b"", b"\r\n"],
        "lookalike": [wrong_last + b"\r\ny", b"-" * 3 + near[2:], near + b"\r\n" + near],
    }[spec.get("content", "near")]
    needle = ("--" + b).encode("ascii")
    contents = [c if needle not in c else b"q" for c in contents]
    parts = [
        {"name": "f0", "filename": None, "headers": [], "content": contents[0]},
        {"name": "f1", "filename": "up", "headers": [["Content-Type", "application/octet-stream"]], "content": contents[1]},
        {"name": "f2", "filename": None, "headers": [], "content": contents[2]},
    ]
    pre = spec.get("preamble")
    return {"boundary": b, "charset": "utf-8", "preamble": pre, "epilogue": spec.get("epilogue"), "padding": spec.get("padding", b""), "parts": parts}


def align_cases(quick: bool) -> Iterator[Dict[str, Any]]:
    """full = all paddings x all contents, single cuts and adjacent pairs; light = two paddings, single cuts."""
    if quick:
        full, light = [1, 3, 70], [2, 5, 8, 16, 33, 61, 62, 63, 65, 67, 68, 69]
    else:
        full, light = list(range(1, 71)), []
    for blen in sorted(full + light):
        is_full = blen in full
        for alpha in ((0, 1) if quick and is_full else ((blen % 2,) if quick else (0, 1, 2, 3))):
            for pi, pad in enumerate(ALIGN_PADDINGS):
                if (not is_full or (quick and alpha == 0)) and pi not in (0, 2):
                    continue
                for content in ("near", "plain", "lookalike"):
                    if content != "near" and (not is_full or (quick and pi != 0)):
                        continue
                    yield {"blen": blen, "alpha": alpha, "padding": pad, "content": content, "pairs": is_full,
                           "preamble": b"pre" if (blen + pi) % 3 == 0 else None, "epilogue": b"" if (blen + alpha) % 2 else None}


# ------------------------------------------------------------------------------------------
# enumerated cases: big bodies


def big_form(spec: Dict[str, Any]) -> Dict[str, Any]:
    """A form built from a compact spec: parts = [[kind, size, hostile offsets...]], kind in field|file."""
    b = spec.get("boundary", "BigB0undary")
    parts = []
    for i, (kind, size, hostile) in enumerate(spec["parts"]):
        content = big_content(size, b, salt=i, text=(kind == "field"), hostile_at=hostile)
        parts.append({"name": f"p{i}", "filename": (f"f{i}.bin" if kind == "file" else None),
                      "headers": ([["Content-Type", "application/octet-stream"]] if kind == "file" else []), "content": content})
    return {"boundary": b, "charset": "utf-8", "preamble": None, "epilogue": b"", "padding": b"", "parts": parts}


MIB = 1024 * 1024
K64 = 64 * 1024


def big_cases(quick: bool) -> Iterator[Dict[str, Any]]:
    hostile_small = [0, 100, 1000, 30000]
    # a delimiter followed by far more than 64 KiB of another part's data in the same arriving chunk
    yield {"label": "delimiter-then-80k", "parts": [["field", 300, [10]], ["file", 80 * 1024, [5, K64 - 200, K64, 70000]], ["field", 50, []]],
           "chunkings": [["whole"], ["at", 75000], ["at", 40000, 120000], ["size", K64], ["size", 70001], ["size", 4096], ["size", 1000]]}
    yield {"label": "three-80k-files", "parts": [["file", 80 * 1024, hostile_small], ["file", 80 * 1024 + 7, hostile_small], ["file", 3, []]],
           "chunkings": [["whole"], ["at", 90000], ["at", 100000, 170000], ["size", K64], ["size", 100000]]}
    # a text field of 600 kB and one of 1.2 MB: no default cap on field sizes
    yield {"label": "field-600k", "parts": [["field", 600_000, [0, 299_990, 599_980]], ["field", 10, []]], "chunkings": [["whole"], ["size", K64]]}
    yield {"label": "field-1200k", "parts": [["field", 1_200_000, [7, 1_048_570]], ["file", 10, []]], "chunkings": [["size", K64]] + ([] if quick else [["whole"]])}
    # a file larger than the upload file's in-memory limit (1 MiB): rolled over to disk while it is written
    yield {"label": "file-over-1MiB", "parts": [["field", 20, []], ["file", MIB + 5000, [0, K64 - 3, MIB - 20, MIB - 2, MIB, MIB + 1, MIB + 4990]], ["field", 20, [3]]],
           "chunkings": [["size", K64], ["whole"], ["size", 4096], ["at", MIB + 100, MIB + 101]] + ([] if quick else [["size", 1000], ["at", MIB], ["size", 100_003]])}
    # a body of a few KB that arrives a byte (two, three bytes) at a time: hundreds of data fragments per part - far more
    # fragments than the default limit on the number of PARTS (324), which must count parts only
    yield {"label": "dribbled-2k", "parts": [["field", 700, [0, 350]], ["file", 1500, [0, 10, 700, 1490]], ["field", 5, []]],
           "chunkings": [["size", 1], ["size", 3], ["size", 2]] + ([] if quick else [["size", 5], ["size", 7]])}
    yield {"label": "dribbled-field-5k", "parts": [["field", 5000, [100, 2500]], ["field", 400, []]], "chunkings": [["size", 1]] + ([] if quick else [["size", 3]])}
    if not quick:
        yield {"label": "two-files-over-1MiB", "parts": [["file", MIB + 1, [MIB - 10]], ["file", 2 * MIB, [5, MIB, 2 * MIB - 12]]],
               "chunkings": [["size", K64], ["size", 300_000], ["whole"]]}


def chunk_cuts(n: int, chunking: Sequence[Any]) -> List[int]:
    kind = chunking[0]
    if kind == "whole":
        return []
    if kind == "at":
        return [min(int(c), n) for c in chunking[1:]]
    if kind == "size":
        return list(range(int(chunking[1]), n, int(chunking[1])))
    raise ValueError(kind)
