"""Owned schedules for baize.wsgi.SendEventResponse (real relay thread).

The harness owns both ends: the user's generator is gated (every step blocks on a harness
event and is told to yield, raise or finish, and records entry/exit of its try/finally); the
consumer side (next()/close() on the response iterable) runs in a harness thread under a
watchdog.  A schedule is a string over

    P  release one producer step that yields an event
    E  release one producer step that raises
    F  release one producer step that finishes
    C  consume one item (next())
    S  (ping class only) the consumer stalls for five ping intervals
    X  close the iterable (server closes the response); the close may need one further producer
       step (the symbol after X, default P) before it can return

Between steps the harness waits for quiescence by events it owns; bounded settles only choose
which interleaving is explored, never the verdict."""
from __future__ import annotations

import queue
import threading
import time
from typing import Any, Dict, List, Optional

import baize.wsgi as W
from baize.concurrency import ThreadPoolExecutor

from . import gateways as gw
from .recipes import ProducerError


def feasible(schedule: str, ping_mode: bool = False) -> bool:
    """Model of what can be scheduled: queue capacity 1 + one item held by the relay.
    ping_mode: a C with nothing available is answered by a ping (tiny ping interval)."""
    p = c = 0
    finished = False
    closed = False
    pending = False
    for i, s in enumerate(schedule):
        if pending and s not in "PEF":
            return False
        if s == "S":
            # (ping class) the consumer stalls for several ping intervals; nothing else changes
            if not ping_mode or closed:
                return False
            continue
        if s == "c":
            # next() issued while nothing is available: the consumer waits inside the response
            if closed or finished or c != p:
                return False
            pending = True
            continue
        if pending:
            pending = False
            if s == "P":
                p += 1
                c += 1
            else:
                finished = True
            continue
        if closed:
            # exactly one producer step may follow X, and only if the producer is still alive
            return i == len(schedule) - 1 and s in "PEF" and not finished and p - c <= 1
        if s == "P":
            if finished or p - c > 1:
                return False
            p += 1
        elif s in "EF":
            if finished or p - c > 1:
                return False
            finished = True
        elif s == "C":
            if c < p:
                c += 1
            elif finished and c == p:
                # consuming the end of the stream: must be the last consumer action
                if any(x == "C" for x in schedule[i + 1:]):
                    return False
            elif not ping_mode:
                return False
        elif s == "X":
            closed = True
        else:
            return False
    return not pending


def enumerate_schedules(maxlen: int, ping_mode: bool = False):
    import itertools

    for n in range(1, maxlen + 1):
        for tup in itertools.product("PCXEFc", repeat=n):
            s = "".join(tup)
            if s.count("X") > 1:
                continue
            if feasible(s, ping_mode):
                yield s


class Outcome:
    def __init__(self) -> None:
        self.delivered: List[bytes] = []
        self.yielded: List[Dict[str, Any]] = []
        self.entered = 0
        self.finalized = 0
        self.close_returned = False
        self.close_exc: Optional[BaseException] = None
        self.next_exc: Optional[BaseException] = None
        self.stopped = False  # StopIteration seen by the consumer
        self.hang: Optional[str] = None  # description of the operation that did not return
        self.futures: List[Any] = []
        self.undone_futures = 0
        self.notes: List[str] = []
        self.start_calls = 0
        self.pings = 0


class Runner:
    def __init__(self, ping_interval: float = 30.0, watchdog: float = 5.0, cleanup_sleep: float = 0.0) -> None:
        self.ping_interval = ping_interval
        self.watchdog = watchdog
        self.cleanup_sleep = cleanup_sleep  # the user's cleanup code takes this long (and releases the GIL)
        self.out = Outcome()
        self.cv = threading.Condition()
        self.released: Dict[int, str] = {}  # gate index -> action
        self.waiting_at: Optional[int] = None
        self.reached = -1  # highest gate index the producer has arrived at
        self.producer_done = False
        self.cmds: "queue.Queue[Any]" = queue.Queue()
        self.results: "queue.Queue[Any]" = queue.Queue()

    # ---- producer (runs in the relay thread) ------------------------------------------
    def producer(self):
        out = self.out
        out.entered += 1
        try:
            k = 0
            while True:
                with self.cv:
                    self.waiting_at = k
                    self.reached = k
                    self.cv.notify_all()
                    while k not in self.released:
                        self.cv.wait(0.5)
                    self.waiting_at = None
                    act = self.released[k]
                if act == "Y":
                    ev = {"data": f"event-{k}", "id": str(k)}
                    out.yielded.append(ev)
                    yield dict(ev)
                elif act == "E":
                    raise ProducerError(f"producer raised at step {k}")
                else:
                    return
                k += 1
        finally:
            if self.cleanup_sleep:
                time.sleep(self.cleanup_sleep)
            out.finalized += 1
            with self.cv:
                self.producer_done = True
                self.waiting_at = None
                self.cv.notify_all()

    def release(self, action: str) -> int:
        with self.cv:
            k = len(self.released)
            self.released[k] = action
            self.cv.notify_all()
            return k

    def wait_gate(self, k: int, timeout: float) -> bool:
        """Wait until the producer has arrived at gate k (or has finished)."""
        end = time.monotonic() + timeout
        with self.cv:
            while self.reached < k and not self.producer_done:
                left = end - time.monotonic()
                if left <= 0:
                    return False
                self.cv.wait(left)
        return True

    # ---- consumer thread ----------------------------------------------------------------
    def consumer(self, pool: Any) -> None:
        out = self.out
        cls = type("SSE", (W.SendEventResponse,), {"thread_pool": pool})
        resp = cls(self.producer(), ping_interval=self.ping_interval)

        def start_response(status, headers, exc_info=None):
            out.start_calls += 1

        it = iter(resp(gw.make_environ(gw.areq()), start_response))
        while True:
            cmd = self.cmds.get()
            if cmd == "next":
                try:
                    item = next(it)
                    self.results.put(("item", item))
                except StopIteration:
                    out.stopped = True
                    self.results.put(("stop", None))
                except BaseException as exc:  # noqa: BLE001
                    out.next_exc = exc
                    self.results.put(("exc", exc))
            elif cmd == "close":
                try:
                    it.close()
                    out.close_returned = True
                    self.results.put(("closed", None))
                except BaseException as exc:  # noqa: BLE001
                    out.close_exc = exc
                    out.close_returned = True
                    self.results.put(("exc", exc))
            else:
                return

    def ask(self, cmd: str, timeout: float) -> Any:
        self.cmds.put(cmd)
        try:
            return self.results.get(timeout=timeout)
        except queue.Empty:
            return ("hang", None)


def run_schedule(schedule: str, ping_interval: float = 30.0, watchdog: float = 5.0, cleanup_sleep: float = 0.0) -> Outcome:
    r = Runner(ping_interval, watchdog, cleanup_sleep)
    out = r.out
    futures: List[Any] = []

    class Pool(ThreadPoolExecutor):
        def submit(self, *a, **kw):  # type: ignore[no-untyped-def]
            f = super().submit(*a, **kw)
            futures.append(f)
            return f

    pool = Pool(max_workers=2, thread_name_prefix="verif_sse_")
    t = threading.Thread(target=r.consumer, args=(pool,), daemon=True, name="verif-consumer")
    t.start()
    p = c = 0
    finished = False
    started = False
    pending = False
    i = 0
    try:
        while i < len(schedule):
            s = schedule[i]
            if s == "S":
                time.sleep(max(0.05, 5 * ping_interval))
            elif s == "c":
                started = True
                pending = True
                r.cmds.put("next")
                r.wait_gate(len(r.released), watchdog)  # the producer is now waiting at its gate
                time.sleep(0.005)  # and the consumer inside q.get()
            elif s in "PEF" and pending:
                pending = False
                k = r.release("Y" if s == "P" else s)
                if s == "P":
                    p += 1
                else:
                    finished = True
                try:
                    kind, val = r.results.get(timeout=watchdog)
                except queue.Empty:
                    out.hang = f"next() issued before producer step {k} ({s}) did not return within {watchdog}s after that step"
                    break
                if kind == "item":
                    if val == b": ping\n\n":
                        out.pings += 1
                    else:
                        out.delivered.append(val)
                        c += 1
                        if not finished:
                            r.wait_gate(len(r.released), watchdog)
            elif s in "PEF":
                if not started:
                    # nothing runs before the first next(): releasing early just pre-authorises the step
                    pass
                k = r.release("Y" if s == "P" else s)
                if s == "P":
                    p += 1
                else:
                    finished = True
                if started:
                    if s == "P" and p - c <= 1:
                        if not r.wait_gate(k + 1, watchdog):
                            out.notes.append(f"settle: producer did not reach gate {k + 1} after step {i}")
                    elif s == "P":
                        time.sleep(0.01)  # relay is blocked in put(); let it get there
                    else:
                        r.wait_gate(k + 1, watchdog)
            elif s == "C":
                started = True
                kind, val = r.ask("next", watchdog)
                if kind == "hang":
                    out.hang = f"next() #{c + 1} did not return within {watchdog}s"
                    break
                if kind == "item":
                    if val == b": ping\n\n":
                        out.pings += 1  # (ping class) this C was answered by a keep-alive comment
                    else:
                        out.delivered.append(val)
                        c += 1
                        # if the relay was blocked in put() it now proceeds to the next gate
                        if not finished:
                            r.wait_gate(len(r.released), watchdog)
                elif kind == "stop":
                    pass
                elif kind == "exc":
                    pass
            elif s == "X":
                if not started:
                    # close before the first next(): a generator that never ran
                    kind, val = r.ask("close", watchdog)
                    if kind == "hang":
                        out.hang = f"close() before the first next() did not return within {watchdog}s"
                    break
                r.cmds.put("close")
                # the close may need exactly one further producer step
                time.sleep(0.02)
                nxt = schedule[i + 1] if i + 1 < len(schedule) else None
                if not finished and p - c <= 1:
                    act = nxt if nxt in ("P", "E", "F") else "P"
                    r.release("Y" if act == "P" else act)
                    if act != "P":
                        finished = True
                try:
                    kind, val = r.results.get(timeout=watchdog)
                except queue.Empty:
                    out.hang = f"close() did not return within {watchdog}s although the producer was released for one more step"
                break
            i += 1
        else:
            pass
        if out.hang is None and not out.close_returned and "X" not in schedule:
            # a server always closes the iterable in the end
            r.cmds.put("close")
            time.sleep(0.01)
            if started and not finished and p - c <= 1:
                r.release("F")  # the producer's next step: it finishes
                finished = True
            try:
                r.results.get(timeout=watchdog)
            except queue.Empty:
                out.hang = f"final close() did not return within {watchdog}s"
    finally:
        # open every gate so that nothing of ours keeps a thread blocked
        with r.cv:
            for k in range(len(r.released), len(r.released) + 64):
                r.released[k] = "F"
            r.cv.notify_all()
        r.cmds.put("quit")
    # let scheduled cleanup finish
    deadline = time.monotonic() + (1.0 if out.hang is None else 0.2)
    while time.monotonic() < deadline and any(not f.done() for f in futures):
        time.sleep(0.005)
    out.futures = futures
    out.undone_futures = sum(1 for f in futures if not f.done())
    pool.shutdown(wait=False)
    return out
