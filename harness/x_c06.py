"""C06 helper: a virtual-time event loop that owns real worker threads.

An async producer may call blocking code through ``baize.concurrency.run_in_threadpool``.  The
worker thread is real, the event loop's clock is virtual: left alone, the loop would jump its
clock to the next timer while a worker that is *about to finish* has not yet delivered its result
(``call_soon_threadsafe``), so the interleaving would depend on thread timing.  Here the harness
owns both ends of every blocking call:

* the blocking function is ``Gate.block`` - it waits for an event that only the harness sets;
* the loop's ``run_in_executor`` does not return before the worker thread is inside the function
  (so "a worker is blocked" is a fact, not a race);
* a gate is opened from a loop callback (a virtual instant) by ``ThreadLoop.release`` which does
  not return before the worker's completion has been queued on the loop - the completion is the
  next thing the loop runs, before any clock jump;
* a gate that the scenario never opens stays closed for the whole case: as far as the loop can see
  that worker blocks for ever.  It is opened (and every worker joined) by ``run_threads`` after the
  main coroutine - which takes the verdict - has finished, so no thread outlives the case.

Real time enters only as a budget on those hand-offs (normally some 50 microseconds); an exhausted
budget marks the run ``inconclusive`` - it is never a verdict.  When the loop has nothing ready and
no timer while the main coroutine is unfinished, every remaining worker is blocked on a closed gate:
a detected hang (vtime.Hang), exactly as on the plain virtual loop."""
from __future__ import annotations

import asyncio
import threading
from concurrent.futures import ThreadPoolExecutor
from typing import Any, Awaitable, Callable, List, Optional

from harness import vtime

BUDGET = 10.0  # real seconds allowed for one thread hand-off before the run is declared inconclusive
CAP = 60.0  # no harness-controlled blocking call blocks longer than this, whatever happens to the case


class Gate:
    """One blocking call of the producer: `block` is the blocking function handed to run_in_threadpool."""

    def __init__(self, loop: "ThreadLoop", value: Any = None, exc: Optional[BaseException] = None) -> None:
        self.loop = loop
        self.value = value
        self.exc = exc
        self.ev = threading.Event()
        self.entered = threading.Event()
        self.via_loop = False  # the call reached the worker through loop.run_in_executor
        self.begin: Optional[float] = loop.time()
        self.released_at: Optional[float] = None  # virtual instant at which the scenario opened the gate (None: never)
        self.on_loop_thread = False
        loop.gates.append(self)

    def block(self) -> Any:
        if threading.get_ident() == self.loop.thread_ident:
            # run on the event-loop thread: blocking here would stop the harness itself
            self.on_loop_thread = True
        else:
            self.entered.set()
            self.ev.wait(CAP)
        if self.exc is not None:
            raise self.exc
        return self.value


class ThreadLoop(vtime.VirtualTimeLoop):
    def __init__(self) -> None:
        super().__init__()
        self.gates: List[Gate] = []
        self.announced: Optional[Gate] = None
        self.thread_ident = threading.get_ident()
        self.inconclusive: Optional[str] = None
        self._ts_cond = threading.Condition()
        self._ts_count = 0

    def call_soon_threadsafe(self, callback, *args, context=None):  # type: ignore[no-untyped-def]
        handle = super().call_soon_threadsafe(callback, *args, context=context)
        if threading.get_ident() != self.thread_ident:
            with self._ts_cond:
                self._ts_count += 1
                self._ts_cond.notify_all()
        return handle

    def announce(self, gate: Gate) -> None:
        """The next run_in_executor call is the one that will run gate.block."""
        self.announced = gate

    def run_in_executor(self, executor, func, *args):  # type: ignore[no-untyped-def]
        # not counted as an "outstanding job" of the plain virtual loop: the harness decides when a worker finishes
        gate, self.announced = self.announced, None
        fut = asyncio.SelectorEventLoop.run_in_executor(self, executor, func, *args)
        if gate is not None:
            gate.via_loop = True
            if not gate.entered.wait(BUDGET) and not gate.on_loop_thread:
                self.inconclusive = "the worker thread did not enter the blocking function within the hand-off budget"
        return fut

    def release(self, gate: Gate) -> None:
        """Open the gate (loop thread, at a virtual instant) and wait until the worker's completion is queued."""
        if gate.ev.is_set():
            return
        gate.released_at = self.time()
        with self._ts_cond:
            n0 = self._ts_count
        gate.ev.set()
        if gate.via_loop and gate.entered.is_set():
            with self._ts_cond:
                if not self._ts_cond.wait_for(lambda: self._ts_count > n0, BUDGET):
                    self.inconclusive = "the worker's completion did not reach the loop within the hand-off budget"


def run_threads(make_coro: Callable[[], Awaitable[Any]], workers: int = 8) -> Any:
    """Like vtime.run_virtual, on a ThreadLoop whose default executor is a pool owned by this call.  Returns
    (result, loop); raises vtime.Hang.  Every gate is opened and every worker joined before this returns."""
    loop = ThreadLoop()
    loop.max_steps = 200_000
    pool = ThreadPoolExecutor(max_workers=workers, thread_name_prefix="verif_c06_rt")
    loop.set_default_executor(pool)
    asyncio.set_event_loop(loop)
    hang_at = None
    try:
        task = loop.create_task(make_coro())
        task.add_done_callback(lambda _t: loop.stop())
        loop.run_forever()
        if not task.done():
            hang_at = loop.time()
            if loop.runaway:
                raise vtime.Hang(f"the call was still running after {loop.max_steps} event-loop iterations (virtual time {hang_at:.3f}) while a worker thread stays blocked: it never ends")
            raise vtime.Hang(f"event loop ran dry at virtual time {hang_at:.3f} with the call unfinished (every worker thread still blocked)")
        return task.result(), loop
    finally:
        for g in loop.gates:
            g.ev.set()
        pool.shutdown(wait=True)  # all gates are open: the workers return at once (and never later than CAP)
        pending = [t for t in asyncio.all_tasks(loop) if not t.done()]
        vtime._drain(loop, pending)
        try:
            loop.hung = False
            loop.run_until_complete(loop.shutdown_asyncgens())
        except Exception:  # noqa: BLE001
            pass
        loop.close()
        asyncio.set_event_loop(None)
