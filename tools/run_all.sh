#!/bin/sh
# Runs every check of the manifest in the given tier (default quick) and prints one line per check.
tier=${1:-quick}
cd "$(dirname "$0")/.."
for id in C01 C02 C03 C04 C05 C06 C07 C08 C09 C10 C11 C12 C13 C14 C15 C16 C17 C18 C19 C20; do
  start=$(date +%s)
  /venv/bin/python vrun.py $id --tier $tier > /tmp/run_all_$id.log 2>&1
  code=$?
  end=$(date +%s)
  echo "$id tier=$tier exit=$code secs=$((end-start)) $(grep -c '^VIOLATION' /tmp/run_all_$id.log) violations"
  grep -A2 '^VIOLATION\|^HARNESS' /tmp/run_all_$id.log | cut -c1-400 | head -12
done
