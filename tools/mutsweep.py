#!/venv/bin/python
"""Systematic first-order mutation sweep over baize (complements the hand-made / agent-made mutants and the seeded changes).

    /venv/bin/python tools/mutsweep.py gen                      -> tools/mutsweep/mutants.jsonl  (all candidate mutants)
    /venv/bin/python tools/mutsweep.py run [--jobs 12] [--limit N] [--files a.py,b.py] [--resume]
                                                                -> tools/mutsweep/results.jsonl
    /venv/bin/python tools/mutsweep.py report                   -> summary + survivors per file

A mutant is one AST-level edit of one file under /repo/baize: comparison operator swapped, `and`/`or` swapped, `not` dropped,
integer constant +-1, True/False flipped, arithmetic operator swapped, `if` condition forced, a statement deleted, a
`return x` turned into `return None`, a `.get(k, d)` default dropped, an `except` clause narrowed to never match.  Each is
applied to a scratch copy (under /tmp, removed afterwards); the pinned suite must still give 77 passed (otherwise the mutant
is 'killed-by-tests' and of no interest here); then the quick tier of every property anchored in that file is run against
the copy (VERIF_REPO / VERIF_OUT) until one reports a VIOLATION.  Survivors are candidates for missing coverage - or
equivalent mutants; they are triaged by hand (see DESIGN.md)."""
from __future__ import annotations

import argparse
import ast
import copy
import json
import os
import shutil
import subprocess
import sys
import tempfile
from concurrent.futures import ThreadPoolExecutor
from typing import Any, Dict, Iterator, List, Optional, Tuple

VERIF = os.path.dirname(os.path.dirname(os.path.abspath(__file__)))
OUTDIR = os.path.join(VERIF, "tools", "mutsweep")
REPO = "/repo"

SKIP_FILES = {"baize/__version__.py", "baize/typing.py", "baize/asgi/__init__.py", "baize/wsgi/__init__.py", "baize/__init__.py"}
SKIP_FUNCS = {"__repr__", "__str__debug"}

CMP = {ast.Lt: ast.LtE, ast.LtE: ast.Lt, ast.Gt: ast.GtE, ast.GtE: ast.Gt, ast.Eq: ast.NotEq, ast.NotEq: ast.Eq, ast.In: ast.NotIn, ast.NotIn: ast.In,
       ast.Is: ast.IsNot, ast.IsNot: ast.Is}
ARITH = {ast.Add: ast.Sub, ast.Sub: ast.Add, ast.Mult: ast.FloorDiv, ast.FloorDiv: ast.Mult, ast.Mod: ast.Mult}


def file_props() -> Dict[str, List[str]]:
    m: Dict[str, List[str]] = {}
    for line in open(os.path.join(VERIF, "properties.jsonl"), encoding="utf-8"):
        p = json.loads(line)
        for f in p["anchors"].get("files", []):
            m.setdefault(f, []).append(p["id"])
    # files no property anchors explicitly but several depend on
    m.setdefault("baize/asgi/helper.py", ["C05", "C04"])
    m.setdefault("baize/concurrency.py", ["C06", "C19"])
    m.setdefault("baize/asgi/middleware.py", ["C20"])
    m.setdefault("baize/wsgi/middleware.py", ["C20"])
    return m


def _walk(tree: ast.AST) -> Iterator[Tuple[ast.AST, Optional[ast.AST], str, Optional[int], Tuple[str, ...]]]:
    """Deterministic pre-order walk that skips annotations, decorators and docstrings.
    Yields (node, parent, field name, index in the field's list or None, enclosing class/function names)."""

    def rec(node: ast.AST, scope: Tuple[str, ...]) -> Iterator[Any]:
        for field, value in ast.iter_fields(node):
            if field in ("annotation", "returns", "decorator_list", "type_comment", "type_params"):
                continue
            if isinstance(node, ast.AnnAssign) and field != "value":
                continue
            if isinstance(node, ast.arguments) and field not in ("defaults", "kw_defaults"):
                continue
            items = value if isinstance(value, list) else [value]
            for k, child in enumerate(items):
                if not isinstance(child, ast.AST):
                    continue
                idx = k if isinstance(value, list) else None
                sc = scope + ((child.name,) if isinstance(child, (ast.FunctionDef, ast.AsyncFunctionDef, ast.ClassDef)) else ())
                yield child, node, field, idx, sc
                yield from rec(child, sc)

    yield from rec(tree, ())


def _ops_for(node: ast.AST, parent: Optional[ast.AST], scope: Tuple[str, ...]) -> List[str]:
    if any(f in SKIP_FUNCS for f in scope):
        return []
    in_func = any(True for _ in scope)  # module-level statements are set-up code: constants / tables only
    if isinstance(node, ast.Compare) and len(node.ops) == 1 and type(node.ops[0]) in CMP:
        return ["cmp"]
    if isinstance(node, ast.BoolOp):
        return ["boolop"]
    if isinstance(node, ast.UnaryOp) and isinstance(node.op, ast.Not):
        return ["not-dropped"]
    if isinstance(node, ast.Constant) and isinstance(node.value, bool):
        return ["bool-flip"]
    if isinstance(node, ast.Constant) and isinstance(node.value, int) and not isinstance(node.value, bool):
        return ["int+1", "int-1"]
    if isinstance(node, ast.BinOp) and type(node.op) in ARITH and not (isinstance(node.op, (ast.Mod, ast.Add)) and _stringy(node)):
        return ["arith"]
    if isinstance(node, (ast.If, ast.While)) and not _is_type_checking(node):
        return ["cond-true", "cond-false"]
    if isinstance(node, ast.IfExp):
        return ["ifexp-swap"]
    if isinstance(node, ast.Return) and node.value is not None and not (isinstance(node.value, ast.Constant) and node.value.value is None):
        return ["return-none"]
    if isinstance(node, (ast.Expr, ast.Assign, ast.AugAssign, ast.Raise, ast.Break, ast.Continue)) and in_func and not _is_docstring(node) and isinstance(parent, ast.AST):
        return ["stmt-deleted"]
    if isinstance(node, ast.ExceptHandler) and node.type is not None:
        return ["except-never"]
    if isinstance(node, ast.Call) and isinstance(node.func, ast.Attribute) and node.func.attr == "get" and len(node.args) == 2:
        return ["get-default-dropped"]
    return []


def _stringy(node: ast.BinOp) -> bool:
    return any(isinstance(x, ast.JoinedStr) or (isinstance(x, ast.Constant) and isinstance(x.value, (str, bytes))) for x in (node.left, node.right))


def _is_docstring(node: ast.AST) -> bool:
    return isinstance(node, ast.Expr) and isinstance(node.value, ast.Constant) and isinstance(node.value.value, str)


def _is_type_checking(node: ast.AST) -> bool:
    t = getattr(node, "test", None)
    return (isinstance(t, ast.Name) and t.id == "TYPE_CHECKING") or (isinstance(t, ast.Attribute) and t.attr == "TYPE_CHECKING")


def _replace(parent: ast.AST, field: str, idx: Optional[int], new: ast.AST) -> None:
    if idx is None:
        setattr(parent, field, new)
    else:
        getattr(parent, field)[idx] = new


def _mutate(node: ast.AST, parent: ast.AST, field: str, idx: Optional[int], op: str) -> None:
    if op == "cmp":
        node.ops = [CMP[type(node.ops[0])]()]
    elif op == "boolop":
        node.op = ast.Or() if isinstance(node.op, ast.And) else ast.And()
    elif op == "not-dropped":
        _replace(parent, field, idx, node.operand)
    elif op == "bool-flip":
        node.value = not node.value
    elif op == "int+1":
        node.value = node.value + 1
    elif op == "int-1":
        node.value = node.value - 1
    elif op == "arith":
        node.op = ARITH[type(node.op)]()
    elif op == "cond-true":
        node.test = ast.Constant(True)
    elif op == "cond-false":
        node.test = ast.Constant(False)
    elif op == "ifexp-swap":
        node.body, node.orelse = node.orelse, node.body
    elif op == "return-none":
        node.value = ast.Constant(None)
    elif op == "stmt-deleted":
        _replace(parent, field, idx, ast.Pass())
    elif op == "except-never":
        node.type = ast.Tuple(elts=[], ctx=ast.Load())
    elif op == "get-default-dropped":
        node.args = node.args[:1]
    else:
        raise ValueError(op)


def candidates(path: str) -> List[Dict[str, Any]]:
    src = open(os.path.join(REPO, path), encoding="utf-8").read()
    out = []
    for k, (node, parent, _field, _idx, scope) in enumerate(_walk(ast.parse(src))):
        for op in _ops_for(node, parent, scope):
            out.append({"file": path, "node": k, "op": op, "line": getattr(node, "lineno", 0), "scope": ".".join(scope)})
    return out


def mutate_source(path: str, node_index: int, op: str) -> Tuple[Optional[str], str, str]:
    src = open(os.path.join(REPO, path), encoding="utf-8").read()
    tree = ast.parse(src)
    for k, (node, parent, field, idx, _scope) in enumerate(_walk(tree)):
        if k == node_index:
            before = ast.unparse(node)[:200]
            line_holder = parent if op in ("not-dropped", "stmt-deleted") else node
            _mutate(node, parent, field, idx, op)
            ast.fix_missing_locations(tree)
            after = "<deleted>" if op == "stmt-deleted" else ast.unparse(line_holder)[:200]
            return ast.unparse(tree), before, after
    return None, "", ""


# which checks judge which code (most specific first; at most three or four runs for a survivor)
SCOPE_PROPS = {
    "baize/datastructures.py": [("URL", ["C18", "C12", "C07"]), ("Cookie", ["C16", "C13", "C05"]), ("_cookie", ["C16", "C13"]), ("MutableMultiMapping", ["C17"]), ("MultiMapping", ["C17"]),
                                ("QueryParams", ["C17", "C04"]), ("FormData", ["C17", "C10"]), ("MutableHeaders", ["C13", "C20", "C05"]), ("Headers", ["C13", "C20", "C04"]),
                                ("UploadFile", ["C01", "C15", "C04"]), ("MediaType", ["C12", "C04"]), ("ContentType", ["C12", "C04"]), ("Address", ["C04", "C18"])],
    "baize/asgi/responses.py": [("FileResponse", ["C02", "C05", "C04"]), ("SendEventResponse", ["C19", "C06", "C05"]), ("StreamingResponse", ["C06", "C05", "C20"]),
                                ("StreamResponse", ["C06", "C05", "C04"]), ("RedirectResponse", ["C13", "C05", "C04"]), ("JSONResponse", ["C04", "C05"])],
    "baize/wsgi/responses.py": [("FileResponse", ["C02", "C05", "C04"]), ("SendEventResponse", ["C19", "C06", "C05"]), ("StreamingResponse", ["C06", "C05", "C20"]),
                                ("StreamResponse", ["C06", "C05", "C04"]), ("RedirectResponse", ["C13", "C05", "C04"]), ("JSONResponse", ["C04", "C05"])],
    "baize/responses.py": [("parse_range", ["C03", "C02"]), ("judge_if_range", ["C02", "C04"]), ("generate_", ["C02", "C14", "C05"]), ("FileResponseMixin", ["C02", "C05", "C04"]),
                           ("set_cookie", ["C16", "C13"]), ("delete_cookie", ["C16", "C13"]), ("list_headers", ["C05", "C13", "C20"]), ("build_bytes_from_sse", ["C19", "C06"]),
                           ("_split_sse_lines", ["C19"]), ("iri_to_uri", ["C13", "C05"]), ("BaseResponse", ["C05", "C04", "C13"])],
}
FILE_PROPS = {
    "baize/multipart.py": ["C01", "C15", "C12"], "baize/multipart_helper.py": ["C15", "C01", "C12"], "baize/routing.py": ["C08", "C09", "C12"],
    "baize/asgi/requests.py": ["C10", "C04", "C12"], "baize/wsgi/requests.py": ["C10", "C04", "C12"], "baize/asgi/responses.py": ["C05", "C02", "C06", "C19"],
    "baize/wsgi/responses.py": ["C05", "C02", "C06", "C19"], "baize/staticfiles.py": ["C07", "C14", "C12"], "baize/asgi/staticfiles.py": ["C07", "C14", "C04"],
    "baize/wsgi/staticfiles.py": ["C07", "C14", "C04"], "baize/utils.py": ["C12", "C10", "C04"], "baize/requests.py": ["C12", "C16", "C04"],
    "baize/asgi/routing.py": ["C09", "C08", "C04"], "baize/wsgi/routing.py": ["C09", "C08", "C04"], "baize/exceptions.py": ["C12", "C03", "C15"],
    "baize/asgi/shortcut.py": ["C11", "C20", "C04"], "baize/wsgi/shortcut.py": ["C20", "C04"], "baize/asgi/websocket.py": ["C11"],
    "baize/asgi/middleware.py": ["C20"], "baize/wsgi/middleware.py": ["C20"], "baize/asgi/helper.py": ["C05", "C04"], "baize/concurrency.py": ["C06", "C19"],
    "baize/datastructures.py": ["C04", "C12", "C20"], "baize/responses.py": ["C05", "C04", "C02"],
}


def props_for(path: str, scope: str) -> List[str]:
    for prefix, props in SCOPE_PROPS.get(path, []):
        if any(part.startswith(prefix) for part in scope.split(".")):
            return props
    return FILE_PROPS[path]


def cmd_gen(_a: argparse.Namespace) -> None:
    os.makedirs(OUTDIR, exist_ok=True)
    props = file_props()
    n = 0
    with open(os.path.join(OUTDIR, "mutants.jsonl"), "w", encoding="utf-8") as fh:
        for root, _d, files in os.walk(os.path.join(REPO, "baize")):
            for f in sorted(files):
                rel = os.path.relpath(os.path.join(root, f), REPO)
                if not f.endswith(".py") or rel in SKIP_FILES or rel not in FILE_PROPS:
                    continue
                for c in candidates(rel):
                    c["id"] = f"{rel}:{c['line']}:{c['op']}:{c['node']}"
                    c["props"] = props_for(rel, c["scope"])
                    fh.write(json.dumps(c) + "\n")
                    n += 1
    print(n, "mutants")


def sh(cmd: List[str], **kw: Any) -> subprocess.CompletedProcess:
    return subprocess.run(cmd, capture_output=True, text=True, **kw)


def run_one(m: Dict[str, Any], subs: Optional[str]) -> Dict[str, Any]:
    res = dict(m)
    new_src, before, after = mutate_source(m["file"], m["node"], m["op"])
    res["before"], res["after"] = before, after
    if new_src is None:
        res["verdict"] = "not-applied"
        return res
    if before == after:
        res["verdict"] = "trivially-equal"
        return res
    work = tempfile.mkdtemp(prefix="baize_msw_")
    try:
        shutil.copytree(os.path.join(REPO, "baize"), os.path.join(work, "baize"))
        shutil.copytree(os.path.join(REPO, "tests"), os.path.join(work, "tests"))
        shutil.copy(os.path.join(REPO, "pyproject.toml"), work)
        open(os.path.join(work, m["file"]), "w", encoding="utf-8").write(new_src)
        env = dict(os.environ, PYTHONPATH=work, PYTHONDONTWRITEBYTECODE="1")
        c = sh(["/venv/bin/python", "-c", "import baize.wsgi, baize.asgi"], cwd=work, env=env)
        if c.returncode != 0:
            res["verdict"] = "does-not-import"
            return res
        try:
            t = sh(["/venv/bin/python", "-m", "pytest", "-q", "-p", "no:cacheprovider", "--timeout=120", "tests"], cwd=work, env=env, timeout=900)
            tail = (t.stdout.strip().splitlines() or [""])[-1]
        except subprocess.TimeoutExpired:
            tail = "timeout"
        if "77 passed" not in tail:
            res["verdict"] = "killed-by-tests"
            res["tests"] = tail[:80]
            return res
        for pid in m["props"]:
            e = dict(os.environ, VERIF_REPO=work, VERIF_OUT=os.path.join(work, "out"), VERIF_SEED="1")
            cmd = ["/venv/bin/python", os.path.join(VERIF, "vrun.py"), pid, "--tier", "quick"]
            try:
                p = sh(cmd, env=e, timeout=420)
            except subprocess.TimeoutExpired:
                res.setdefault("notes", []).append(f"{pid}: timeout")
                continue
            if p.returncode == 1 and "VIOLATION" in p.stdout:
                lines = p.stdout.splitlines()
                k = next(i for i, ln in enumerate(lines) if ln.startswith("VIOLATION"))
                res["verdict"] = "killed"
                res["by"] = pid
                res["detail"] = " | ".join(lines[k + 1:k + 3])[:240]
                return res
            if p.returncode not in (0, 1):
                res.setdefault("notes", []).append(f"{pid}: exit {p.returncode} {(p.stdout + p.stderr)[-160:]}")
        res["verdict"] = "survived"
        return res
    finally:
        shutil.rmtree(work, ignore_errors=True)


def cmd_run(a: argparse.Namespace) -> None:
    ms = [json.loads(l) for l in open(os.path.join(OUTDIR, "mutants.jsonl"), encoding="utf-8")]
    if a.files:
        keep = set(a.files.split(","))
        ms = [m for m in ms if m["file"] in keep or os.path.basename(m["file"]) in keep]
    done = set()
    out_path = os.path.join(OUTDIR, "results.jsonl")
    if a.resume and os.path.exists(out_path):
        done = {json.loads(l)["id"] for l in open(out_path, encoding="utf-8")}
    ms = [m for m in ms if m["id"] not in done]
    if a.stride and a.stride > 1:
        ms = ms[a.offset::a.stride]
    if a.limit:
        ms = ms[: a.limit]
    print(len(ms), "mutants to run", flush=True)
    from concurrent.futures import as_completed

    with open(out_path, "a" if a.resume else "w", encoding="utf-8") as fh, ThreadPoolExecutor(a.jobs) as ex:
        futs = [ex.submit(run_one, m, None) for m in ms]
        for k, f in enumerate(as_completed(futs)):
            r = f.result()
            fh.write(json.dumps(r) + "\n")
            fh.flush()
            if k % 25 == 0:
                print(k, r["id"], r["verdict"], flush=True)


def cmd_recheck(a: argparse.Namespace) -> None:
    """Survivors of the named files are judged again by further properties (differential checks such as C04 see one-sided
    edits that the owning property's check has no reason to notice)."""
    path = os.path.join(OUTDIR, "results.jsonl")
    rs = [json.loads(l) for l in open(path, encoding="utf-8")]
    keep = set(a.files.split(",")) if a.files else None
    extra = a.props.split(",")
    todo = [r for r in rs if r["verdict"] == "survived" and (keep is None or r["file"] in keep or os.path.basename(r["file"]) in keep)]
    print(len(todo), "survivors to re-judge with", extra, flush=True)

    def again(r: Dict[str, Any]) -> Dict[str, Any]:
        m = {k: r[k] for k in ("file", "node", "op", "line", "scope", "id")}
        m["props"] = [p for p in extra if p not in r["props"]]
        out = run_one(m, None)
        out["props"] = r["props"] + m["props"]
        return out

    with ThreadPoolExecutor(a.jobs) as ex:
        new = {r["id"]: r for r in ex.map(again, todo)}
    with open(path, "w", encoding="utf-8") as fh:
        for r in rs:
            fh.write(json.dumps(new.get(r["id"], r)) + "\n")
    print(sum(1 for r in new.values() if r["verdict"] == "killed"), "of them killed now")


def cmd_report(_a: argparse.Namespace) -> None:
    rs = [json.loads(l) for l in open(os.path.join(OUTDIR, "results.jsonl"), encoding="utf-8")]
    from collections import Counter

    c = Counter(r["verdict"] for r in rs)
    print(dict(c))
    relevant = [r for r in rs if r["verdict"] in ("killed", "survived")]
    print("mutation score over mutants the pinned suite does not kill: %d / %d" % (sum(r["verdict"] == "killed" for r in relevant), len(relevant)))
    for r in rs:
        if r["verdict"] == "survived":
            print(f"SURVIVED {r['id']}  {r['before']!r} -> {r['after']!r}  {r.get('notes', '')}")


def main() -> None:
    ap = argparse.ArgumentParser()
    sp = ap.add_subparsers(dest="cmd", required=True)
    sp.add_parser("gen")
    r = sp.add_parser("run")
    r.add_argument("--jobs", type=int, default=12)
    r.add_argument("--limit", type=int, default=0)
    r.add_argument("--files", default="")
    r.add_argument("--resume", action="store_true")
    r.add_argument("--stride", type=int, default=1)
    r.add_argument("--offset", type=int, default=0)
    sp.add_parser("report")
    c = sp.add_parser("recheck")
    c.add_argument("--props", required=True)
    c.add_argument("--files", default="")
    c.add_argument("--jobs", type=int, default=12)
    a = ap.parse_args()
    {"gen": cmd_gen, "run": cmd_run, "report": cmd_report, "recheck": cmd_recheck}[a.cmd](a)


if __name__ == "__main__":
    main()
