#!/usr/bin/env python3
"""Port stored seeded changes whose patch no longer applies to /repo's HEAD (a later `fix:` commit moved their context).

    python3 tools/seed_port.py [key ...]      (default: every seed that `git apply --check` refuses)

For each stale seed a scratch worktree of /repo's HEAD is made at the author's original path (/tmp/seed/<property>, the
demonstrations assert that baize is imported from there), the patch is applied with reduced context (`git apply -C1`,
then `patch --fuzz=3`), the demonstration must exit 0 without and 1 with the change, the pinned suite must still give
77 passed, and patch.diff is rewritten from `git diff`.  meta.json records the port.  The worktree is removed again."""
import json
import os
import subprocess
import sys

VERIF = os.path.dirname(os.path.dirname(os.path.abspath(__file__)))


def sh(cmd, **kw):
    return subprocess.run(cmd, capture_output=True, text=True, **kw)


def stale(key):
    p = os.path.join(VERIF, "seeded", key, "patch.diff")
    return sh(["git", "-C", "/repo", "apply", "--check", p]).returncode != 0


def port(key):
    d = os.path.join(VERIF, "seeded", key)
    pid = key.split("-")[0]
    wt = f"/tmp/seed/{pid}"
    sh(["git", "-C", "/repo", "worktree", "prune"])
    if os.path.exists(wt):
        return key, "SKIP", f"{wt} exists"
    os.makedirs("/tmp/seed", exist_ok=True)
    r = sh(["git", "-C", "/repo", "worktree", "add", "--detach", wt, "HEAD"])
    if r.returncode != 0:
        return key, "ERROR", r.stderr[-200:]
    try:
        patch = os.path.join(d, "patch.diff")
        env = dict(os.environ, PYTHONPATH=wt, PYTHONDONTWRITEBYTECODE="1")
        demo = os.path.join(d, "demo.py")
        os.makedirs(os.path.join(wt, "SEEDP"), exist_ok=True)
        local_demo = os.path.join(wt, "SEEDP", "demo.py")
        open(local_demo, "w").write(open(demo).read())
        c = sh(["/venv/bin/python", local_demo], cwd=wt, env=env, timeout=600)
        if c.returncode != 0:
            return key, "DEMO-FAILS-ON-CLEAN-HEAD", (c.stdout + c.stderr)[-300:]
        a = sh(["git", "-C", wt, "apply", "-C1", "--recount", patch])
        if a.returncode != 0:
            a = sh(["patch", "-p1", "--fuzz=3", "--no-backup-if-mismatch", "-i", patch], cwd=wt)
            if a.returncode != 0:
                return key, "CANNOT-PORT", (a.stdout + a.stderr)[-300:]
        for junk in sh(["git", "-C", wt, "ls-files", "--others", "--exclude-standard"]).stdout.split():
            if junk.endswith((".orig", ".rej")):
                os.remove(os.path.join(wt, junk))
        p = sh(["/venv/bin/python", local_demo], cwd=wt, env=env, timeout=600)
        t = sh(["/venv/bin/python", "-m", "pytest", "-q", "-p", "no:cacheprovider", "tests"], cwd=wt, env=env)
        tail = (t.stdout.strip().splitlines() or [""])[-1]
        if p.returncode == 0:
            return key, "PORTED-BUT-DEMO-PASSES", ""
        if "77 passed" not in tail:
            return key, "PORTED-BUT-SUITE-CHANGED", tail
        diff = sh(["git", "-C", wt, "diff", "--", "baize"]).stdout
        open(patch, "w").write(diff)
        meta_p = os.path.join(d, "meta.json")
        meta = json.load(open(meta_p))
        head = sh(["git", "-C", "/repo", "rev-parse", "--short", "HEAD"]).stdout.strip()
        if not isinstance(meta.get("ported"), list):
            meta["ported"] = [meta["ported"]] if meta.get("ported") else []
        meta["ported"].append({"to_repo_head": head, "why": "a later fix: commit moved the context of the patch; same edit, demo re-run (0 clean / 1 patched), suite 77 passed"})
        meta["repo_head_when_checked"] = head
        json.dump(meta, open(meta_p, "w"), indent=1)
        return key, "PORTED", tail
    finally:
        sh(["git", "-C", "/repo", "worktree", "remove", "--force", wt])


def main():
    keys = sys.argv[1:] or sorted(k for k in os.listdir(os.path.join(VERIF, "seeded")) if stale(k))
    for k in keys:
        print(*port(k))


if __name__ == "__main__":
    main()
