#!/usr/bin/env python3
"""Sensitivity testing: apply hand-made mutants to a scratch copy of /repo (under /tmp, removed
afterwards), run the quick tier of the named property against the copy (VERIF_REPO), and report
which mutants are killed (exit 1 with a VIOLATION line).

    python3 tools/mutants.py [C03 C17 ...] [--tier quick] [--jobs 8] [--only <mutant-id-substring>]

The mutant table lives in tools/mutant_table.py:  (id, [properties], file, old, new).
Evidence and violation replays of these runs are redirected to the scratch directory.
"""
import argparse
import concurrent.futures
import os
import shutil
import subprocess
import sys
import tempfile

VERIF = os.path.dirname(os.path.dirname(os.path.abspath(__file__)))
sys.path.insert(0, os.path.join(VERIF, "tools"))
from mutant_table import MUTANTS  # noqa: E402

# further single-site mutants, one JSON file per property (tools/mutants_extra/<id>.json):
# [{"id": ..., "file": ..., "old": ..., "new": ..., "needs": ...}, ...]
import glob  # noqa: E402
import json  # noqa: E402

MUTANTS = list(MUTANTS)
for _p in sorted(glob.glob(os.path.join(VERIF, "tools", "mutants_extra", "C*.json"))):
    _pid = os.path.basename(_p)[:-5]
    for _m in json.load(open(_p, encoding="utf-8")):
        MUTANTS.append((_m["id"], [_pid], _m["file"], _m["old"], _m["new"]))


def run_one(m, pid, tier, seed):
    mid, props, rel, old, new = m
    work = tempfile.mkdtemp(prefix="baize_mut_")
    try:
        repo = os.path.join(work, "repo")
        os.makedirs(repo)
        shutil.copytree("/repo/baize", os.path.join(repo, "baize"))
        path = os.path.join(repo, rel)
        src = open(path, encoding="utf-8").read()
        if src.count(old) != 1:
            return mid, pid, "BAD-MUTANT", f"pattern occurs {src.count(old)} times in {rel}"
        open(path, "w", encoding="utf-8").write(src.replace(old, new))
        c = subprocess.run([sys.executable, "-c", f"import sys; sys.path.insert(0, {repo!r}); import baize.wsgi, baize.asgi"],
                           capture_output=True, text=True)
        if c.returncode != 0:
            return mid, pid, "BAD-MUTANT", "does not import: " + c.stderr[-300:]
        env = dict(os.environ, VERIF_REPO=repo, VERIF_OUT=os.path.join(work, "out"), VERIF_SEED=str(seed))
        p = subprocess.run(["/venv/bin/python", os.path.join(VERIF, "vrun.py"), pid, "--tier", tier],
                           capture_output=True, text=True, env=env, timeout=3600)
        lines = [ln for ln in p.stdout.splitlines() if ln.startswith("VIOLATION")]
        detail = ""
        if lines:
            idx = p.stdout.splitlines().index(lines[0])
            detail = " | ".join(p.stdout.splitlines()[idx + 1: idx + 3])[:300]
        if p.returncode == 1 and lines:
            return mid, pid, "KILLED", detail
        if p.returncode == 0:
            return mid, pid, "SURVIVED", ""
        return mid, pid, f"ERROR(exit {p.returncode})", (p.stdout + p.stderr)[-600:]
    finally:
        shutil.rmtree(work, ignore_errors=True)


def main():
    ap = argparse.ArgumentParser()
    ap.add_argument("props", nargs="*")
    ap.add_argument("--tier", default="quick")
    ap.add_argument("--jobs", type=int, default=4)
    ap.add_argument("--only", default=None)
    ap.add_argument("--seed", type=int, default=1)
    a = ap.parse_args()
    jobs = []
    for m in MUTANTS:
        if a.only and a.only not in m[0]:
            continue
        for pid in m[1]:
            if a.props and pid not in a.props:
                continue
            jobs.append((m, pid))
    bad = 0
    with concurrent.futures.ThreadPoolExecutor(a.jobs) as ex:
        futs = [ex.submit(run_one, m, pid, a.tier, a.seed) for m, pid in jobs]
        for f in futs:
            mid, pid, verdict, detail = f.result()
            print(f"{verdict:10s} {pid} {mid}  {detail}")
            sys.stdout.flush()
            if verdict != "KILLED":
                bad += 1
    print(f"{len(jobs) - bad}/{len(jobs)} killed")
    return 1 if bad else 0


if __name__ == "__main__":
    sys.exit(main())
