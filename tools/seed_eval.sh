#!/bin/sh
# usage: tools/seed_eval.sh C08 [extra property ids]   -> evaluates /tmp/seed/C08/SEED/patch{1,2}.diff
id=$1; shift
for n in 1 2; do
  d=/tmp/seed/$id/${SEED_DIR:-SEED}
  [ -f $d/patch$n.diff ] || continue
  python3 /verif/tools/seedcheck.py $d/patch$n.diff $d/demo$n.py $id "$@" > /tmp/seed/$id/${SEED_DIR:-SEED}/result$n.json 2>/tmp/seed/$id/${SEED_DIR:-SEED}/result$n.err
  python3 - <<PY
import json
try:
    r=json.loads(open("/tmp/seed/$id/${SEED_DIR:-SEED}/result$n.json").read().strip().splitlines()[-1])
    print("$id#$n applies=%s tests_ok=%s demo_ok=%s caught_by=%s" % (r.get("applies"), r.get("tests_ok"), r.get("demo_ok"), r.get("caught_by")))
    for p,v in r.get("checks",{}).items():
        print("   ", p, v.get("exit"), v.get("detail","")[:260])
except Exception as e:
    print("$id#$n ERROR", e, open("/tmp/seed/$id/${SEED_DIR:-SEED}/result$n.err").read()[-300:])
PY
done
