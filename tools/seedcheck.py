#!/usr/bin/env python3
"""Evaluate a seeded change against /repo and against the checks.

    python3 tools/seedcheck.py <patch.diff> <demo.py> <property id> [more property ids ...] [--tier quick]

Steps (all in a scratch copy of /repo under /tmp, removed afterwards; /repo itself is not touched):
  1. the patch applies to /repo's HEAD and the patched package imports;
  2. the pinned test suite still gives 77 passed;
  3. the demonstration exits 0 on the clean copy and non-zero on the patched copy;
  4. the named checks (quick tier by default) are run against the patched copy via VERIF_REPO and
     must report a VIOLATION.
Prints a JSON summary on the last line.
"""
import argparse
import json
import os
import shutil
import subprocess
import sys
import tempfile

VERIF = os.path.dirname(os.path.dirname(os.path.abspath(__file__)))


def sh(cmd, **kw):
    return subprocess.run(cmd, capture_output=True, text=True, **kw)


def main():
    ap = argparse.ArgumentParser()
    ap.add_argument("patch")
    ap.add_argument("demo")
    ap.add_argument("props", nargs="+")
    ap.add_argument("--tier", default="quick")
    ap.add_argument("--seed", default="1")
    ap.add_argument("--skip-tests", action="store_true")
    ap.add_argument("--worktree", default=None, help="scratch worktree in which the demo is run (default: two levels above the demo)")
    a = ap.parse_args()
    work = tempfile.mkdtemp(prefix="baize_seed_")
    out = {"patch": a.patch, "props": a.props}
    try:
        clean = os.path.join(work, "clean")
        patched = os.path.join(work, "patched")
        sh(["git", "-C", "/repo", "worktree", "prune"])
        for d in (clean, patched):
            os.makedirs(d)
            sh(["git", "-C", "/repo", "archive", "HEAD", "baize", "tests", "pyproject.toml", "-o", os.path.join(d, "a.tar")])
            sh(["tar", "xf", "a.tar"], cwd=d)
            os.remove(os.path.join(d, "a.tar"))
        sh(["git", "init", "-q"], cwd=patched)
        p = sh(["git", "apply", os.path.abspath(a.patch)], cwd=patched)
        shutil.rmtree(os.path.join(patched, ".git"), ignore_errors=True)
        out["applies"] = p.returncode == 0
        if not out["applies"]:
            out["apply_error"] = (p.stdout + p.stderr)[-400:]
            print(json.dumps(out))
            return 1
        env = dict(os.environ, PYTHONPATH=patched, PYTHONDONTWRITEBYTECODE="1")
        if not a.skip_tests:
            t = sh(["/venv/bin/python", "-m", "pytest", "-q", "-p", "no:cacheprovider", "tests"], cwd=patched, env=env)
            tail = t.stdout.strip().splitlines()[-1] if t.stdout.strip() else ""
            out["tests"] = tail
            out["tests_ok"] = "77 passed" in tail
        # the demonstrations assert that baize is imported from the author's scratch worktree, so they
        # are run there: clean, then with the patch applied, then reverted again
        wt = a.worktree or os.path.dirname(os.path.dirname(os.path.abspath(a.demo)))
        sh(["git", "-C", wt, "checkout", "--", "baize"])
        for name in ("demo_clean", "demo_patched"):
            if name == "demo_patched":
                ap_ = sh(["git", "-C", wt, "apply", os.path.abspath(a.patch)])
                if ap_.returncode != 0:
                    out[name] = "patch-does-not-apply-in-worktree"
                    break
            e = dict(os.environ, PYTHONPATH=wt, PYTHONDONTWRITEBYTECODE="1")
            try:
                r = sh(["/venv/bin/python", os.path.abspath(a.demo)], cwd=wt, env=e, timeout=600)
                out[name] = r.returncode
                if name == "demo_patched":
                    out["demo_msg"] = (r.stdout + r.stderr).strip().splitlines()[-1:][0][:300] if (r.stdout + r.stderr).strip() else ""
            except subprocess.TimeoutExpired:
                out[name] = "timeout"
        sh(["git", "-C", wt, "checkout", "--", "baize"])
        out["demo_ok"] = out["demo_clean"] == 0 and out["demo_patched"] not in (0,)
        verdicts = {}
        for pid in a.props:
            e = dict(os.environ, VERIF_REPO=patched, VERIF_OUT=os.path.join(work, "out"), VERIF_SEED=a.seed)
            try:
                r = sh(["/venv/bin/python", os.path.join(VERIF, "vrun.py"), pid, "--tier", a.tier], env=e, timeout=3600)
                lines = r.stdout.splitlines()
                viol = [i for i, ln in enumerate(lines) if ln.startswith("VIOLATION")]
                detail = " | ".join(lines[viol[0] + 1: viol[0] + 3])[:400] if viol else ""
                verdicts[pid] = {"exit": r.returncode, "violations": len(viol), "detail": detail}
                if r.returncode == 2:
                    verdicts[pid]["detail"] = (r.stdout + r.stderr)[-400:]
            except subprocess.TimeoutExpired:
                verdicts[pid] = {"exit": "timeout"}
        out["checks"] = verdicts
        out["caught_by"] = [p for p, v in verdicts.items() if v.get("exit") == 1]
        print(json.dumps(out))
        return 0
    finally:
        shutil.rmtree(work, ignore_errors=True)


if __name__ == "__main__":
    sys.exit(main())
