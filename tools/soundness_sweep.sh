#!/bin/sh
# Runs the quick tier of every check (or the ids given after the seed list) on the unchanged tree at several
# VERIF_SEED values, evidence redirected to a scratch directory, and prints every run that is not exit 0.
#   tools/soundness_sweep.sh "1 2 3 4 5" [C01 C02 ...]
seeds=${1:-"1 2 3 4 5"}; shift
ids=${*:-"C01 C02 C03 C04 C05 C06 C07 C08 C09 C10 C11 C12 C13 C14 C15 C16 C17 C18 C19 C20"}
cd "$(dirname "$0")/.."
out=$(mktemp -d /tmp/verif_sweep_XXXXXX)
bad=0
for s in $seeds; do
  for id in $ids; do
    echo "$s $id"
  done
done | xargs -P ${SWEEP_JOBS:-4} -L 1 sh -c 'VERIF_SEED=$0 VERIF_OUT='"$out"'/$0_$1 /venv/bin/python vrun.py $1 --tier quick > '"$out"'/$0_$1.log 2>&1; echo "seed=$0 $1 exit=$?"' | grep -v "exit=0" && bad=1
for f in "$out"/*.log; do grep -l "^VIOLATION\|^HARNESS" "$f" >/dev/null 2>&1 && { echo "== $f"; grep -A2 "^VIOLATION\|^HARNESS" "$f" | cut -c1-500 | head -20; }; done
[ $bad = 0 ] && echo "all quiet: seeds [$seeds]"
rm -rf "$out"
