#!/usr/bin/env python3
"""Generates /verif/MANIFEST.json from the table below (run after adding a check)."""
import json
import os

VERIF = os.path.dirname(os.path.dirname(os.path.abspath(__file__)))

TITLES = {}
for line in open(os.path.join(VERIF, "properties.jsonl"), encoding="utf-8"):
    p = json.loads(line)
    TITLES[p["id"]] = p["title"]

# id -> (category, technique, text, level_note)
CHECKS = {
    "C01": (
        "exploration",
        "round-trip: independent RFC 7578 encoder -> baize decoders under generated and exhaustively enumerated chunkings (metamorphic: result independent of partition), 5 observers",
        "Generated forms with hostile content (CR/LF/dashes/partial boundaries/look-alike boundaries, short boundaries, preamble, epilogue, padding, "
        "3 charsets) are encoded by an independent encoder and decoded under: whole body, one byte at a time, EVERY single cut, pairs of cuts "
        "around delimiters and CR/LF, and a drawn multi-cut list with empty chunks, through the event-level decoder, parse_stream, "
        "parse_async_stream and Request.form on both interfaces; for tiny bodies all 2^(n-1) partitions are enumerated. Each result must "
        "equal the encoded parts exactly.",
        "Epilogue text may carry the padding/line break that followed the close delimiter. Names without quote/backslash/line break; ASCII-compatible charsets.",
    ),
    "C02": (
        "exploration",
        "Hypothesis + exhaustive small grid; differential over WSGI / ASGI / ASGI+zero-copy and GET/HEAD; answers parsed with an independent multipart/byteranges parser and compared with the file and a reference range resolver",
        "Each generated (size, chunk size, Range, If-Range, content type, download name) case is answered six times (3 interfaces x GET/HEAD) "
        "through strict gateways (the zero-copy gateway reads the announced fd/offset/count itself); status, Content-Length vs bytes sent, "
        "Content-Range, every multipart part (slice, type, order), 400/416 bodies, HEAD = GET headers with empty body, If-Range rule and "
        "agreement of the three interfaces are checked. Small domain (sizes 0..6, chunks 1..3, all sets of <= 2 specs over 0..7) is exhaustive in the thorough tier.",
        "Random multipart boundary normalised. For non-clean Range text the expected ranges are whatever parse_range returns (C03 judges that).",
    ),
    "C03": (
        "exploration",
        "exhaustive enumeration of a small range-set domain + Hypothesis generation against a set-based reference resolver",
        "Every range set of up to 2 (quick) / 3 (thorough) specs over numbers 0..8 and sizes 0..7 is enumerated completely and "
        "compared with an independent reference (sets of byte positions); Hypothesis adds sizes up to 10^12 with up to 12 "
        "overlapping/adjacent/nested/unordered specs and free text, judged structurally. Exhaustive on the small domain, sampled beyond it.",
        "Denotation clause only for grammar-clean headers; lenient extraction from other text is judged by the structural clause "
        "and the exception class. Either rejection accepted when a header is both malformed and unsatisfiable.",
    ),
    "C04": (
        "exploration",
        "differential: Hypothesis abstract requests x recipes / application compositions interpreted once as baize.wsgi and once as baize.asgi object graphs, run through strict WSGI and ASGI gateways",
        "The same abstract request (method, Unicode path, query bytes, header list with grammar-built values, body partition, client, server, "
        "scheme, root path) is presented as WSGI environ and as ASGI scope + messages; (a) a view echoes the entire request view incl. "
        "body/json/form/stream in a generated order and uploaded files, (b) every response recipe is used as app and as view result, (c) "
        "Router/Subpaths/Hosts compositions, Files/Pages with Range and conditional headers, decorators and middleware stacks are "
        "dispatched, (d) files whose mtime and ctime are set apart through a harness-owned stat clock are fetched and then revalidated with the "
        "validators the server handed out; echo structures, status, header multisets, body bytes, escaping exception classes and the dispatched leaves must agree.",
        "Sanctioned/normalised: ASGI SSE Connection header, random byteranges boundary, wall-clock second of cookie Expires, reason phrase, chunking. "
        "No underscores in header names; valid UTF-8 paths.",
    ),
    "C05": (
        "fault_enumeration",
        "Hypothesis response recipes + enumerated file-response grid x enumerated fault points (disconnect after every k-th send, close after every k-th item, producer exceptions) judged by prefix-closed protocol automata of strict WSGI/ASGI gateways",
        "Generated recipes for all eight response classes (status codes incl. unassigned, header sets/operations, cookies, text/bytes/JSON, "
        "iterables with empty chunks, files with non-ASCII names, Range requests incl. rejected ones, HEAD) are sent through strict gateways: "
        "fault-free runs must be complete legal sequences; then for EVERY k the ASGI client disconnects after the k-th send (send swallowing "
        "or raising OSError) and the WSGI server closes the iterable after k items, and streaming producers raise at generated steps; what was "
        "emitted - including anything sent after the client has gone - must be a legal prefix. An enumerated grid covers the file response (Range shape x "
        "method x If-Range x zero-copy extension x size/chunk). All status codes 100..599 are swept in the thorough tier.",
        "Unrenderable constructor arguments and hop-by-hop header names are caller errors and not generated.",
    ),
    "C06": (
        "fault_enumeration",
        "exhaustive schedule enumeration with a gated producer / consumer thread / watchdog (WSGI) and Hypothesis + exhaustive disconnect-instant grid on a virtual-time event loop (ASGI); invariants over the history",
        "WSGI SendEventResponse: every feasible schedule over {producer yields/raises/finishes, consume, consume-while-empty, close} up to length 5 "
        "(quick) / 7 (thorough) plus generated schedules up to 12 is executed against the real relay thread with the harness owning both "
        "ends; close()/next() must return under a watchdog, the generator's finally must run exactly once, no pool future may stay running, "
        "delivery must be an in-order prefix. ASGI StreamResponse/SendEventResponse (bare and in request_response): producer delays, send "
        "delay, ping interval and disconnect instant from a 0.25 grid on a deterministic virtual-time loop (a dry loop is a detected hang), "
        "return-time bounds, cleanup counts snapshotted inside the loop, leftover tasks, delivery prefix.",
        "Schedules are owned at producer-step/consumer-step/close granularity; inside a queue hand-off CPython schedules. Watchdog 5 s, confirmed at 20 s. "
        "ASGI return bound includes the server's own send time (3 x send delay).",
    ),
    "C07": (
        "exploration",
        "exhaustive path enumeration over a hostile segment alphabet + systematic variants of every file/decoy + Hypothesis layouts, against a lexical reference resolver; sys.addaudithook records every open()",
        "Two fixed layouts with parent/sibling decoys (secret files, static.html, static2/, staticfile, other.html) and generated layouts are served by "
        "Files and Pages on both interfaces with the directory given as absolute, relative (cwd switched), './static/' and package-relative "
        "path, bare and mounted under a prefix. All paths of <= 2 segments (quick; 3 thorough) over 27 hostile segments with/without "
        "trailing slash are enumerated; every served body must be the content of a lexically resolved candidate inside the directory, no "
        "file of the surrounding tree may be opened (audit hook), escapes are 404, every regular file is served at its own URL, Pages "
        "redirects resolve like a client does and are followed to the index page.",
        "No symlinks, POSIX paths. Non-canonical URLs may be served (safety rule) or be not-found.",
    ),
    "C08": (
        "exploration",
        "exhaustive enumeration of a small text domain per convertor type + Hypothesis route tables/paths against a reference matcher with explicit per-type languages",
        "Every string of length <= 3 (quick) / 4 (thorough) over a 10-symbol hostile alphabet is matched against every placeholder type in 3 "
        "templates and compared with explicit language definitions, converted values and the to_string round-trip; Hypothesis generates "
        "route tables (regex metacharacters, Unicode, overlapping and adjacent placeholders) and near-miss paths and dispatches them "
        "through the real WSGI and ASGI routers, comparing the endpoint that ran and its typed path_params with the reference.",
        "Decomposition choice for adjacent placeholders left open; >4000-digit integers may be 404/next route or exact; route authors do not "
        "repeat placeholder names or put braces in literals.",
    ),
    "C09": (
        "exploration",
        "exhaustive grid of mount tables x paths + Hypothesis nested tables against a reference prefix matcher; constructive host-pattern family with membership decided without re",
        "All ordered mount tables of <= 3 entries over 5 prefixes x 14 paths x 2 root paths are enumerated, and nested tables (depth <= 3) are "
        "generated; recorder sub-applications report the root path and path they see on both interfaces and are compared with a reference "
        "(first entry on a segment boundary, prefix moved to the root path, full path preserved, 404 leaves the request mapping equal to a "
        "snapshot). Host dispatch is checked with patterns from a constructive family and near-miss Host values.",
        "WSGI paths compared after UTF-8 decoding of the bytes-as-Latin-1 form. Host patterns restricted to the constructive family.",
    ),
    "C10": (
        "exploration",
        "exhaustive access histories against a three-state model (fresh / body-cached / stream-consumed) + Hypothesis histories with disconnects + concurrent tasks on a virtual-time loop judged by invariants",
        "Every history of length <= 3 (quick) / 4 (thorough) over {body, stream fully, stream partially, json, form, close} x 5 body kinds x 3 "
        "partitions (incl. empty messages, one byte at a time, optional keys omitted) x WSGI/ASGI is compared with the model (values "
        "complete and identical on repetition, replay after body, documented error after a consumed stream); generated histories add "
        "arbitrary bodies/partitions and a disconnect replacing message k. ASGI concurrency: 2..4 tasks with start offsets and receive "
        "delays on a deterministic virtual-time loop; invariants: complete identical values, each message consumed once, never two receive() "
        "in flight, no receive after the final message, only documented errors, nothing returned after a disconnect.",
        "A stream() racing with a pending body read may raise the stream-consumed error. After a disconnect either ClientDisconnect or the stream-consumed error may surface later.",
    ),
    "C11": (
        "exploration",
        "exhaustive enumeration of call histories x server scripts against a reference automaton, plus Hypothesis-generated longer histories",
        "All call histories up to length 4 (quick) / 5 (thorough) over 15 wrapper operations and all server scripts with up to 2 / 3 "
        "frames ending in disconnect or silence are driven loop-lessly against the real WebSocket class; forwarded events are judged by "
        "an application-side automaton written independently, outcomes/payloads/consumption by a reference model; denial paths enumerated.",
        "Typed receive meeting the other frame kind or the connect event is left open (accepted variation). Server delivers connect first. "
        "asyncio scheduling is irrelevant: the wrapper never suspends except in the server's receive.",
    ),
    "C12": (
        "exploration",
        "grammar-aware Hypothesis fuzzing of abstract requests (per-header grammars, mutations, raw Latin-1 noise, hostile paths/queries/bodies) with exception bucketing by (type, innermost baize frame); Atheris coverage-guided campaign in the thorough tier",
        "Generated hostile requests are presented as WSGI environ and ASGI scope+messages; every accessor of both Request classes, Router (all "
        "convertor types), Subpaths, Hosts, Files, Pages and FileResponse on both interfaces, and the parsers (parse_range, URL properties, "
        "parse_header, MediaType, QueryParams, MultipartDecoder) are probed. Allowed outcomes: value, response, HTTPException 4xx, "
        "ClientDisconnect, RuntimeError('Stream consumed'); anything else is an escape, bucketed so that each root cause is reported once.",
        "Server-provided values (REMOTE_PORT, SERVER_PORT, scheme) are well-formed. URL(text) called by the application may raise urlsplit's ValueError at construction.",
    ),
    "C13": (
        "exploration",
        "exhaustive code-point sweep over every mutation path + Hypothesis mutation histories against a dict model, emitted headers inspected through WSGI/ASGI gateways",
        "Each of the header mapping's mutation paths (assignment, append, update x4 forms, setdefault) is exercised with every code point 0..255 "
        "inside key and value (exhaustive) and with generated histories of up to 12 mutations over a hostile alphabet; cookies with hostile "
        "names/values and redirect targets (str and URL) are added and the response is sent through strict WSGI and ASGI gateways; the "
        "emitted header lines are inspected for CR/LF/NUL, extra cookie attributes and Location cleanliness.",
        "Constructor-supplied headers are outside the statement. Text above U+00FF may be rejected instead of escaped. Redirect targets compared after one percent-decoding.",
    ),
    "C14": (
        "exploration",
        "model-based histories (Hypothesis) + exhaustive 3-step grid over a virtualised file clock (os.stat wrapped before baize is imported) against a per-file model of content, size, timestamps and remembered responses",
        "Histories of clock advances (0, 0.3, 0.75, 1, 2, 3600 s), rewrites (same/other size), touch, restored-older-mtime and requests carrying the "
        "validators of earlier responses in 12 forms (ETag, weak, list positions, weak members, near-miss foreign tags, *, Last-Modified, "
        "both) run against Files and Pages on both interfaces; the model decides which answers are stale (content changed, detectable by the "
        "mechanism), which must be fresh (size changed or timestamps moved >= 1 s) and which must revalidate (unchanged file, any ETag "
        "form, *). The (modification x advance x form x app x interface) grid is exhaustive.",
        "Same size and identical mtime is undetectable by design; Last-Modified-only revalidation of an unchanged file may be 200; timestamps virtual, contents real.",
    ),
    "C15": (
        "exploration",
        "Hypothesis forms x limits at the exact totals (-1, 0, +1) x chunkings, differential sync/async; instrumented stream and file sink measuring retained bytes on 200 KB - 1 MB parts",
        "413 must be raised exactly when the part count or the field-byte total exceeds the configured limit, identically by parse_stream and "
        "parse_async_stream under whole/bytewise/drawn chunkings, and through Request.form with the default 324-part limit. Buffering: a "
        "recording file sink and an instrumented stream measure, every time the helper asks for the next chunk, how many content bytes were "
        "received but not yet written/counted; parts with an early lone CR/LF followed by up to 1 MB without another line break must stay "
        "within one chunk + delimiter length + 8, at helper and at event level, and an over-limit field must be rejected within that bound.",
        "Bound on retained bytes stands in for re-scan cost (no clock in an oracle). T = wire bytes of non-file content.",
    ),
    "C16": (
        "exploration",
        "exhaustive code-point sweep + Hypothesis cookie sets: serialise through both response stacks, read back through both request stacks (round-trip), Expires bracketed by wall-clock under several process time zones",
        "Every code point 0..255 in six positions of a cookie value (exhaustive) and generated sets of 1..4 cookies with hostile Latin-1 values are "
        "set on WSGI and ASGI responses, the emitted Set-Cookie lines are checked (ASCII, attributes) and their name=value pairs are sent "
        "back alone and among foreign cookies to both request classes; Expires/Max-Age/delete_cookie are checked under 9 process time "
        "zones (POSIX TZ strings and tz database names) set with tzset().",
        "Expires compared with a [floor(t0+e), floor(t1+e)] bracket around the call. Cookie names in one response are distinct.",
    ),
    "C17": (
        "exploration",
        "exhaustive enumeration of operation sequences against a list-of-pairs model, plus Hypothesis sequences up to 50 operations and query-string round-trips",
        "Every history of length <= 2 (quick) / 3 (thorough) over ~50 concrete operations from every initial pair list of length <= 2 in "
        "all constructor forms is executed on MutableMultiMapping and on a plain list-of-pairs model; all views are compared after every step. "
        "Hypothesis adds long histories and arbitrary-text QueryParams/FormData round-trips.",
        "popitem may pick any present key; update(mapping) follows collections.abc.MutableMapping.update.",
    ),
    "C18": (
        "exploration",
        "Hypothesis + full product of small dimensions against a reference URL assembler / independent URL splitter / list-of-pairs query model",
        "Request URLs are built from generated (scheme, server, Host, root path, path, query) combinations as WSGI environ and ASGI scope and "
        "compared with a reference assembler (all small dimensions as a full product, the rest generated); replace() is checked on URLs "
        "assembled from components for every generated subset of replaced components with an independently written splitter; query "
        "helpers against a list-of-pairs model; repr() for password leaks.",
        "url.path may be raw or once-percent-decoded equal. Userinfo/host text needs no percent-encoding (password may contain ':' and '@').",
    ),
    "C19": (
        "exploration",
        "round-trip: Hypothesis event dictionaries -> baize encoder / SendEventResponse (ASGI on a virtual-time loop, WSGI with its relay thread) -> independent WHATWG event-stream parser",
        "Generated sequences of event dictionaries (data over full Unicode weighted to all line/paragraph separators, 4 charsets, key orders) are "
        "encoded by build_bytes_from_sse and by both SendEventResponse classes with pings interleaved (virtual-time loop on ASGI; real 20 ms "
        "ping interval for a labelled minority on WSGI), decoded with the declared charset and parsed by a parser written from the HTML "
        "standard; dispatched events must equal the yielded ones (type, id, retry, data lines joined by LF). An exhaustive sweep covers "
        "every separator-like code point in 7 positions and all pairs.",
        "Trailing terminator of data may or may not give a final empty line; data-less events may dispatch nothing or one empty event.",
    ),
    "C20": (
        "exploration",
        "differential: Hypothesis inner applications x middleware/decorator stacks of depth 0..3, wrapped vs bare application through strict WSGI/ASGI gateways",
        "Generated inner applications (all response classes as app or view, raw apps returning list/tuple/iterator/generator/empty iterable, "
        "several Set-Cookie lines, repeated headers, unassigned statuses, custom reason phrases, failures before/after start/mid-body, files "
        "with ranges) are run bare and wrapped in stacks of identity / add / replace / delete-header middlewares and view decorators on both "
        "interfaces; status, header multiset (edited as the stack prescribes), body bytes, exception class and the inner invocation count "
        "must agree. A raw-app grid (chunk counts x iterable kinds x cookie counts x depth) is exhaustive.",
        "Repeated non-Set-Cookie headers may be combined with ', '. Chunking, reason phrase, header order free.",
    ),
}

NOT_YET = "not claimed"

# sentences appended to the level text: sub-checks added by the strengthening pass (DESIGN.md section 11, wave 6)
ADDED = {
    "C01": "Enumerated additions: every equally well-formed spelling of the part headers and of the request Content-Type (case, folding, order, unquoted tokens, tabs), boundary lengths 1..70 x transport padding x cuts within 3 bytes of every delimiter, bodies of 80 KiB..2 MiB (reads over 64 KiB, uploads past the in-memory limit), form read after body, absent Content-Length, optional ASGI message keys omitted, lazily drained decoder.",
    "C02": "Enumerated additions: request header order / look-alike header names / other ASGI extensions, mtime phase within the second x symlinked path x process time zone, legal spellings of range sets (tabs, zero padding, 30-digit positions, 12 specs), If-Range near-misses (tag + suffix, lists, case, 8-bit); a rejection of a range set in which every spec selects bytes is a failure. Wave 12: sparse files beyond 2 GiB served zero-copy (the server model notes each (offset, count) slice; slices must be exactly the expected ranges).",
    "C03": "Enumerated additions: all 3-spec headers over 36 specs and 4-spec headers over 12, positions of 10..4000 digits and sizes up to 10^30, size-relative anchors with leading zeros, 0..3 blanks or tabs around every comma, 34 non-bytes unit spellings, lists of 12..5000 specs and chains of 5..300.",
    "C04": "Enumerated additions: optional environ / scope / message keys omitted, every accessor sequence of length <= 3 around close(), constructor arguments of every response class (own framing headers, JSON keywords, SSE charsets), 323..326 parts and bodies past the spool limit, mount / host grids with non-ASCII and shadowing prefixes, static trees with hostile directory names, one response object or one Files/Pages object over a request history with file modifications, If-None-Match on several lines. Wave 12: media_type spellings with their own parameters x charset argument.",
    "C05": "Enumerated additions: list / iterator / re-iterable producers, control characters in redirect targets, files removed / truncated / grown after construction, data-less events, hostile names on disk, other ASGI extensions without zero-copy, all response constructions x status sweep, idle event streams, hostile cookie attribute values (must raise at the call or be emitted clean). Wave 11: one response object called for two requests in sequence (every fault point in the first, a connected client in the second). Wave 12: wsgi.file_wrapper on offer for every response class; names mixing non-ASCII text with ASCII control characters.",
    "C06": "Enumerated additions: producers without close/aclose, cleanup code that takes (virtual or real) time, server-side task cancellation, clients slower than the ping interval, endless producers (runaway detection), close() latency at three ping intervals, list / tuple / iterator producers on WSGI. Wave 11: ASGI producers inside run_in_threadpool(blocking call) at the disconnect / cancellation, on a thread-aware virtual-time loop. Wave 12: fault-free runs whose sends outlast the ping interval (a cancellation nobody injected is the call's outcome).",
    "C07": "Enumerated additions: 58 hostile but legal file / directory names with near-miss spellings and unix sockets, every entry x 5 validator sets (a 304 needs a servable file), histories on one app object over a changing tree, handle_404, six ways of giving the directory, minimal environ/scope; any redirect must come from a slash-less URL of a directory and stay on the same host. Wave 11: symbolic links of every kind in the served tree x dot segments behind them (lexical vs physical resolution), audit of the spelling handed to open().",
    "C08": "Enumerated additions: every code point below U+0100 (+52 others) alone / appended / prepended / inserted per type, placeholder names, 15 hand-written tables x 90 paths, method / root path / query / websocket scope / omitted PATH_INFO, non-UTF-8 PATH_INFO, several requests on one router (handlers keeping or editing their params), routers nested in routers and behind mounts.",
    "C09": "Enumerated additions: 12 look-alike families after and inside prefixes (case, slashes, dot segments, escapes, invisible characters, Latin-1 misreadings, NFKC), non-UTF-8 paths, ordered request triples on one mount object, websocket scopes, every nesting level observed through recorder apps, WSGI values compared in their native form, 50 junk Host spellings x pattern kinds, forwarded-host headers around Host. Wave 11: host patterns with back-references, named / conditional groups, inline flags, look-around (per-entry re.fullmatch as the language).",
    "C10": "Enumerated additions: 12 envelopes (methods x Content-Length / chunked / none, optional ASGI keys), falsy cached values, bodies of 64 KiB..200 KB and explicit chunk sizes, a disconnect replacing each message for every history of length <= 2, reads around close(), every pair / triple of concurrent single-access tasks (json / form results identical objects).",
    "C11": "Enumerated additions: 23 operations x 36 further server scripts (empty frames, both-keys frames, disconnect codes, receive calls cancelled while parked, server send failing or parking on the n-th event), two persistent iterators across close, websocket_session views cancelled or failing, denial responses with other extensions / None / streaming while the client disconnects.",
    "C12": "Enumerated additions: seven multipart bodies cut and truncated at every offset (input runs dry / client disconnects), pairs of headers only evaluated together (Range x If-Range dates, If-None-Match x If-Modified-Since), every dictionary path and ~200 near-misses per convertor, symlink loops and dangling links, a composed Hosts -> Subpaths -> Files/Pages/Router app, 55 codec names, environ without optional keys. Wave 12: every codec module the interpreter ships as charset x ASCII bodies.",
    "C13": "Enumerated additions: every way of handing a pair to the mapping (12 update forms) x prior state of the key x 18 hostile strings, 25 names responses fill in themselves, texts of 257..65537 characters, every response kind incl. file 206/416, cookie names like attributes / prefixes and compatibility forms of ';' ',' '=', redirect targets over code points 0..0x17F in 7 URL contexts. Wave 11: hostile text behind cookie-prefix / attribute-like name stems. Wave 12: no raw comma in the name=value part of an emitted cookie line; every non-token code point around token characters; the mapping grids once more under python -O.",
    "C14": "Enumerated additions: one app instance over the whole history, HEAD, delete / re-create / shrink / truncate / access-only operations, sub-directories and pretty URLs, cacheability options, eight further validator forms (41 members, tabs, empty members, both validators in either order), DST zones, two equal-mtime files; a 200 answering a conditional request must carry current validators. Wave 11: package= / relative / PathLike directory modes on one long-lived app; weak-validator search over ~6*10^5 structured (mtime, size) versions with the verdict from the real history of each colliding pair.",
    "C15": "Enumerated additions: ten fixed forms x the limit grid x chunkings x sync/async, no limit configured (up to 24 MB of field data), 1..100-byte chunks (bound relative to the chunk), 12 fillers behind CR / LF / letter leads, parts before and after the large one, sink lag through both Request.form accessors, padded delimiter look-alikes (known finding).",
    "C16": "Enumerated additions: absolute Expires targets showing every hour / day / weekday / month, DST switch seconds under 11 zones, max_age up to 2^40, set / delete / wait / send-again histories on one response judged per cookie identity, every token character in names, attribute-like and prefixed names, values up to 16 KiB, up to 120 cookies, all pairs of code points (thorough), every response class and status.",
    "C17": "Enumerated additions: 11 key/value alphabets with fresh-but-equal key objects, None / falsy / unhashable values, patterns with three or more non-adjacent values, constructor sources mutated afterwards (aliasing), every code point below U+0180 in query mappings, 1001..2000 pairs, raw query strings round-tripped through their own text.",
    "C18": "Enumerated additions: optional scope / environ keys omitted, forwarded-host/-proto/-port headers around Host, server port None, root paths ending in '/', non-UTF-8 and control-character paths, one reading of url.path per configuration, 14 bases x single / pair / triple / chained replace values incl. port 0 and scheme '', replace on request-built URLs, query helpers with fragments and differently spelled keys, passwords equal to other components. Wave 11: empty user names with a password (':secret@host'). Wave 12: request paths that begin with empty segments ('//a').",
    "C19": "Enumerated additions: clients slower than the ping interval, every source kind the constructors are typed for, 2..12 concurrent streams against the shared relay pool, special event names / ids followed by pings, normalisation-sensitive text in 9 charsets, 5000 lines / 200 000-character lines, the same dict object yielded again (caller's dict unchanged). Wave 11: retry over 0..2^70.",
    "C20": "Enumerated additions: header spellings and repeats (SET-COOKIE, 3-fold, values contained in earlier ones), bodies around 64 KiB and 1 MiB, omitted ASGI keys, HEAD / OPTIONS / PROPFIND, every edit operation x name case x present / absent / repeated field x layer kind judged against a list-of-pairs model, layers around routers / mounts / static apps, failing views and streams behind stacks, the zero-copy-send extension on offer. Wave 11: 12 shapes of lazy / eager non-generator iterables returned by inner WSGI applications, foreign re-packaging layers.",
}


def main() -> None:
    checks = []
    for pid, (cat, tech, text, note) in sorted(CHECKS.items()):
        checks.append(
            {
                "property_id": pid,
                "quick_cmd": f"/venv/bin/python /verif/vrun.py {pid} --tier quick",
                "thorough_cmd": f"/venv/bin/python /verif/vrun.py {pid} --tier thorough",
                "evidence_file": f"/verif/evidence/{pid}.json",
                "replay_cmd_template": f"/venv/bin/python /verif/vrun.py {pid} --replay {{path}}",
                "engine": "vrun",
                "level_claimed": {"category": cat, "text": text + (" " + ADDED[pid] if pid in ADDED else ""), "design_ref": f"DESIGN.md sections 3 and 11 (waves 6, 11 and 12), {pid}"},
                "level_note": note,
                "technique": tech,
            }
        )
    manifest = {
        "version": 1,
        "setup_cmd": "/bin/sh /verif/setup.sh",
        "hooks": {
            "guard": "BAIZE_VERIF",
            "enable": "no source hooks exist: baize is pure Python and imported straight from /repo's working tree by every check "
            "(vrun.py puts /repo first on sys.path and sets BAIZE_VERIF=1, which nothing in /repo reads)",
            "baseline_off_cmd": "cd /repo && env -u BAIZE_VERIF /venv/bin/python -m pytest -ra -q -p no:cacheprovider --timeout=900 "
            "--continue-on-collection-errors tests",
            "source_commits": [],
            "add_only": True,
        },
        "engines": [
            {
                "name": "vrun",
                "path": "/verif/vrun.py",
                "serves_properties": sorted(CHECKS),
                "kind_free_text": "property-based testing: Hypothesis generators / rule-based state machines, exhaustive enumeration "
                "of small finite domains over 16 processes, Atheris coverage-guided fuzzing in thorough tiers; explicit oracles "
                "(reference models, round-trips, differential WSGI/ASGI, protocol automata)",
            }
        ],
        "checks": checks,
        "not_applicable": [
            {"property_id": pid, "reason": NOT_YET} for pid in sorted(TITLES) if pid not in CHECKS
        ],
        "notes": "All checks honour VERIF_SEED; exit 2 = harness error. KNOWN_FINDINGS.txt lists recorded findings and repaired defects.",
    }
    with open(os.path.join(VERIF, "MANIFEST.json"), "w", encoding="utf-8") as fh:
        json.dump(manifest, fh, indent=1)
        fh.write("\n")


if __name__ == "__main__":
    main()
