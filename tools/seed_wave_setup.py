#!/usr/bin/env python3
"""Prepare a wave of independent seeded changes: one scratch worktree of /repo per property under /tmp/seed/<id> and a
PROMPT.txt in /tmp/seed/<id>/<SUB>/ that contains ONLY the property text, the worktree path, the output format and
one-line descriptions of the changes earlier authors already produced for that property (so that the new author looks
elsewhere).  Nothing from /verif's checks is disclosed.

    python3 tools/seed_wave_setup.py SEED7
"""
import json
import os
import re
import subprocess
import sys

sub = sys.argv[1]
props = {json.loads(l)["id"]: json.loads(l) for l in open("/verif/properties.jsonl")}
subprocess.run(["git", "-C", "/repo", "worktree", "prune"])
for pid, p in props.items():
    wt = f"/tmp/seed/{pid}"
    if not os.path.exists(wt):
        os.makedirs("/tmp/seed", exist_ok=True)
        r = subprocess.run(["git", "-C", "/repo", "worktree", "add", "--detach", wt, "HEAD"], capture_output=True, text=True)
        assert r.returncode == 0, r.stderr
    os.makedirs(f"{wt}/{sub}", exist_ok=True)
    prev = []
    for n in range(1, 200):  # numbers of rejected submissions are gaps
        if not os.path.exists(f"/verif/seeded/{pid}-{n}/meta.json"):
            continue
        m = json.load(open(f"/verif/seeded/{pid}-{n}/meta.json"))
        t = re.sub(r"^(Change \d - )?patch\d\.diff / demo\d\.py\s*[-:]\s*", "", m["needs_to_manifest"])
        prev.append(f"  {n}. " + t[:380].replace("\n", " "))
    prompt = f"""You are helping to evaluate a verification framework for the small pure-Python WSGI/ASGI toolkit `baize` (abersheeran/baize). Your job is to write two *seeded defects*: realistic changes to baize's source that break one stated semantic property while the package still imports and its existing test suite still passes. You work ONLY in your own scratch git worktree `{wt}` (a detached worktree of the repository at its current HEAD). Never touch /repo or /verif and do not read anything under /verif.

THE PROPERTY ({pid}): {p['title']}
Statement: {p['statement']}
Quantified over: {p['quantifier']['text']}
Code anchors: {', '.join(p['anchors'].get('files', []))}

WHAT TO PRODUCE, in the directory `{wt}/{sub}/` (already exists):
 - `patch1.diff`, `patch2.diff`: two independent changes to files under `baize/` only (each produced with `git -C {wt} diff > {sub}/patchN.diff` from a clean tree containing only that change; each must apply with `git apply` to a clean checkout of HEAD). Small (a few lines), plausible as something a maintainer might write during a refactoring, optimisation, feature addition or "clean-up" - not sabotage that looks absurd.
 - `demo1.py`, `demo2.py`: a stand-alone program per change, run as `/venv/bin/python {sub}/demoN.py` from `{wt}` with `PYTHONPATH={wt}`. It must exit 0 on the clean tree and exit 1 (printing, as its LAST line of output, a one-line description of what was observed vs expected) with the change applied. It should assert at start that `baize.__file__` lies under `{wt}`. The demo must call baize directly (build a WSGI environ / ASGI scope and call the app objects; do NOT use httpx or starlette test clients - they do not work offline here).
 - `NOTES.md` with two sections, headed exactly `## Change 1 - patch1.diff / demo1.py: <one-line summary>` and `## Change 2 - patch2.diff / demo2.py: <one-line summary>`, each containing a paragraph starting `Needed to manifest:` that says precisely which input / sequence / interleaving / configuration is needed for the property to break, and what ordinary use does NOT show it.

REQUIREMENTS FOR EACH CHANGE
 1. It really and unambiguously violates the property as stated above (not merely some other behaviour, and not an outcome the statement leaves open), on at least one of the interfaces the property covers.
 2. The existing test suite still passes exactly as before: run `cd {wt} && /venv/bin/python -m pytest -q -p no:cacheprovider tests 2>&1 | tail -1` - on the clean tree this prints `99 failed, 77 passed` (the 99 failures need a network-style test client and fail on the clean tree too); with your change it must print the same counts.
 3. It needs something *specific* to manifest: a particular multi-step sequence of operations, an unusual but legitimate input, a particular alignment/interleaving/chunking, a fault at a particular point, a particular configuration, or two cooperating edits in different places that each look fine alone. A change that ordinary use (the obvious happy path) would expose at once is NOT wanted.
 4. It must be DIFFERENT in mechanism, location and triggering condition from these changes that earlier authors already produced for this property:
{chr(10).join(prev)}
    Look for a part of the property's statement, or a code path behind it, that none of those touches. Read the code under `baize/` carefully first and think about which clauses of the statement rest on which lines. Subtle is better than broad: think of conditions on sizes, counts, positions, character classes, orderings, repeated calls, state carried between calls or requests, optional keys, rarely used arguments, platform/time/locale state.
 5. The two changes must be different from each other (different code location and different clause or trigger).

PROCEDURE: read the anchored files; design change 1; apply it; run the test suite; write and run the demo with the change (exit 1); save the diff; `git -C {wt} checkout -- baize`; run the demo again (exit 0); repeat for change 2. Leave the worktree CLEAN (no applied change) at the end, with only the {sub} directory added. Use /venv/bin/python (3.12) for everything. There is no network. Finish by replying with a short summary (what each change does and what it needs to manifest).
"""
    open(f"{wt}/{sub}/PROMPT.txt", "w").write(prompt)
print("prepared", len(props), "worktrees under /tmp/seed with", sub)
