#!/usr/bin/env python3
"""Re-run the checks against every stored seeded change (/verif/seeded/<key>/patch.diff).

    python3 tools/seeds_rerun.py [--jobs 8] [--tier quick] [--seed 1] [--tests] [key-prefix ...]

Each patch is applied to a scratch export of /repo's HEAD (under /tmp, removed afterwards; /repo
itself is never touched), optionally the pinned suite is re-run there, and the check of the
seed's property is run against the patched export through VERIF_REPO / VERIF_OUT.  Prints one
line per seed (CAUGHT / MISSED / STALE when the patch no longer applies) and a summary; exit 1 if
any seed is missed.
"""
import argparse
import json
import os
import shutil
import subprocess
import sys
import tempfile
from concurrent.futures import ThreadPoolExecutor

VERIF = os.path.dirname(os.path.dirname(os.path.abspath(__file__)))


def sh(cmd, **kw):
    return subprocess.run(cmd, capture_output=True, text=True, **kw)


def one(key, tier, seed, tests):
    d = os.path.join(VERIF, "seeded", key)
    meta = json.load(open(os.path.join(d, "meta.json")))
    pid = meta["property"]
    work = tempfile.mkdtemp(prefix="baize_seedrun_")
    try:
        tree = os.path.join(work, "patched")
        os.makedirs(tree)
        sh(["git", "-C", "/repo", "archive", "HEAD", "baize", "tests", "pyproject.toml", "-o", os.path.join(tree, "a.tar")])
        sh(["tar", "xf", "a.tar"], cwd=tree)
        os.remove(os.path.join(tree, "a.tar"))
        sh(["git", "init", "-q"], cwd=tree)
        p = sh(["git", "apply", os.path.join(d, "patch.diff")], cwd=tree)
        shutil.rmtree(os.path.join(tree, ".git"), ignore_errors=True)
        if p.returncode != 0:
            return key, pid, "STALE", (p.stderr or p.stdout).strip().splitlines()[-1][:200]
        tests_note = ""
        if tests:
            env = dict(os.environ, PYTHONPATH=tree, PYTHONDONTWRITEBYTECODE="1")
            t = sh(["/venv/bin/python", "-m", "pytest", "-q", "-p", "no:cacheprovider", "tests"], cwd=tree, env=env)
            tests_note = (t.stdout.strip().splitlines() or [""])[-1]
        e = dict(os.environ, VERIF_REPO=tree, VERIF_OUT=os.path.join(work, "out"), VERIF_SEED=str(seed))
        r = sh(["/venv/bin/python", os.path.join(VERIF, "vrun.py"), pid, "--tier", tier], env=e, timeout=7200)
        lines = r.stdout.splitlines()
        viol = [i for i, ln in enumerate(lines) if ln.startswith("VIOLATION")]
        detail = " | ".join(lines[viol[0] + 1: viol[0] + 3])[:240] if viol else (r.stdout + r.stderr)[-200:].replace("\n", " ") if r.returncode not in (0, 1) else ""
        verdict = "CAUGHT" if r.returncode == 1 and viol else ("MISSED" if r.returncode == 0 else f"ERROR{r.returncode}")
        return key, pid, verdict, (tests_note + " " + detail).strip()
    finally:
        shutil.rmtree(work, ignore_errors=True)


def main():
    ap = argparse.ArgumentParser()
    ap.add_argument("keys", nargs="*")
    ap.add_argument("--jobs", type=int, default=8)
    ap.add_argument("--tier", default="quick")
    ap.add_argument("--seed", default="1")
    ap.add_argument("--tests", action="store_true")
    a = ap.parse_args()
    keys = sorted(k for k in os.listdir(os.path.join(VERIF, "seeded")) if os.path.exists(os.path.join(VERIF, "seeded", k, "patch.diff")))
    if a.keys:
        keys = [k for k in keys if any(k.startswith(p) for p in a.keys)]
    rows = []
    with ThreadPoolExecutor(a.jobs) as ex:
        for row in ex.map(lambda k: one(k, a.tier, a.seed, a.tests), keys):
            print("%-8s %-4s %-7s %s" % row, flush=True)
            rows.append(row)
    caught = sum(1 for r in rows if r[2] == "CAUGHT")
    print(f"{caught}/{len(rows)} caught; missed: {[r[0] for r in rows if r[2] == 'MISSED']}; other: {[(r[0], r[2]) for r in rows if r[2] not in ('CAUGHT', 'MISSED')]}")
    return 0 if caught == len(rows) else 1


if __name__ == "__main__":
    sys.exit(main())
