#!/usr/bin/env python3
"""Copy evaluated seeded changes from the scratch worktrees into /verif/seeded/<id>-<n>/ with meta.json."""
import json, os, shutil, sys

NEEDS = {
 "C01-1": "partial_boundary_re built without re.escape: a legal boundary containing + ? ( ) and a chunk edge right after the boundary text of a delimiter",
 "C01-2": "async helper decodes field text per Data event: a non-ASCII text field with a chunk edge inside a multi-byte character, async routes only",
 "C02-1": "WSGI single-range reader caps reads at the range length, not the remainder: a range longer than chunk_size, not a multiple of it, file continues after the range",
 "C02-2": "multipart Content-Length formula uses len(str(end)): >= 2 ranges after merging with one ending at 9/99/999...",
 "C03-1": "start>=end check moved after the merge: a reversed spec (first>last) that overlaps or abuts an earlier range in a multi-spec header",
 "C03-2": "digit-count shortcut when clipping the last position: a zero-padded last-byte-pos with more digits than the file size",
 "C04-1": "same edit as C02-1 on the WSGI side only: WSGI and ASGI bodies differ for a multi-chunk single range",
 "C04-2": "ASGI Subpaths overwrites root_path instead of appending: nested mount (or non-empty incoming root path) and a URL-dependent endpoint (request.url / Pages redirect)",
 "C05-1": "ASGI fake sendfile ignores the caller's more_body: GET with >= 2 non-merging ranges, no zero-copy extension",
 "C05-2": "WSGI FileResponse lost a return after handle_all: Range plus a non-matching If-Range -> start_response twice after body bytes",
 "C06-1": "ASGI disconnect watcher reads a single message: an http.request message delivered before the http.disconnect and a producer that outlives it",
 "C06-2": "WSGI relay put() with ping-interval timeout drops the event: producer ahead of the client and the client stalls longer than one ping interval",
 "C07-1": "confinement by os.path.commonprefix: a sibling directory whose name starts with the served directory's name, path /../static_private/x",
 "C07-2": "Pages .html fallback applied to existing directories: a file <directory>.html next to the served directory and a path resolving to the root without trailing slash",
 "C08-1": "dict fast path for literal routes consulted before the linear scan: a placeholder route declared before a literal route that both match",
 "C08-2": "DecimalConvertor.to_string via normalize(): whole numbers ending in zero become 1E+2",
 "C09-1": "WSGI Subpaths slices PATH_INFO with the text length of a non-ASCII prefix",
 "C09-2": "Hosts compiled as pattern + \\Z and used with match(): a pattern with a top-level alternation and a Host equal to a non-last alternative plus junk",
 "C10-1": "ASGI _stream_consumed set only after the drain: partial stream then body (or concurrent stream/body) on a multi-message body",
 "C10-2": "WSGI stream treats a short read as end of input: wsgi.input returning fewer bytes than asked while more data follows",
 "C11-1": "close transition moved after forwarding: the server's send raises on the close frame (or a second task runs while it is parked), then close()/send again",
 "C11-2": "accept() guards on application_state instead of client_state: raw receive() of the connect event followed by accept() swallows the next frame",
 "C12-1": "safe_decode validates the charset with codecs.lookup and only catches UnicodeError: multipart form with charset=hex/base64/rot13/zlib (codecs that are not text encodings)",
 "C12-2": "if_modified_since compares aware with naive datetimes: If-Modified-Since with zone -0000 / no zone / unknown zone on an existing file, no If-None-Match",
 "C13-1": "MutableHeaders.append writes the combined value straight into the dict: header already present, then append of a value with CR/LF/NUL",
 "C13-2": "cookie legal-token test uses ^...$ with match(): a cookie name/value of token characters followed by exactly one trailing LF",
 "C14-1": "If-None-Match members no longer stripped before the W/ test: weak tag as non-first list member after a comma plus blank",
 "C14-2": "If-None-Match OR If-Modified-Since again: both validators replayed after a same-second size-changing rewrite",
 "C15-1": "partial_boundary_re without end anchor: part content with a line that starts like the delimiter (nested multipart boundary extending the outer one) followed by megabytes",
 "C15-2": "async helper checks len(data) of the current field instead of the running total: >= 2 fields each within the limit whose sum exceeds it, async only",
 "C16-1": "Expires computed with local wall-clock arithmetic then converted: DST zone and an interval that crosses a DST switch",
 "C16-2": "two-pass request-side unquoting (octal first, then quoted pairs): a value with a literal backslash followed by three octal digits",
 "C17-1": "__setitem__ returns early when the value equals the current last value: key with >= 2 values assigned its last value",
 "C17-2": "constructor shares the source multi-mapping's pair list: build from another mapping, mutate one in place, look at the other",
 "C18-1": "replace() splits user info at the first @: URL whose password contains a raw @ and a replace of port/username/password without hostname",
 "C18-2": "SCRIPT_NAME left out of the Latin-1 -> UTF-8 round trip: non-ASCII root path on WSGI",
 "C19-1": "no-LF fast path in the SSE line splitter: data whose only line breaks are lone CRs",
 "C19-2": "asyncio.shield around q.get() in the ASGI SSE loop: an event after at least one keep-alive ping is handed to the orphaned getter and lost",
 "C20-1": "WSGI NextResponse accumulates Set-Cookie across start_response calls: inner app that restarts its response with exc_info",
 "C20-2": "ASGI NextResponse tests more_body is False: final body message that omits the optional more_body key",
}

def wave2_needs(sub="SEED2", offset=2):
    """Later waves: keys Cxx-3 / Cxx-4 come from /tmp/seed/Cxx/SEED2/{patch,demo,result}{1,2}, Cxx-5 / Cxx-6 from
    SEED3; the 'needs to manifest' text is the author's own paragraph from NOTES.md."""
    import re

    out = {}
    for i in range(1, 21):
        pid = f"C{i:02d}"
        p = f"/tmp/seed/{pid}/{sub}/NOTES.md"
        if not os.path.exists(p):
            continue
        secs = re.split(r"(?m)^## ", open(p).read())
        for n in (1, 2):
            sec = None
            for s_ in secs[1:]:
                if re.search(rf"patch{n}|[Cc]hange {n}\b", s_.splitlines()[0]):
                    sec = s_
                    break
            if sec is None and len(secs) > n:
                sec = secs[n]
            if sec is None:
                continue
            head = re.sub(r"\s+", " ", sec.splitlines()[0]).strip()
            m = re.search(r"(?is)(\**_?\*?(what (is|it) )?need(s|ed)?\b.*?)(\n\s*\n|\Z)", sec)
            need = re.sub(r"\s+", " ", m.group(1)).strip(" *_") if m else ""
            out[f"{pid}-{n + offset}"] = head + " :: " + need[:900]
    return out


def main():
    out_root = "/verif/seeded"
    os.makedirs(out_root, exist_ok=True)
    rows = []
    wave3 = "--wave3" in sys.argv
    wave2 = "--wave2" in sys.argv or wave3
    sub, offset = ("SEED3", 4) if wave3 else ("SEED2", 2)
    wave_no = 3 if wave3 else (2 if wave2 else 1)
    first_miss = set()
    if "--wave" in sys.argv:
        # generic form: --wave N --sub SEEDk --offset K [--first-miss C03-7,C09-7,...]
        wave_no = int(sys.argv[sys.argv.index("--wave") + 1])
        sub = sys.argv[sys.argv.index("--sub") + 1]
        offset = int(sys.argv[sys.argv.index("--offset") + 1])
        wave2 = True
        if "--first-miss" in sys.argv:
            first_miss = set(sys.argv[sys.argv.index("--first-miss") + 1].split(","))
    needs = wave2_needs(sub, offset) if wave2 else NEEDS
    NEEDS.update(needs)
    for key in sorted(needs):
        pid, n = key.split("-")
        src = f"/tmp/seed/{pid}/{sub}" if wave2 else f"/tmp/seed/{pid}/SEED"
        if wave2:
            n = str(int(n) - offset)
        res_path = f"{src}/result{n}.json"
        if not os.path.exists(res_path):
            print("missing", key); continue
        res = json.loads(open(res_path).read().strip().splitlines()[-1])
        d = f"{out_root}/{key}"
        os.makedirs(d, exist_ok=True)
        shutil.copy(f"{src}/patch{n}.diff", f"{d}/patch.diff")
        shutil.copy(f"{src}/demo{n}.py", f"{d}/demo.py")
        if os.path.exists(f"{src}/NOTES.md"):
            shutil.copy(f"{src}/NOTES.md", f"{d}/author_notes.md")
        meta = {
            "property": pid,
            "wave": wave_no,
            "missed_by_the_quick_tier_as_it_stood_before_this_wave": key in first_miss,
            "origin": "fresh sub-agent given only the property text and its own scratch worktree of /repo (nothing from /verif)",
            "needs_to_manifest": NEEDS[key],
            "what_was_run": [
                "tools/seedcheck.py: patch applied to a scratch export of /repo HEAD; pinned suite re-run there",
                "demo.py run in the author's scratch worktree on the clean tree and with the patch applied",
                f"quick tier of {', '.join(res.get('props', []))} against the patched export (VERIF_REPO)",
            ],
            "tests_still_77_passed": res.get("tests_ok"),
            "tests_tail": res.get("tests"),
            "demo_exit_clean": res.get("demo_clean"),
            "demo_exit_patched": res.get("demo_patched"),
            "demo_message": res.get("demo_msg"),
            "caught_by": res.get("caught_by"),
            "first_violation": {p: v.get("detail") for p, v in res.get("checks", {}).items()},
            "repo_head_when_checked": os.popen("git -C /repo rev-parse --short HEAD").read().strip(),
        }
        json.dump(meta, open(f"{d}/meta.json", "w"), indent=1)
        rows.append((key, meta["tests_still_77_passed"], meta["demo_exit_clean"], meta["demo_exit_patched"], meta["caught_by"]))
    for r in rows:
        print(*r)

if __name__ == "__main__":
    main()
