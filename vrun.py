#!/venv/bin/python
"""Runner:  /venv/bin/python /verif/vrun.py <property id> [--tier quick|thorough] [--replay file]

exit 0  property held on everything explored (KNOWN-FINDING lines allowed)
exit 1  at least one `VIOLATION property=<id> replay=<path>` line was printed
exit 2  harness error (import failure, generator health check, internal error)
"""
from __future__ import annotations

import argparse
import importlib
import json
import os
import sys
import traceback

VERIF = os.path.dirname(os.path.abspath(__file__))
REPO = os.environ.get("VERIF_REPO", "/repo")


def _reexec_if_needed() -> None:
    if os.environ.get("PYTHONHASHSEED") != "0" or os.environ.get("BAIZE_VERIF") != "1":
        env = dict(os.environ)
        env["PYTHONHASHSEED"] = "0"
        env["BAIZE_VERIF"] = "1"
        env.setdefault("PYTHONDONTWRITEBYTECODE", "1")
        env["TZ"] = env.get("VERIF_TZ", "UTC")
        os.execve(sys.executable, [sys.executable, "-u"] + sys.argv, env)


def main() -> int:
    ap = argparse.ArgumentParser()
    ap.add_argument("pid")
    ap.add_argument("--tier", default=os.environ.get("VERIF_TIER", "quick"), choices=["quick", "thorough"])
    ap.add_argument("--replay", default=None)
    ap.add_argument("--only", default=None, help="comma-separated sub-check names (debugging)")
    args = ap.parse_args()
    try:
        seed = int(os.environ.get("VERIF_SEED", "1") or "1")
    except ValueError:
        seed = 1

    deps = os.path.join(VERIF, ".deps")
    sys.path[:0] = [REPO, VERIF] + ([deps] if os.path.isdir(deps) else [])
    sys.setrecursionlimit(3000)

    from harness import core

    try:
        # process-wide instruments must be in place before baize is imported
        from harness import vfs

        vfs.install()
        import baize

        if not os.path.abspath(baize.__file__).startswith(os.path.abspath(REPO) + os.sep):
            raise core.HarnessError(f"baize imported from {baize.__file__}, expected under {REPO}")
        mod = importlib.import_module(f"checks.{args.pid}")
    except Exception:  # noqa: BLE001
        traceback.print_exc()
        print(f"HARNESS-ERROR property={args.pid} import failed")
        return 2

    rec = core.Recorder(args.pid, args.tier, seed, getattr(mod, "LEVEL", "exploration"))
    rec.rules.update(getattr(mod, "RULES", {}))
    rec.assumptions.extend(getattr(mod, "ASSUMPTIONS", []))
    try:
        if args.replay:
            return replay_file(rec, mod, args.replay)
        only = set(args.only.split(",")) if args.only else None
        rec.only = only
        replay_saved(rec, mod)
        mod.run(rec, only) if only else mod.run(rec)
        return rec.finish()
    except core.HarnessError as exc:
        print(f"HARNESS-ERROR property={args.pid} {exc}")
        return 2
    except Exception:  # noqa: BLE001
        traceback.print_exc()
        print(f"HARNESS-ERROR property={args.pid} internal error")
        return 2


def replay_file(rec, mod, path: str) -> int:
    from harness import core

    doc = json.load(open(path, encoding="utf-8"))
    sub = doc["sub"]
    oracle = core.guarded(mod.SUBS[sub])
    case = core.from_jsonable(doc["case"])
    res = oracle(case)
    new, old = rec.split(res)
    for f in old:
        print(f"KNOWN-FINDING: property={rec.pid} key={f.bucket} {rec.known.get(f.bucket, '')}")
    for f in new:
        print(f"VIOLATION property={rec.pid} replay={os.path.abspath(path)}")
        print(f"  sub={sub} bucket={f.bucket}\n  {f.msg}")
    if not res.failures:
        print(f"replay passes: property={rec.pid} sub={sub}")
    return 1 if new else 0


def replay_saved(rec, mod) -> None:
    """Seconds-long replay tier: every committed replay file of this property is re-run through
    its oracle.  Files with expect=pass are regressions of repaired defects / killed mutants and
    must pass; files with expect=known must still hit their known-finding bucket (a note is
    printed if they no longer do — that is not a violation)."""
    from harness import core

    d = os.path.join(VERIF, "replays", rec.pid)
    if not os.path.isdir(d):
        return
    for name in sorted(os.listdir(d)):
        if not name.endswith(".json") or name.startswith("viol-"):
            continue
        doc = json.load(open(os.path.join(d, name), encoding="utf-8"))
        sub = doc.get("sub")
        if sub not in mod.SUBS:
            continue
        case = core.from_jsonable(doc["case"])
        res = core.guarded(mod.SUBS[sub])(case)
        rec.count("replay:" + sub, case, res, want_sample=False)
        new, old = rec.split(res)
        rec.note_known(old)
        if doc.get("expect") == "known" and not old and not new:
            print(f"note: known-finding replay {name} no longer reproduces")
        for f in new:
            rec.add_violation(sub, f, case)
            rec.skip.add(f.bucket)


if __name__ == "__main__":
    _reexec_if_needed()
    code = 2
    try:
        code = main()
    except SystemExit as exc:
        code = exc.code if isinstance(exc.code, int) else 2
    except BaseException:  # noqa: BLE001 - never end without a message: a silent exit 2 hides what happened
        import traceback

        print("HARNESS-ERROR " + traceback.format_exc()[-3000:], flush=True)
        code = 2
    finally:
        try:
            from harness import tmpfiles

            tmpfiles.cleanup()
        except Exception:  # noqa: BLE001
            pass
        sys.stdout.flush()
        sys.stderr.flush()
        os._exit(code)
