"""C01 - Multipart decoding is exact and independent of how the body is chunked."""
from __future__ import annotations

import itertools

from hypothesis import strategies as st

import baize.asgi as basgi
import baize.wsgi as bwsgi
from baize.datastructures import UploadFile
from baize.multipart import Data, Epilogue, Field, File, MultipartDecoder, NeedData, Preamble
from baize.multipart_helper import parse_async_stream, parse_stream

from harness import core, gateways as gw, gen
from harness.core import Result
from harness.refs import multipart as ref

LEVEL = "exploration"
RULES = {
    "atheris": "thorough tier: Atheris/libFuzzer coverage-guided campaign; bytes are decoded into the same structured case and judged by the same oracle inside the target (half of the jobs start from an empty corpus, half from two small valid inputs)",
    "forms": "Hypothesis: forms (RFC 2046 boundaries biased to 1-4 chars, 0..6 field/file parts, hostile content built from CR, LF, "
    "dashes, proper prefixes of CRLF--boundary and look-alike boundaries, optional preamble/epilogue/transport padding, 3 charsets) "
    "x partitions {whole, one byte at a time, EVERY single cut, pairs of cuts at offsets around delimiters and CR/LF, a drawn "
    "multi-cut list with empty chunks} x 5 observers (event-level decoder, parse_stream, parse_async_stream, wsgi form, asgi form); "
    "evaluations counts (form, partition, observer) runs; non-trivial = a form with a part whose content contains CR/LF or a proper "
    "prefix of the delimiter (every such form is cut inside each delimiter and after each CR by the single-cut class)",
    "tiny": "exhaustive: ALL 2^(n-1) partitions of tiny bodies (n <= 13 after the fixed header block is treated as one atom) for a set "
    "of hand-picked hostile contents",
}
ASSUMPTIONS = [
    "Epilogue.data may start with the line break that followed the close delimiter; how Data events are split is free",
    "names/filenames contain no quote, backslash or line break; charsets are ASCII-compatible; folded header lines use a space",
]


def drive(coro):
    """Run a coroutine that never really suspends."""
    try:
        coro.send(None)
    except StopIteration as e:
        return e.value
    raise core.HarnessError("coroutine suspended in a loop-less drive")


def norm_items(items):
    out = []
    for name, val in items:
        if isinstance(val, str):
            out.append(("field", name, val))
        else:
            hdrs = {k.lower(): v for k, v in val.headers.items()}
            out.append(("file", name, val.filename, hdrs, val.content_type, val.read()))
            val.close()
    return out


def observe_events(form, chunks):
    """Observer 1: event-level decoder."""
    dec = MultipartDecoder(form["boundary"].encode("ascii"), form["charset"])
    events = []

    def drain():
        while True:
            ev = dec.next_event()
            if isinstance(ev, NeedData):
                return False
            events.append(ev)
            if isinstance(ev, Epilogue):
                return True

    done = False
    for c in chunks:
        dec.receive_data(c)
        if not done:
            done = drain()
    if not done:
        dec.receive_data(None)
        done = drain()
    return events


def items_from_events(form, events):
    """-> (preamble, items, epilogue, problems)"""
    problems = []
    cs = form["charset"]
    if not events or not isinstance(events[0], Preamble):
        problems.append("first event is not Preamble")
        return None, [], None, problems
    if not isinstance(events[-1], Epilogue):
        problems.append("last event is not Epilogue")
    items = []
    cur = None
    for ev in events[1:]:
        if isinstance(ev, (Field, File)):
            if cur is not None:
                problems.append("part started before the previous one ended")
            cur = [ev, bytearray()]
        elif isinstance(ev, Data):
            if cur is None:
                problems.append("Data outside a part")
                continue
            cur[1] += ev.data
            if not ev.more_data:
                head, data = cur
                if isinstance(head, Field):
                    items.append(("field", head.name, bytes(data).decode(cs)))
                else:
                    hdrs = {k.lower(): v for k, v in head.headers.items()}
                    items.append(("file", head.name, head.filename, hdrs, hdrs.get("content-type", ""), bytes(data)))
                cur = None
        elif isinstance(ev, Epilogue):
            if cur is not None:
                problems.append("Epilogue inside a part")
        elif isinstance(ev, Preamble):
            problems.append("second Preamble")
    epi = events[-1].data if isinstance(events[-1], Epilogue) else None
    return events[0].data, items, epi, problems


def content_type_header(form):
    b = form["boundary"]
    needs_quote = any(ch in b for ch in " ()/:=?,'") or True
    val = f'multipart/form-data; boundary="{b}"' if needs_quote else f"multipart/form-data; boundary={b}"
    if form["charset"] != "utf-8":
        val += f"; charset={form['charset']}"
    return val


def observe(form, body, chunks, which):
    boundary = form["boundary"].encode("ascii")
    cs = form["charset"]
    if which == "events":
        return observe_events(form, chunks)
    if which == "sync":
        return norm_items(parse_stream(iter(chunks), boundary, cs, file_factory=UploadFile))
    if which == "async":

        async def stream():
            for c in chunks:
                yield c

        return norm_items(drive(parse_async_stream(stream(), boundary, cs, file_factory=UploadFile)))
    rq = gw.areq(method="POST", headers=[["Content-Type", content_type_header(form)], ["Content-Length", str(len(body))]], body=chunks)
    if which == "wsgi":
        req = bwsgi.Request(gw.make_environ(rq))
        form_data = req.form
        return norm_items(form_data.multi_items())
    if which == "asgi":

        async def go():
            script = [{"type": "http.request", "body": c, "more_body": i < len(chunks) - 1} for i, c in enumerate(chunks)] or [
                {"type": "http.request", "body": b"", "more_body": False}
            ]
            pos = 0

            async def receive():
                nonlocal pos
                if pos >= len(script):
                    raise gw.ExtraReceive("receive() after the final message")
                m = script[pos]
                pos += 1
                return dict(m)

            req = basgi.Request(gw.make_scope(rq), receive)
            form_data = await req.form
            return form_data.multi_items()

        return norm_items(gw.run_sync(go()))
    raise core.HarnessError(which)


def partitions_for(form, body, drawn_cuts):
    """(label, cuts) pairs; cheap observers get all of them, expensive ones a subset."""
    n = len(body)
    boundary = form["boundary"].encode("ascii")
    yield "whole", []
    if n <= 600:
        yield "bytewise", list(range(1, n))
    for c in range(1, n):
        yield "single", [c]
    offs = ref.interesting_offsets(body, boundary)
    if len(offs) > 24:
        step = len(offs) / 24.0
        offs = sorted({offs[int(i * step)] for i in range(24)})
    for a, b in itertools.combinations(offs, 2):
        yield "pair", [a, b]
    cuts = sorted(min(c, n) for c in drawn_cuts)
    yield "drawn", cuts


def check_one(r, form, body, expected, label, cuts, which):
    chunks = ref.chunks_from_cuts(body, cuts)
    if which == "wsgi":
        chunks = [c for c in chunks if c]  # an empty read means EOF on wsgi.input
    try:
        obs = observe(form, body, chunks, which)
    except core.HarnessError:
        raise
    except Exception as exc:  # noqa: BLE001
        r.fail(
            f"C01:{which}:raised:{type(exc).__name__}",
            f"boundary {form['boundary']!r} body {body!r} cuts {cuts[:12]!r} ({label}): {type(exc).__name__}: {exc}",
        )
        return False
    if which == "events":
        pre, items, epi, problems = items_from_events(form, obs)
        for p in problems:
            r.fail("C01:events:sequence", f"body {body!r} cuts {cuts[:12]!r} ({label}): {p}")
        want_pre = form["preamble"] if form["preamble"] is not None else b""
        if not problems and pre != want_pre:
            r.fail("C01:events:preamble", f"body {body!r} cuts {cuts[:12]!r} ({label}): Preamble {pre!r}, expected {want_pre!r}")
        want_epi = form["epilogue"] if form["epilogue"] is not None else b""
        # the epilogue is not a part: transport padding / the line break after the close delimiter may
        # end up in front of it, depending on where the cuts fall
        if not problems and not (epi is not None and epi.endswith(want_epi) and epi[: len(epi) - len(want_epi)].strip(b" \t\r\n") == b""):
            r.fail("C01:events:epilogue", f"body {body!r} cuts {cuts[:12]!r} ({label}): Epilogue {epi!r}, expected {want_epi!r}")
    else:
        items = obs
    if items != expected:
        # name the first difference
        diff = "length"
        for i, (a, b) in enumerate(zip(items, expected)):
            if a != b:
                diff = f"item {i}: got {a!r}, expected {b!r}"
                break
        else:
            diff = f"{len(items)} items, expected {len(expected)}"
        kind = "content"
        r.fail(
            f"C01:{which}:{kind}",
            f"boundary {form['boundary']!r} charset {form['charset']} cuts {cuts[:12]!r} ({label}): {diff}; body {body!r}",
        )
        return False
    return True


def oracle(case) -> Result:
    r = Result()
    form = case["form"]
    body = ref.encode(form)
    expected = ref.expected_items(form)
    runs = 0
    budget_expensive = {"whole", "bytewise", "drawn"}
    singles_for_expensive = set(ref.interesting_offsets(body, form["boundary"].encode("ascii"))[:: max(1, len(body) // 40)][:6])
    for label, cuts in partitions_for(form, body, case.get("cuts", [])):
        observers = ["events", "sync"]
        if label in budget_expensive or (label == "single" and cuts[0] in singles_for_expensive):
            observers += ["async", "wsgi", "asgi"]
        elif label == "single" and cuts[0] % 7 == 0:
            observers += ["async"]
        for which in observers:
            runs += 1
            ok = check_one(r, form, body, expected, label, cuts, which)
            if not ok and len(r.failures) >= 3:
                break
        if len(r.failures) >= 3:
            break
    r.weight = runs
    delim = b"\r\n--" + form["boundary"].encode("ascii")
    prefixes = [delim[:i] for i in range(2, len(delim))]
    hostile = False
    for p in form["parts"]:
        c = p["content"]
        if b"\r" in c or b"\n" in c or any(pre in c for pre in prefixes):
            hostile = True
        if c.endswith(b"\r"):
            r.label("content-ends-with-CR")
        if c.endswith(b"\r\n"):
            r.label("content-ends-with-CRLF")
        if b"--" + form["boundary"].encode("ascii")[:-1] in c:
            r.label("lookalike-boundary")
    kinds = {"file" if p.get("filename") is not None else "field" for p in form["parts"]}
    r.label(f"parts={len(form['parts'])}", "mix" if len(kinds) == 2 else (next(iter(kinds)) if kinds else "empty-form"))
    if form["preamble"] is not None:
        r.label("preamble")
    if form["epilogue"] is not None:
        r.label("epilogue")
    if form["padding"]:
        r.label("transport-padding")
    if case.get("cuts") and len(set(case["cuts"])) < len(case["cuts"]):
        r.label("empty-chunk")
    r.label(f"charset={form['charset']}", f"blen={min(len(form['boundary']), 5)}")
    r.nontrivial = hostile
    if hostile:
        r.label("hostile-content")
    return r


def oracle_tiny(case) -> Result:
    """All 2^(n-1) partitions of a tiny body; the fixed header block is one atom."""
    r = Result()
    form = case["form"]
    body = ref.encode(form)
    expected = ref.expected_items(form)
    # atoms: header blocks are not cut
    marks = []
    pos = 0
    atoms = []
    bnd = form["boundary"].encode("ascii")
    idx = 0
    hdr_spans = []
    for part in form["parts"]:
        hb = ref.part_header_block(part, form["charset"])
        at = body.find(hb, idx)
        hdr_spans.append((at, at + len(hb)))
        idx = at + len(hb)
    allowed = [i for i in range(1, len(body)) if not any(s < i < e for s, e in hdr_spans)]
    if len(allowed) > case.get("max_bits", 13):
        allowed = allowed[-case.get("max_bits", 13):]
    runs = 0
    for mask in range(1 << len(allowed)):
        cuts = [allowed[i] for i in range(len(allowed)) if mask >> i & 1]
        for which in ("events", "sync"):
            runs += 1
            check_one(r, form, body, expected, "all-partitions", cuts, which)
        if r.failures:
            break
    r.weight = runs
    r.nontrivial = True
    r.label(f"bits={len(allowed)}")
    _ = (marks, pos, atoms, bnd)
    return r


SUBS = {"forms": oracle, "tiny": oracle_tiny}


def form_case():
    return st.fixed_dictionaries({"form": gen.forms(max_parts=5, max_pieces=6), "cuts": gen.cut_lists(300)})


def tiny_cases():
    contents = [b"", b"\r", b"\n", b"\r\n", b"\r\n-", b"\r\n--", b"\r\n--b", b"--", b"-\r", b"a\r\n--bX", b"\r\r\n", b"\n\r\n--", b"x\r\n--b-", b"\r\n--a\r"]
    for b in ("b", "bZ"):
        for c in contents:
            if ("--" + b).encode() in c:
                continue
            for fname in (None, "f"):
                yield {"form": {"boundary": b, "charset": "utf-8", "preamble": None, "epilogue": None, "padding": b"",
                                "parts": [{"name": "n", "filename": fname, "headers": [], "content": c}]}, "max_bits": 12}



def oracle_atheris(case) -> Result:
    """Replay / triage oracle for inputs found by the Atheris campaign: decode the bytes like the fuzz target does."""
    from fuzz import targets

    inner = targets.CASES["C01"](case["data"])
    res = oracle(inner)
    res.label("atheris")
    return res


SUBS["atheris"] = oracle_atheris

def run(rec, only=None):
    quick = rec.tier == "quick"
    cases = list(tiny_cases())
    if quick:
        cases = cases[::3]
    core.drive_cases(rec, "tiny", cases, oracle_tiny)
    rec.exhaustive["tiny"] = True
    core.drive_hypothesis(rec, "forms", form_case(), oracle, 250 if quick else 6000)
    rec.exhaustive["forms"] = False
    if not quick:
        # coverage-guided second engine (Atheris / libFuzzer), same oracle inside the target
        from fuzz import driver

        driver.campaign(rec, "C01", oracle_atheris, runs=6000, seeds=[b'\x00\x00\x02\x05hello\x03\x00\x01\x02\x00\x00\x01\x09', b''], max_total_time=420, jobs=8)
