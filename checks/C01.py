"""C01 - Multipart decoding is exact and independent of how the body is chunked."""
from __future__ import annotations

import itertools

from hypothesis import strategies as st

import baize.asgi as basgi
import baize.wsgi as bwsgi
from baize.datastructures import UploadFile
from baize.multipart import Data, Epilogue, Field, File, MultipartDecoder, NeedData, Preamble
from baize.multipart_helper import parse_async_stream, parse_stream

from harness import core, gateways as gw, gen, x_c01 as x
from harness.core import Result
from harness.refs import multipart as ref

LEVEL = "exploration"
RULES = {
    "atheris": "thorough tier: Atheris/libFuzzer coverage-guided campaign; bytes are decoded into the same structured case and judged by the same oracle inside the target (half of the jobs start from an empty corpus, half from two small valid inputs)",
    "forms": "Hypothesis: forms (RFC 2046 boundaries biased to 1-4 chars, 0..6 field/file parts, hostile content built from CR, LF, "
    "dashes, proper prefixes of CRLF--boundary and look-alike boundaries, optional preamble/epilogue/transport padding, 3 charsets) "
    "x partitions {whole, one byte at a time, EVERY single cut, pairs of cuts at offsets around delimiters and CR/LF, a drawn "
    "multi-cut list with empty chunks} x 5 observers (event-level decoder, parse_stream, parse_async_stream, wsgi form, asgi form); "
    "evaluations counts (form, partition, observer) runs; non-trivial = a form with a part whose content contains CR/LF or a proper "
    "prefix of the delimiter (every such form is cut inside each delimiter and after each CR by the single-cut class)",
    "tiny": "exhaustive: ALL 2^(n-1) partitions of tiny bodies (n <= 13 after the fixed header block is treated as one atom) for a set "
    "of hand-picked hostile contents",
    "syntax": "enumerated: the same three-part form written in every equally well-formed spelling of the part headers (no blank / two blanks / "
    "tab after ';' and ':', upper-case and title-case parameter names and disposition type, filename before name, token instead of "
    "quoted values, further disposition parameters, Content-Disposition not the first header line, header lines folded with blank, tab, "
    "several blanks, several folds), 22 special names/filenames (upper case, slashes, decomposed and compatibility characters, the "
    "delimiter text itself, NUL, 5 000 and 70 000 characters), 8 spellings of the request Content-Type x 3 charsets x 3 boundaries, and "
    "request variants (Content-Length present / absent / chunked transfer, request.body read before request.form, ASGI messages without "
    "the optional keys) x {whole, bytewise, 3- and 7-byte chunks, every single cut inside a header block} x the observers",
    "align": "enumerated: boundary length 1..70 (quick: 18 lengths incl. 60..70) x 2-4 alphabets x transport padding of 0, 1, 5, 9, 17 blanks/tabs "
    "x content that ends in the delimiter minus its last byte / plain / look-alike lines; cut at EVERY offset within 3 bytes of a "
    "delimiter, adjacent pairs of such cuts, bytewise and whole",
    "big": "enumerated: bodies of 80 KiB .. 2 MiB (a delimiter followed by more than 64 KiB of another part in one chunk, text fields of 600 kB "
    "and 1.2 MB, files larger than the 1 MiB in-memory limit of the upload file with hostile pieces around the limit) x {whole, 64 KiB, "
    "odd sizes, cuts around the limit} x 5 observers (the async ones on a real event loop, because a rolled-over file is written in a thread)",
}
ASSUMPTIONS = [
    "Epilogue.data may start with the line break that followed the close delimiter; how Data events are split is free",
    "names/filenames contain no quote, backslash or line break; charsets are ASCII-compatible",
    "a folded header line denotes white space: header values are compared after unfolding with every run of blanks/tabs reduced to one blank",
    "forms have at most a few parts (the default max_form_parts of the helpers is 324: larger forms belong to C15)",
]


def drive(coro):
    """Run a coroutine that never really suspends."""
    try:
        coro.send(None)
    except StopIteration as e:
        return e.value
    raise core.HarnessError("coroutine suspended in a loop-less drive")


def norm_items(items):
    out = []
    for name, val in items:
        if isinstance(val, str):
            out.append(("field", name, val))
        else:
            hdrs = {k.lower(): v for k, v in val.headers.items()}
            out.append(("file", name, val.filename, hdrs, val.content_type, val.read()))
            val.close()
    return out


def observe_events(form, chunks, mode="drain"):
    """Observer 1: event-level decoder.  mode: drain = events drained after each chunk; lazy = every chunk and the
    end-of-input mark are handed over before the first event is asked for; step = ONE next_event() call per chunk,
    the rest is drained at the end."""
    dec = MultipartDecoder(form["boundary"].encode("ascii"), form["charset"])
    events = []

    def drain():
        while True:
            ev = dec.next_event()
            if isinstance(ev, NeedData):
                return False
            events.append(ev)
            if isinstance(ev, Epilogue):
                return True

    done = False
    for c in chunks:
        dec.receive_data(c)
        if done or mode == "lazy":
            continue
        if mode == "step":
            ev = dec.next_event()
            if not isinstance(ev, NeedData):
                events.append(ev)
                done = isinstance(ev, Epilogue)
        else:
            done = drain()
    if not done:
        dec.receive_data(None)
        done = drain()
    return events


def items_from_events(form, events):
    """-> (preamble, items, epilogue, problems)"""
    problems = []
    cs = form["charset"]
    if not events or not isinstance(events[0], Preamble):
        problems.append("first event is not Preamble")
        return None, [], None, problems
    if not isinstance(events[-1], Epilogue):
        problems.append("last event is not Epilogue")
    items = []
    cur = None
    for ev in events[1:]:
        if isinstance(ev, (Field, File)):
            if cur is not None:
                problems.append("part started before the previous one ended")
            cur = [ev, bytearray()]
        elif isinstance(ev, Data):
            if cur is None:
                problems.append("Data outside a part")
                continue
            cur[1] += ev.data
            if not ev.more_data:
                head, data = cur
                if isinstance(head, Field):
                    try:
                        text = bytes(data).decode(cs)
                    except UnicodeDecodeError:  # e.g. a file part announced as a field: keep the bytes, they equal no expected text
                        text = bytes(data)
                    items.append(("field", head.name, text))
                else:
                    hdrs = {k.lower(): v for k, v in head.headers.items()}
                    items.append(("file", head.name, head.filename, hdrs, hdrs.get("content-type", ""), bytes(data)))
                cur = None
        elif isinstance(ev, Epilogue):
            if cur is not None:
                problems.append("Epilogue inside a part")
        elif isinstance(ev, Preamble):
            problems.append("second Preamble")
    epi = events[-1].data if isinstance(events[-1], Epilogue) else None
    return events[0].data, items, epi, problems


def observe(form, body, chunks, which, rq=None, real_loop=False):
    """rq (request-level observers only): {"ct": spelling of the Content-Type header, "length": present|absent|chunked,
    "body_first": request.body is read before request.form, "asgi_keys": full|minimal (optional message keys left out)}."""
    boundary = form["boundary"].encode("ascii")
    cs = form["charset"]
    rq = rq or {}
    if which == "events":
        return observe_events(form, chunks)
    if which == "events-lazy":
        return observe_events(form, chunks, "lazy")
    if which == "events-step":
        return observe_events(form, chunks, "step")
    if which == "sync":
        return norm_items(parse_stream(iter(chunks), boundary, cs, file_factory=UploadFile))
    if which == "async":

        async def stream():
            for c in chunks:
                yield c

        coro = parse_async_stream(stream(), boundary, cs, file_factory=UploadFile)
        # an upload file that has rolled over to disk is written in a worker thread: that needs a running loop
        return norm_items(gw.run_sync(coro, 600.0) if real_loop else drive(coro))
    rqd = gw.areq(method="POST", headers=x.request_headers(form, len(body), rq), body=chunks)
    if which == "wsgi":
        req = bwsgi.Request(gw.make_environ(rqd))
        if rq.get("body_first"):
            req.body
        form_data = req.form
        return norm_items(form_data.multi_items())
    if which == "asgi":
        minimal = rq.get("asgi_keys") == "minimal"

        async def go():
            script = []
            for i, c in enumerate(chunks):
                m = {"type": "http.request"}
                last = i == len(chunks) - 1
                if c or not minimal:
                    m["body"] = c
                if not last:
                    m["more_body"] = True
                elif not minimal:
                    m["more_body"] = False
                script.append(m)
            if not script:
                script = [{"type": "http.request"} if minimal else {"type": "http.request", "body": b"", "more_body": False}]
            pos = 0

            async def receive():
                nonlocal pos
                if pos >= len(script):
                    raise gw.ExtraReceive("receive() after the final message")
                m = script[pos]
                pos += 1
                return dict(m)

            req = basgi.Request(gw.make_scope(rqd), receive)
            if rq.get("body_first"):
                await req.body
            form_data = await req.form
            return form_data.multi_items()

        return norm_items(gw.run_sync(go(), 600.0))
    raise core.HarnessError(which)


def partitions_for(form, body, drawn_cuts):
    """(label, cuts) pairs; cheap observers get all of them, expensive ones a subset."""
    n = len(body)
    boundary = form["boundary"].encode("ascii")
    yield "whole", []
    if n <= 600:
        yield "bytewise", list(range(1, n))
    for c in range(1, n):
        yield "single", [c]
    offs = ref.interesting_offsets(body, boundary)
    if len(offs) > 24:
        step = len(offs) / 24.0
        offs = sorted({offs[int(i * step)] for i in range(24)})
    for a, b in itertools.combinations(offs, 2):
        yield "pair", [a, b]
    if n <= 2000:
        yield "uniform", list(range(3, n, 3))
    cuts = sorted(min(c, n) for c in drawn_cuts)
    yield "drawn", cuts


def _short(body):
    return repr(body) if len(body) <= 1200 else f"{body[:500]!r} ... ({len(body)} bytes) ... {body[-300:]!r}"


def check_one(r, form, body, expected, label, cuts, which, rq=None, real_loop=False, ctx=None):
    chunks = ref.chunks_from_cuts(body, cuts)
    if which == "wsgi":
        chunks = [c for c in chunks if c]  # an empty read means EOF on wsgi.input
    what = which + ("" if not rq else "+" + ",".join(f"{k}={v}" for k, v in sorted(rq.items())))
    ctx = ctx if ctx is not None else f"body {_short(body)}"
    try:
        obs = observe(form, body, chunks, which, rq, real_loop)
    except core.HarnessError:
        raise
    except Exception as exc:  # noqa: BLE001
        r.fail(
            f"C01:{which}:raised:{type(exc).__name__}",
            f"boundary {form['boundary']!r} {ctx} cuts {cuts[:12]!r} ({label}, {what}): {type(exc).__name__}: {exc}",
        )
        return False
    if which.startswith("events"):
        pre, items, epi, problems = items_from_events(form, obs)
        for p in problems:
            r.fail("C01:events:sequence", f"{ctx} cuts {cuts[:12]!r} ({label}, {what}): {p}")
        want_pre = form["preamble"] if form["preamble"] is not None else b""
        if not problems and pre != want_pre:
            r.fail("C01:events:preamble", f"{ctx} cuts {cuts[:12]!r} ({label}, {what}): Preamble {pre!r}, expected {want_pre!r}")
        want_epi = form["epilogue"] if form["epilogue"] is not None else b""
        # the epilogue is not a part: transport padding / the line break after the close delimiter may
        # end up in front of it, depending on where the cuts fall
        if not problems and not (epi is not None and epi.endswith(want_epi) and epi[: len(epi) - len(want_epi)].strip(b" \t\r\n") == b""):
            r.fail("C01:events:epilogue", f"{ctx} cuts {cuts[:12]!r} ({label}, {what}): Epilogue {epi!r}, expected {want_epi!r}")
    else:
        items = obs
    items = x.canon_items(items)
    if items != expected:
        # name the first difference
        diff = "length"
        for i, (a, b) in enumerate(zip(items, expected)):
            if a != b:
                diff = f"item {i}: got {_brief(a)}, expected {_brief(b)}"
                break
        else:
            diff = f"{len(items)} items, expected {len(expected)}"
        kind = "content"
        r.fail(
            f"C01:{which}:{kind}",
            f"boundary {form['boundary']!r} charset {form['charset']} cuts {cuts[:12]!r} ({label}, {what}): {diff}; {ctx}",
        )
        return False
    return True


def _brief(item):
    """An item with over-long strings / byte strings abbreviated (where they first differ is what matters)."""

    def cut(v):
        if isinstance(v, (bytes, str)) and len(v) > 300:
            return v[:120] + (b" ... " if isinstance(v, bytes) else " ... ") + v[-120:]
        if isinstance(v, dict):
            return {k: cut(w) for k, w in v.items()}
        return v

    return repr(tuple(cut(v) for v in item)) + (f" (lengths {[len(v) for v in item if isinstance(v, (bytes, str))]})" if any(isinstance(v, (bytes, str)) and len(v) > 300 for v in item) else "")


# request-level variants that every form is run through once (whole body): the way the length is announced, reading
# request.body before request.form, ASGI messages that leave out their optional keys
WSGI_MODES = [{"length": "absent"}, {"length": "chunked"}, {"body_first": True}]
ASGI_MODES = [{"asgi_keys": "minimal"}, {"body_first": True}, {"length": "absent", "asgi_keys": "minimal"}]


def oracle(case) -> Result:
    r = Result()
    form = case["form"]
    rq = case.get("rq") or None
    body = x.encode(form)
    expected = x.expected_items(form)
    runs = 0
    budget_expensive = {"whole", "bytewise", "drawn"}
    singles_for_expensive = set(ref.interesting_offsets(body, form["boundary"].encode("ascii"))[:: max(1, len(body) // 40)][:6])
    for label, cuts in partitions_for(form, body, case.get("cuts", [])):
        observers = [("events", None), ("sync", None)]
        if label in budget_expensive or (label == "single" and cuts[0] in singles_for_expensive):
            observers += [("async", None), ("wsgi", rq), ("asgi", rq)]
        elif label == "single" and cuts[0] % 7 == 0:
            observers += [("async", None)]
        elif label == "uniform":
            observers += [("async", None)]
        if label in ("bytewise", "drawn"):
            observers += [("events-lazy", None), ("events-step", None)]
        if label == "whole":
            observers += [("wsgi", dict(rq or {}, **m)) for m in WSGI_MODES] + [("asgi", dict(rq or {}, **m)) for m in ASGI_MODES]
        for which, orq in observers:
            runs += 1
            ok = check_one(r, form, body, expected, label, cuts, which, orq)
            if not ok and len(r.failures) >= 3:
                break
        if len(r.failures) >= 3:
            break
    r.weight = runs
    delim = b"\r\n--" + form["boundary"].encode("ascii")
    prefixes = [delim[:i] for i in range(2, len(delim))]
    hostile = False
    for p in form["parts"]:
        c = p["content"]
        if b"\r" in c or b"\n" in c or any(pre in c for pre in prefixes):
            hostile = True
        if c.endswith(b"\r"):
            r.label("content-ends-with-CR")
        if c.endswith(b"\r\n"):
            r.label("content-ends-with-CRLF")
        if b"--" + form["boundary"].encode("ascii")[:-1] in c:
            r.label("lookalike-boundary")
        if p.get("sx"):
            r.label("alternative-header-spelling")
    kinds = {"file" if p.get("filename") is not None else "field" for p in form["parts"]}
    r.label(f"parts={len(form['parts'])}", "mix" if len(kinds) == 2 else (next(iter(kinds)) if kinds else "empty-form"))
    if form["preamble"] is not None:
        r.label("preamble")
    if form["epilogue"] is not None:
        r.label("epilogue")
    if form["padding"]:
        r.label("transport-padding")
    if case.get("cuts") and len(set(case["cuts"])) < len(case["cuts"]):
        r.label("empty-chunk")
    if rq:
        r.label("request-variant")
    r.label(f"charset={form['charset']}", f"blen={min(len(form['boundary']), 5)}")
    r.nontrivial = hostile
    if hostile:
        r.label("hostile-content")
    return r


def oracle_tiny(case) -> Result:
    """All 2^(n-1) partitions of a tiny body; the fixed header block is one atom."""
    r = Result()
    form = case["form"]
    body = x.encode(form)
    expected = x.expected_items(form)
    # atoms: header blocks are not cut
    hdr_spans = x.header_spans(form, body)
    allowed = [i for i in range(1, len(body)) if not any(s < i < e for s, e in hdr_spans)]
    if len(allowed) > case.get("max_bits", 13):
        allowed = allowed[-case.get("max_bits", 13):]
    runs = 0
    for mask in range(1 << len(allowed)):
        cuts = [allowed[i] for i in range(len(allowed)) if mask >> i & 1]
        for which in ("events", "sync"):
            runs += 1
            check_one(r, form, body, expected, "all-partitions", cuts, which)
        if r.failures:
            break
    r.weight = runs
    r.nontrivial = True
    r.label(f"bits={len(allowed)}")
    return r


ALL_OBSERVERS = ["events", "events-lazy", "events-step", "sync", "async", "wsgi", "asgi"]


def oracle_syntax(case) -> Result:
    """One form in one (well-formed) spelling of its part headers / of the request: the result must be the encoded
    parts, however the body is cut - in particular inside the header blocks, where the spelling lives."""
    r = Result()
    form = case["form"]
    rq = case.get("rq") or None
    body = x.encode(form)
    expected = x.expected_items(form)
    n = len(body)
    runs = 0
    parts = [("whole", [])]
    if n <= 1500:
        parts += [("bytewise", list(range(1, n))), ("uniform", list(range(3, n, 3))), ("uniform", list(range(7, n, 7)))]
    else:  # a very long name: the header block spans several 4 KiB chunks / one 64 KiB read
        parts += [("uniform", list(range(4096, n, 4096))), ("uniform", list(range(65536, n, 65536)))]
    for label, cuts in parts:
        for which in ALL_OBSERVERS if rq is None else ("sync", "wsgi", "asgi"):  # a request variant concerns the request-level observers
            if rq is None and label in ("bytewise", "uniform") and which in ("wsgi", "events-lazy") and n <= 1500:
                continue  # budget: the whole body has been through them, the other five observers take the small chunks
            runs += 1
            check_one(r, form, body, expected, label, cuts, which, rq if which in ("wsgi", "asgi") else None)
        if len(r.failures) >= 3:
            break
    if rq is None and not r.failures:
        for s, e in x.header_spans(form, body):
            offs = list(range(s + 1, e + 1))
            if len(offs) > 400:
                offs = offs[:30] + offs[30:-30:9973] + offs[-30:]
            for c in offs:
                for which in ("events", "sync"):
                    runs += 1
                    check_one(r, form, body, expected, "single", [c], which)
                if len(r.failures) >= 3:
                    break
    if rq is not None and not r.failures:
        for c in sorted({1, n // 3, n // 2, n - 1} - {0, n}):
            for which in ("wsgi", "asgi"):
                runs += 1
                check_one(r, form, body, expected, "single", [c], which, rq)
        for which in ("sync", "async", "asgi"):  # empty chunks / empty http.request messages: first, in the middle, last
            runs += 1
            check_one(r, form, body, expected, "empty-chunks", [0, n // 2, n // 2, n], which, rq if which == "asgi" else None)
    r.weight = runs
    r.nontrivial = True
    r.label(case.get("label", "syntax").split(":")[0], case.get("label", "syntax"))
    return r


def oracle_align(case) -> Result:
    """Chunk edges at every offset around every delimiter, for every boundary length and long transport padding."""
    r = Result()
    form = x.align_form(case)
    body = x.encode(form)
    expected = x.expected_items(form)
    bnd = form["boundary"].encode("ascii")
    n = len(body)
    offs = set()
    for s, e in ref.delimiter_spans(body, bnd):
        offs.update(range(s - 3, e + len(form["padding"]) + 4))
    offs = sorted(o for o in offs if 0 < o < n)
    runs = 0
    for which in ("events", "sync", "async", "wsgi", "asgi", "events-step"):
        for label, cuts in (("whole", []), ("bytewise", list(range(1, n)))):
            if label == "bytewise" and which in ("wsgi", "asgi") and not case.get("pairs"):
                continue
            runs += 1
            check_one(r, form, body, expected, label, cuts, which)
    for c in offs:
        for cuts in ([c], [c, c + 1]) if case.get("pairs") else ([c],):
            if cuts[-1] >= n:
                continue
            for which in ("events", "sync"):
                runs += 1
                check_one(r, form, body, expected, "single" if len(cuts) == 1 else "pair", cuts, which)
        if len(r.failures) >= 3:
            break
    r.weight = runs
    r.nontrivial = True
    r.label(f"blen={case['blen']}", f"padding={len(case.get('padding', b''))}", f"content={case.get('content', 'near')}")
    return r


def oracle_big(case) -> Result:
    """Bodies far larger than one read / one in-memory upload file, described by a compact spec."""
    r = Result()
    form = x.big_form(case)
    body = x.encode(form)
    expected = x.expected_items(form)
    ctx = f"big body {case['label']} ({len(body)} bytes, parts {[(k, s) for k, s, _h in case['parts']]})"
    runs = 0
    for k, chunking in enumerate(case["chunkings"]):
        cuts = x.chunk_cuts(len(body), chunking)
        observers = [("sync", None), ("async", None), ("wsgi", None), ("asgi", None), ("events", None)]
        if k == 0:  # the request-level variants on a body that takes several reads
            observers += [("wsgi", {"body_first": True}), ("asgi", {"body_first": True}), ("wsgi", {"length": "absent"}), ("asgi", {"asgi_keys": "minimal"})]
        for which, orq in observers:
            runs += 1
            check_one(r, form, body, expected, "-".join(str(c) for c in chunking), cuts, which, orq, real_loop=True, ctx=ctx)
        if len(r.failures) >= 3:
            break
    r.weight = runs
    r.nontrivial = True
    r.label(case["label"])
    return r


SUBS = {"forms": oracle, "tiny": oracle_tiny, "syntax": oracle_syntax, "align": oracle_align, "big": oracle_big}


# ---- random decoration of the generated forms with the alternative spellings (enumerated one at a time by `syntax`)

_SX = st.fixed_dictionaries(
    {},
    optional={
        "sep": st.sampled_from([";", ";  ", ";\t", " ; "]),
        "colon": st.sampled_from([":", ":  ", ":\t"]),
        "pcase": st.sampled_from(["upper", "title"]),
        "dtype": st.sampled_from(["Form-Data", "FORM-DATA"]),
        "order": st.just("fn"),
        "token": st.just(True),
        "extra": st.sampled_from([[["size", "3"]], [["x", '"y; z"']]]),
        "extra_first": st.just(True),
        "cd_pos": st.integers(1, 3),
    },
)
_RQ = st.fixed_dictionaries(
    {},
    optional={
        "ct": st.sampled_from(x.CT_STYLES),
        "length": st.sampled_from(["absent", "chunked"]),
        "body_first": st.just(True),
        "asgi_keys": st.just("minimal"),
    },
)


def _enc_ok(s, cs):
    try:
        return s.encode(cs).decode(cs) == s
    except (UnicodeEncodeError, UnicodeDecodeError):
        return False


@st.composite
def decorated_forms(draw):
    form = draw(gen.forms(max_parts=5, max_pieces=6))
    if draw(st.integers(0, 2)) == 0:
        names = [nm for _l, nm in x.special_names(form["boundary"]) if len(nm) < 100 and _enc_ok(nm, form["charset"])]
        for p in form["parts"]:
            k = draw(st.integers(0, 3))
            if k <= 1:
                p["sx"] = draw(_SX)
            if k >= 2 and names:
                if p.get("filename") is not None and draw(st.booleans()):
                    p["filename"] = draw(st.sampled_from(names))
                else:
                    p["name"] = draw(st.sampled_from(names))
    return form


def form_case():
    return st.fixed_dictionaries({"form": decorated_forms(), "cuts": gen.cut_lists(300)}, optional={"rq": _RQ})


def tiny_cases():
    contents = [b"", b"\r", b"\n", b"\r\n", b"\r\n-", b"\r\n--", b"\r\n--b", b"--", b"-\r", b"a\r\n--bX", b"\r\r\n", b"\n\r\n--", b"x\r\n--b-", b"\r\n--a\r"]
    for b in ("b", "bZ"):
        for c in contents:
            if ("--" + b).encode() in c:
                continue
            for fname in (None, "f"):
                yield {"form": {"boundary": b, "charset": "utf-8", "preamble": None, "epilogue": None, "padding": b"",
                                "parts": [{"name": "n", "filename": fname, "headers": [], "content": c}]}, "max_bits": 12}



def oracle_atheris(case) -> Result:
    """Replay / triage oracle for inputs found by the Atheris campaign: decode the bytes like the fuzz target does."""
    from fuzz import targets

    inner = targets.CASES["C01"](case["data"])
    res = oracle(inner)
    res.label("atheris")
    return res


SUBS["atheris"] = oracle_atheris

def _drop_loop():
    """Close this process's real event loop before worker processes are forked (gw.loop() makes a new one on demand).
    A forked worker that garbage-collects the loop object it inherited closes it, and closing unregisters the loop's
    self-pipe from the epoll object the worker SHARES with this process: from then on this process's loop is never
    woken by its executor threads, and the first upload file that is written in a thread (sub-check big) waits for ever."""
    lp = gw._LOOP
    if lp is not None and not lp.is_closed():
        lp.close()
    gw._LOOP = None


def _align_shard(rec, k, n):
    """Thorough tier: every boundary length x alphabet x padding x content, spread over worker processes."""
    core.drive_cases(rec, "align", [c for i, c in enumerate(x.align_cases(False)) if i % n == k], oracle_align)


def run(rec, only=None):
    quick = rec.tier == "quick"
    cases = list(tiny_cases())
    if quick:
        cases = cases[::3]
    core.drive_cases(rec, "tiny", cases, oracle_tiny)
    rec.exhaustive["tiny"] = True
    core.drive_cases(rec, "syntax", x.syntax_cases(quick), oracle_syntax)
    rec.exhaustive["syntax"] = True
    if quick:
        core.drive_cases(rec, "align", x.align_cases(True), oracle_align)
    elif rec.only is None or "align" in rec.only:
        _drop_loop()
        core.run_sharded(rec, _align_shard, 16, min(16, core.ncpu()))
    rec.exhaustive["align"] = True
    core.drive_cases(rec, "big", x.big_cases(quick), oracle_big)
    rec.exhaustive["big"] = True
    if not quick:
        _drop_loop()  # the thorough budget is split over forked workers
    core.drive_hypothesis(rec, "forms", form_case(), oracle, 250 if quick else 6000)
    rec.exhaustive["forms"] = False
    if not quick:
        # coverage-guided second engine (Atheris / libFuzzer), same oracle inside the target
        from fuzz import driver

        driver.campaign(rec, "C01", oracle_atheris, runs=6000, seeds=[b'\x00\x00\x02\x05hello\x03\x00\x01\x02\x00\x00\x01\x09', b''], max_total_time=420, jobs=8)
