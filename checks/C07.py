"""C07 - Static-file apps serve exactly the files inside their directory, nothing else."""
from __future__ import annotations

import itertools
import os
import posixpath
import shutil
import socket
import stat
import sys
import unicodedata
from urllib.parse import quote, unquote, urljoin, urlsplit

from hypothesis import strategies as st

import baize.asgi as A
import baize.wsgi as W

from harness import core, gateways as gw, tmpfiles, vfs
from harness.core import Result

LEVEL = "exploration"
RULES = {
    "grid": "exhaustive: every path of up to d segments over the alphabet {'', '.', '..', file, dir, '..name', '.hidden', '%2e%2e', "
    "'index.html', 'x', 'x.html', 'y', missing, unicode, decoy names, 'static', 'static2', the site directory's name, upper-case and "
    "dotted-stem names} with and without leading/trailing slash, on 2 fixed layouts with parent/sibling decoys x Files/Pages x WSGI/ASGI x "
    "directory given as absolute / relative / package-relative path (also with trailing slash, unnormalised, as os.PathLike) x mounted "
    "under a prefix or not x with/without a handle_404 application (modes rotate with the path index); non-trivial = path has a '..', "
    "a dotted/encoded name, reaches a decoy name or is a directory URL on Pages",
    "variants": "exhaustive: for every file and directory of the two fixed layouts and every decoy: the exact URL and 14 non-canonical, "
    "escaping and re-entering variants x Files/Pages x WSGI/ASGI (modes rotating); the layouts include look-alikes of the names the "
    "pages app adds (index.htm, Index.html, name.htm, name.HTML, index.html.bak), an empty file, a 10-level path, directories whose "
    "names need escaping in a Location, entries named like the mount prefix (directory mnt/ with mnt/mnt/..., file mnt, mnt.html: "
    "every one through the Subpaths mount, through a server-owned root path and unmounted); the mount point itself ('/mnt' -> path '') for every combination; a dozen URLs through a "
    "server that owns the mount (SCRIPT_NAME / root_path) and omits every optional environ / scope key",
    "names": "exhaustive: a layout whose entries have hostile but legal names (upper case, blanks, backslash, colon, tilde, '$VAR', '+', "
    "glob and shell characters, control characters, NFC/NFD forms, non-BMP, trailing dots, 250-byte names), each as regular file, as "
    "directory with index page and as '<name>.html' only, plus a unix socket: own URL, own URL + '/', and every near-miss spelling "
    "(case-folded, stripped, re-normalised, separator-converted, plus<->blank, percent-encoded or -decoded once more) x Files/Pages x "
    "WSGI/ASGI x mounted or not (quick tier: a near-miss goes to two of the four kind x side combinations); the near-miss must not be "
    "answered with the neighbour's content",
    "conditional": "exhaustive: every file, directory, decoy and missing name of the fixed layouts requested with 'If-None-Match: *', a "
    "future If-Modified-Since, both, or a foreign tag: a 304 is only an answer where a 200 would have been one; everything else as without "
    "validators",
    "sequence": "enumerated histories on ONE application object over a private tree that changes between the requests (file created, "
    "rewritten longer/shorter, removed, replaced by a directory and back, index page swapped, '<name>.html' appearing next to a name, "
    "working directory changed): every answer is judged against the tree as it is at that moment",
    "links": "exhaustive: a layout with symbolic links below the directory (to directories inside it by relative and by absolute target, "
    "to a sibling, to the parent and to the directory itself from further down, link to a link, to regular files inside and outside, "
    "dangling, self-referring) next to plain files, directories and missing names: every path <prefix>/<anchor>/<dot segments>/<tail> "
    "with the anchor (each link, a regular file, a missing name, a directory, a name that only has an '.html' twin) at the top, below a "
    "directory, below a link and two levels down, followed by '..', '.', '../..', './..', '../.' and a tail that names a file, an index "
    "page, a directory or a way back in - plus every own URL through a link - x Files/Pages x WSGI/ASGI, directory modes, mount and "
    "handle_404 rotating (quick tier: a dot-segment path goes to two of the four kind x side combinations).  A dot segment is cancelled TEXTUALLY ('/link/../f' is '/f', whatever the link points to): what is served is "
    "the content found at the lexical path, and the path handed to open() denotes the same file when its dot segments are removed "
    "textually as when the file system walks them",
    "layouts": "Hypothesis: generated layouts (a third of them with symbolic links to directories and files inside and outside the directory) x generated paths, same oracle",
}
# Outside the quantified domain (not generated, see the report of the strengthening pass):
#  - request paths that are not valid UTF-8 (WSGI falls back to the Latin-1 reading of PATH_INFO, so the bytes '/caf%E9.txt' reach
#    'caf\u00e9.txt'; ASGI answers 404) and files whose names on disk are not UTF-8;
#  - an ASGI scope with server=None and no Host header (the pages redirect is then a bare path: '//dir' -> Location '//dir/').
ASSUMPTIONS = [
    "POSIX path semantics; file names and request paths are valid UTF-8; the server address or a Host header is known",
    "symbolic links (sub-checks links and layouts only) are entries of the layout like any other: the statement resolves the request "
    "path 'lexically', so a link is never what cancels or redirects a dot segment, and the name 'static/<lexical path>' denotes whatever "
    "the file system finds there (a link to a regular file is a regular file at that path, wherever its target lives: the deployer put "
    "the link into the directory).  Whether a file that is only reachable through a link must be served is left open (safety rules only: "
    "a 404 is accepted for a URL that leads through a link)",
    "non-canonical URLs (dot segments, doubled slashes) may be served per the safety rule or answered not-found / "
    "(Pages, directory) redirected; when both d/ and d.html exist /d may redirect or serve d.html; a directory without index page may redirect or 404",
    "a URL that already ends in '.html' need not fall back to '<that>.html'; "
    "with request validators a 304 (empty body) stands for the 200 it replaces - which of the two is C14's business; "
    "not-found may come from HTTPException(404) or from the configured handle_404 application",
]

_ROOTS = {}
_INHERITED = []


def _reset():
    _ROOTS.clear()
    # A forked worker inherits the parent's event loop, whose epoll object is SHARED with the parent.  If the worker lets that
    # loop be garbage-collected, BaseEventLoop.__del__ closes it, which unregisters the self-pipe from the shared epoll set: the
    # parent then never hears its executor threads again (seen as "real-loop coroutine timed out").  Keep it alive, untouched.
    import asyncio

    _INHERITED.append(getattr(getattr(asyncio.get_event_loop_policy(), "_local", None), "_loop", None))


def _park_loop():
    """Before worker processes are forked: finish the parent's event loop (executor threads joined, selector closed), so that
    nothing of it is shared with the workers.  gateways.loop() makes a new one on demand."""
    lp = gw._LOOP
    if lp is not None and not lp.is_closed() and not lp.is_running():
        lp.run_until_complete(lp.shutdown_default_executor())
        lp.close()


core.AFTER_FORK.append(_reset)

SOCKET = ["socket"]  # layout value: a unix socket (neither regular file nor directory)
# layout value ["link", target]: a symbolic link; '<outer>', '<site>', '<static>' in the target stand for the absolute paths


def LINK(target):
    return ["link", target]


LAYOUT_A = {
    "secret.txt": "OUTER-SECRET",
    "S/secret.txt": "SITE-SECRET",
    "S/static.html": "SITE-STATIC-HTML",
    "S/static2/file.txt": "SIBLING-FILE",
    "S/static2/index.html": "SIBLING-INDEX",
    "S/staticfile": "SIBLING-PREFIX-FILE",
    "S/other.html": "SITE-OTHER-HTML",
    "S/otherdir/index.html": "SITE-OTHERDIR-INDEX",
    "S/static/file.txt": None,
    "S/static/index.html": None,
    "S/static/x": None,
    "S/static/x.html": None,
    "S/static/y.html": None,
    "S/static/dir/index.html": None,
    "S/static/dir/file.txt": None,
    "S/static/dir/sub/file.txt": None,
    "S/static/dir/..name": None,
    "S/static/d2/inner.txt": None,
    "S/static/d2.html": None,
    "S/static/..name": None,
    "S/static/.hidden": None,
    "S/static/%2e%2e": None,
    "S/static/é.txt": None,
    "S/static/secret.txt": None,
    "S/static/static/file.txt": None,
    "S/static/100%/a?b#c.txt": None,
    # (added by the strengthening pass) a stem with a dot that only exists as '<stem>.html'; upper-case names; an empty file;
    # a directory that has an index page AND a '<dir>.html' twin; directories whose names need escaping in a Location
    "S/static/v1.2.html": None,
    "S/static/README.TXT": None,
    "S/static/Dir/index.html": None,
    "S/static/Dir/Index.html": None,
    "S/static/empty.txt": "",
    "S/static/d3/index.html": None,
    "S/static/d3.html": None,
    "S/static/dé/index.html": None,
    "S/static/q?d#e%/index.html": None,
    "S/static/dir/sp ace/index.html": None,
    # look-alikes of the names the pages app may add: none of them is 'index.html' / '<name>.html'
    "S/static/h1/index.htm": None,
    "S/static/h2.htm": None,
    "S/static/h3.HTML": None,
    "S/static/Dir2/Index.html": None,
    "S/static/h4/index.html.bak": None,
    "S/static/deep/1/2/3/4/5/6/7/8/9/10/f.txt": None,
    "S/static/deep/1/2/3/4/5/6/7/8/9/10/index.html": None,
    # entries named like the mount prefix ('/mnt'): through the mount the URL is '/mnt/mnt/...'; the prefix is taken off ONCE.
    # A file only below mnt/, files and index pages at both levels (contents differ: they carry their path), one more level
    "S/static/mnt/only.txt": None,
    "S/static/mnt/file.txt": None,
    "S/static/mnt/index.html": None,
    "S/static/mnt/x.html": None,
    "S/static/mnt/mnt/file.txt": None,
    "S/static/mnt/mnt/index.html": None,
    "S/static/mnt/mnt/only2.txt": None,
    "S/static/mnt/mnt/mnt/deep.txt": None,
    "S/static/mnt/dir/file.txt": None,
    "S/static/mnt.html": None,
}
LAYOUT_B = {
    "secret.txt": "OUTER-SECRET",
    "S/secret.txt": "SITE-SECRET",
    "S/static.html": "SITE-STATIC-HTML",
    "S/static2/file.txt": "SIBLING-FILE",
    "S/static/file.txt": None,
    "S/static/x.html": None,
    "S/static/dir/file.txt": None,
    "S/static/dir/x.html": None,
    "S/static/static2/file.txt": None,
    "S/static/...": None,
    "S/static/..": None,  # cannot exist: skipped when materialising
    "S/static/.../file.txt": None,
    # directories named like the files the pages app looks for
    "S/static/odd/index.html/inner.txt": None,
    "S/static/odd2.html/file.txt": None,
    # a regular FILE named like the mount prefix, its '.html' neighbour, and the name further down
    "S/static/mnt": None,
    "S/static/mnt.html": None,
    "S/static/dir/mnt/file.txt": None,
    "S/static/dir/mnt/index.html": None,
}

# hostile but legal names (one path segment each, valid UTF-8, at most 250 bytes so that '<name>.html' still fits NAME_MAX)
ODD_NAMES = [
    "UPPER.TXT", "MiXed", "a b.txt", " lead", "trail ", "a+b.txt", "a\\b.txt", "dir\\file.txt", "back\\", "c:d.txt", "C:", "~", "~root",
    "$HOME", "${PATH}", "%HOME%", "%41", "a%20b", "a*b", "?", "q?x=1", "#frag", "[a].txt", "{x}", "a;b=c", "a&b", "a@b", "a,b", "a'b",
    'a"b', "a<b>", "a|b", "tab\tname", "nl\nname", "cr\rname", "esc\x1bname", "del\x7fname", "e\u0301.txt", "\u00fc.txt", "\u212b", "\ufb01le",
    "\U0001f600.txt", "\u202etxt.exe", "\u00a0", "name.", "name..", "a..b", ". ", ".. ", "-", "--help", "CON", "nul", "Index.html",
    "INDEX.HTML", "index.HTML", "n" * 250, "\u00e9" * 125,
]
# names with TAB, LF or CR also as directories with and without index page: the redirect must keep them (repaired in /repo by
# 5bdbd98 - urlsplit() used to delete these three characters from the Location; regression: replays/C07/reg-pages-line-break-directory.json)
LINE_BREAK_NAMES = ("tab\tname", "nl\nname", "cr\rname")


def _layout_n():
    lay = {
        "secret.txt": "OUTER-SECRET",
        "S/secret.txt": "SITE-SECRET",
        "S/static.html": "SITE-STATIC-HTML",
        "S/static2/file.txt": "SIBLING-FILE",
        "S/a b.txt": "SITE-BLANK-NAME",
        "S/upper.txt": "SITE-LOWER-UPPER",
        "S/static/index.html": None,
        "S/static/file.txt": None,
        "S/static/dir/file.txt": None,  # what 'dir\\file.txt' becomes when a backslash is taken for a separator
        "S/static/sock": SOCKET,
        "S/static/dirs/sock2": SOCKET,
        "S/static/sock3.html": SOCKET,
        "S/static/mnt/index.html": None,
        "S/static/mnt/file.txt": None,
        "S/static/mnt/a b.txt": None,
        "S/static/mnt/mnt/file.txt": None,
        "S/static/mnt/mnt/index.html": None,
        "S/static/mnt.html": None,
    }
    for n in ODD_NAMES:
        lay["S/static/" + n] = None
        lay["S/static/dirs/" + n + "/index.html"] = None
        lay["S/static/tw/" + n + ".html"] = None
    for n in LINE_BREAK_NAMES + ("a b", "q?x", "\u00e9"):
        lay["S/static/noidx/" + n + "/inner.txt"] = None  # directory without index page: redirect (then 404) or 404
    return lay


LAYOUT_N = _layout_n()


def _mksocket(path):
    cwd = os.getcwd()
    s = socket.socket(socket.AF_UNIX, socket.SOCK_STREAM)
    try:
        os.chdir(os.path.dirname(path))  # sun_path is short: bind by the bare name
        s.bind(os.path.basename(path))
    finally:
        os.chdir(cwd)
        s.close()


def materialise(layout, fresh=False):
    """-> dict(outer, site, static, sitename, files {relpath under outer: content}, specials {relpath: kind}).
    fresh=True: a private tree that the caller may change (not cached)."""
    key = core.canon(layout)
    if not fresh and key in _ROOTS:
        return _ROOTS[key]
    outer = tmpfiles.workdir("verif_c07_")
    sitename = "site_" + os.path.basename(outer).replace("-", "_").replace(".", "_")
    files = {}
    specials = {}
    for rel, content in layout.items():
        rel = rel.replace("S/", sitename + "/", 1) if rel.startswith("S/") else rel
        if os.path.basename(rel) in ("..", ".") or ".../" in rel and False:
            continue
        path = os.path.join(outer, *rel.split("/"))
        try:
            os.makedirs(os.path.dirname(path), exist_ok=True)
            if os.path.isdir(path):
                continue
            if isinstance(content, (list, tuple)):
                if len(content) == 2 and content[0] == "link":
                    if not os.path.lexists(path):
                        site = os.path.join(outer, sitename)
                        os.symlink(content[1].replace("<outer>", outer).replace("<site>", site).replace("<static>", os.path.join(site, "static")), path)
                        specials[rel] = "link"
                    continue
                if list(content) != SOCKET:
                    raise core.HarnessError(f"unknown special entry {content!r}")
                _mksocket(path)
                specials[rel] = "socket"
                continue
            data = (content if content is not None else "FILE:" + rel).encode("utf-8")
            with open(path, "wb") as fh:
                fh.write(data)
            files[rel] = data
        except OSError:
            continue
    with open(os.path.join(outer, sitename, "__init__.py"), "w") as fh:
        fh.write("")
    # the surrounding directory is importable as well, so that the site is also reachable as the
    # sub-package "<outer>.<site>" (mode "dotted-package")
    with open(os.path.join(outer, "__init__.py"), "w") as fh:
        fh.write("")
    info = {"outer": outer, "site": os.path.join(outer, sitename), "static": os.path.join(outer, sitename, "static"), "sitename": sitename,
            "files": files, "specials": specials}
    info["links"] = sorted(rel for rel, what in specials.items() if what == "link" and rel.startswith(sitename + "/static/"))
    info["inside"], info["dirs"] = _inside(info)
    if not fresh:
        _ROOTS[key] = info
    return info


class _Below:
    """What the names below the configured directory denote in a tree WITH symbolic links, asked of the tree itself: the keys are
    lexical paths (no empty or dot segments - the reference resolver has removed them), the file system follows the links in them."""

    def __init__(self, static):
        self.static = static

    def full(self, rel):
        if not isinstance(rel, str) or not rel or "\x00" in rel:
            return None
        segs = rel.split("/")
        if any(s in ("", ".", "..") for s in segs):
            return None
        return os.path.join(self.static, *segs)

    def mode(self, rel):
        full = self.full(rel)
        try:
            return os.stat(full).st_mode if full is not None else None
        except (OSError, ValueError):
            return None


class _FilesBelow(_Below):
    def __contains__(self, rel):
        mode = self.mode(rel)
        return mode is not None and stat.S_ISREG(mode)

    def __getitem__(self, rel):
        with open(self.full(rel), "rb") as fh:
            return fh.read()


class _DirsBelow(_Below):
    def __contains__(self, rel):
        mode = self.mode(rel)
        return mode is not None and stat.S_ISDIR(mode)


def via_link(info, segs):
    """the lexical path static/<segs> leads through (or ends in) a symbolic link"""
    if not info.get("links") or not segs:
        return False
    full = info["static"]
    for s in segs:
        if s in ("", ".", "..") or "\x00" in s:
            return False
        full = os.path.join(full, s)
        try:
            if os.path.islink(full):
                return True
        except (OSError, ValueError):
            return False
    return False


def _inside(info):
    """(regular files below the configured directory {relative path: content}, directories below it)"""
    static_rel = info["sitename"] + "/static"
    if info.get("links"):
        return _FilesBelow(info["static"]), _DirsBelow(info["static"])
    inside = {rel[len(static_rel) + 1:]: data for rel, data in info["files"].items() if rel.startswith(static_rel + "/")}
    dirs = set()
    for rel in list(inside) + [rel[len(static_rel) + 1:] for rel in info["specials"] if rel.startswith(static_rel + "/")]:
        parts = rel.split("/")
        for i in range(1, len(parts)):
            dirs.add("/".join(parts[:i]))
    return inside, dirs


BASE = ["<outer>", "<site>", "static"]  # symbolic position of the configured directory


def resolve(path, sitename="<site>"):
    """Lexical resolution of the URL path relative to the configured directory (like normpath of
    directory + path): list of segments below the directory, or None when the result lies
    outside it.  A path may leave the directory and come back ("/../static/f")."""
    base = ["<outer>", sitename, "static"]
    out = list(base)
    for seg in path.split("/"):
        if seg in ("", "."):
            continue
        if seg == "..":
            if out:
                out.pop()
        else:
            out.append(seg)
    if out[: len(base)] != base:
        return None
    return out[len(base):]


def is_canonical(path):
    if not path.startswith("/"):
        return False
    segs = path.split("/")[1:]
    if segs and segs[-1] == "":
        segs = segs[:-1]
    return all(s not in ("", ".", "..") for s in segs)


# a not-found application that is no part of baize (handle_404=...)
def _nf_wsgi(environ, start_response):
    start_response("404 Not Found", [("Content-Type", "text/plain"), ("X-Handler", "c07")])
    return [b"NF-HANDLER"]


async def _nf_asgi(scope, receive, send):
    await send({"type": "http.response.start", "status": 404, "headers": [(b"content-type", b"text/plain"), (b"x-handler", b"c07")]})
    await send({"type": "http.response.body", "body": b"NF-HANDLER"})


def build_app(info, kind, side, mode, mounted, h404=False):
    M = W if side == "wsgi" else A
    cls = M.Files if kind == "files" else M.Pages
    kw = {"handle_404": _nf_wsgi if side == "wsgi" else _nf_asgi} if h404 else {}
    cwd = os.getcwd()
    try:
        if mode == "absolute":
            app = cls(info["static"], **kw)
        elif mode == "absolute-slash":
            app = cls(info["static"] + "/", **kw)
        elif mode == "absolute-unnormalised":
            app = cls(os.path.join(info["site"], "static2", "..", ".", "static"), **kw)
        elif mode == "pathlike":
            import pathlib

            app = cls(pathlib.Path(info["static"]), **kw)
        elif mode == "relative":
            os.chdir(info["site"])
            app = cls("static", **kw)
        elif mode == "relative-dot":
            os.chdir(info["site"])
            app = cls("./static/", **kw)
        elif mode == "package":
            if info["outer"] not in sys.path:
                sys.path.insert(0, info["outer"])
            app = cls("static", package=info["sitename"], **kw)
        elif mode == "dotted-package":
            parent = os.path.dirname(info["outer"])
            if parent not in sys.path:
                sys.path.insert(0, parent)
            app = cls("static", package=os.path.basename(info["outer"]) + "." + info["sitename"], **kw)
        else:
            raise core.HarnessError(mode)
    finally:
        os.chdir(cwd)
    if mounted:
        app = M.Subpaths(("/mnt", app))
    return app


# the paths handed to open()/os.open() exactly as they were spelled (vfs records them normalised)
_RAW = []
_RAW_ARMED = [False]


def _raw_audit(event, args):
    if _RAW_ARMED[0] and event == "open":
        try:
            p = args[0]
            if isinstance(p, (str, bytes)):
                _RAW.append(os.path.join(os.getcwd(), os.fsdecode(p)))
        except Exception:  # noqa: BLE001
            pass


sys.addaudithook(_raw_audit)


class Opened(list):
    """normalised paths of the open events (vfs) + .raw: the same as spelled"""

    raw = ()


def request(app, side, path, mounted, headers=(), minimal=False):
    """minimal=True: the server leaves out what it may leave out - CGI variables whose value is empty (PEP 3333: SCRIPT_NAME,
    PATH_INFO, QUERY_STRING), REMOTE_*; optional scope keys (root_path, raw_path, client).  The mount is then the server's:
    SCRIPT_NAME / root_path '/mnt' instead of a Subpaths object (the caller passes the bare app)."""
    if not minimal:
        rq = gw.areq(path=("/mnt" + path) if mounted else path, headers=headers)
    else:
        rq = gw.areq(path=path, headers=headers, root_path="/mnt" if mounted else "", client=None)
    vfs.arm()
    del _RAW[:]
    _RAW_ARMED[0] = True
    try:
        if not minimal:
            run = gw.call_wsgi(app, rq) if side == "wsgi" else gw.call_asgi(app, rq)
        elif side == "wsgi":
            environ = gw.make_environ(rq)
            for key in ("SCRIPT_NAME", "PATH_INFO", "QUERY_STRING"):
                if environ[key] == "":
                    del environ[key]
            run = gw.run_wsgi(app, environ)
        else:
            scope = gw.make_scope(rq)
            del scope["raw_path"], scope["client"]
            if not mounted:
                del scope["root_path"]
            run = gw.run_sync(gw.run_asgi(app, scope, ()))
    finally:
        _RAW_ARMED[0] = False
        opened = Opened(vfs.disarm())
        opened.raw = tuple(_RAW)
        del _RAW[:]
    return run, opened


REDIRECTS = (301, 302, 303, 307, 308)


def oracle(case) -> Result:
    r = Result()
    info = materialise(case["layout"])
    kind, side, mode, mounted, path = case["kind"], case["side"], case["mode"], case["mounted"], case["path"]
    minimal = case.get("minimal", False)
    app = build_app(info, kind, side, mode, mounted and not minimal, case.get("h404", False))
    run, opened = request(app, side, path, mounted, case.get("headers") or (), minimal)
    judge(r, info, case, app, run, opened)
    _labels(r, case, run.status_code if run.exc is None else None)
    if info.get("links"):
        _link_labels(r, info, path)
    r.key = (core.canon(case["layout"])[:40], kind, side, mode, mounted, path, case.get("h404", False), core.canon(case.get("headers") or []), minimal)
    return r


def judge(r, info, case, app, run, opened, where=""):
    """Judge one answer against the tree described by info (outer, static, sitename, files, inside, dirs)."""
    kind, side, mode, mounted, path = case["kind"], case["side"], case["mode"], case["mounted"], case["path"]
    headers = case.get("headers") or ()
    cond = any(k.lower() in ("if-none-match", "if-modified-since") for k, _ in headers)
    files, inside, dirs = info["files"], info["inside"], info["dirs"]
    static_rel = info["sitename"] + "/static"
    ctx = f"{where}{kind} {side} mode={mode} mounted={mounted}" + (" handle_404" if case.get("h404") else "") + (f" headers={list(map(list, headers))}" if headers else "") + f" path {path!r}"
    if run.exc is not None:
        r.fail(f"C07:{side}:raised:{type(run.exc).__name__}", f"{ctx}: {type(run.exc).__name__}: {run.exc}")
        return
    status = run.status_code

    def is_the(content):
        """the answer is this file (200 with exactly its content; with request validators also the 304 that stands for it)"""
        return (status == 200 and run.body == content) or (cond and status == 304 and run.body == b"")

    segs = resolve(path, info["sitename"])
    target = "/".join(segs) if segs is not None else None
    # audit: nothing of the surrounding tree outside the directory is opened
    for p in opened:
        if p.startswith(info["outer"] + os.sep) and not (p == info["static"] or p.startswith(info["static"] + os.sep)):
            r.fail(f"C07:{side}:opened-outside-directory", f"{ctx}: opened {p[len(info['outer']):]!r}")
    # ... also when the spelling still has dot segments in it: the statement resolves them lexically, the file system walks them
    # (through links, '..' of a link's target is not the link's parent); what is opened must be the file the lexical reading names
    for p in getattr(opened, "raw", ()):
        lexical = os.path.normpath(p)
        if lexical == p or not lexical.startswith(info["outer"] + os.sep):
            continue
        try:
            physical, named = os.path.realpath(p, strict=True), os.path.realpath(lexical)  # (strict: no such file - nothing was opened)
        except (OSError, ValueError):
            continue
        if physical != named and not (physical == info["static"] or physical.startswith(info["static"] + os.sep)):
            r.fail(f"C07:{side}:opened-outside-directory", f"{ctx}: opened {p[len(info['outer']):]!r}, which the file system resolves to {physical[len(info['outer']):] if physical.startswith(info['outer']) else physical!r} "
                   f"(lexically it is {lexical[len(info['outer']):]!r})")
    # rule 0: the only answers there are: a file (200/206, 304 for a validator), not-found, and the pages app's redirect
    if not (status in (200, 206, 404) or (cond and status == 304) or (kind == "pages" and status in REDIRECTS)):
        r.fail(f"C07:{side}:{kind}:unexpected-status", f"{ctx}: status {status} Location {run.get('location')!r} body {run.body[:40]!r}")
    # rule 1: safety
    cands = []
    if target is not None:
        cands.append(target)
        if kind == "pages":
            cands.append(target + ".html")
            if path.endswith("/") or target == "":
                cands.append((target + "/" if target else "") + "index.html")
    if status in (200, 206):
        served = [c for c in cands if c in inside and inside[c] == run.body]
        if not served:
            which = [rel for rel, data in files.items() if data == run.body]
            r.fail(
                f"C07:{side}:{kind}:served-wrong-file" + (":outside" if which and not which[0].startswith(static_rel + "/") else ""),
                f"{ctx}: status {status} body {run.body[:60]!r} is the content of {which!r}; lexical resolution gives {target!r} (candidates {cands!r})",
            )
    if status == 304 and cond:
        # "not modified" speaks about a file: there must be one that a 200 could have carried
        if not any(c in inside for c in cands) or run.body != b"":
            r.fail(f"C07:{side}:{kind}:not-modified-without-file", f"{ctx}: status 304 body {run.body[:40]!r}; lexical resolution gives {target!r}, no regular file among {cands!r}")
    # rule 2: escape paths
    if segs is None and status != 404:
        r.fail(f"C07:{side}:{kind}:escape-not-404", f"{ctx}: path climbs above the directory, status {status} body {run.body[:40]!r} Location {run.get('location')!r}")
    # rule 2b: whenever the pages app redirects, it is from a directory URL without trailing slash to the same URL plus '/'
    canonical = segs is not None and (is_canonical(path) or (mounted and path == ""))
    if kind == "pages" and status in REDIRECTS and segs is not None and (mounted or path.startswith("/")):
        if path.endswith("/"):
            r.fail(f"C07:{side}:pages:redirect-on-slash-url", f"{ctx}: status {status} Location {run.get('location')!r}")
        elif not (target in dirs or target == ""):
            r.fail(f"C07:{side}:pages:redirect-for-non-directory", f"{ctx}: status {status} Location {run.get('location')!r}, but {target!r} is no directory")
        elif not canonical:
            check_redirect(r, info, app, case, run, path, ctx, False)
    # rule 3: completeness on canonical URLs ('/mnt' itself, which a mount hands over as '', is the root directory without slash)
    # (a URL that leads through a symbolic link: the statement does not say that it must be served - not-found is accepted)
    if canonical and not (status == 404 and via_link(info, segs)):
        trailing = path.endswith("/") and path != "/"
        if kind == "files" and trailing:
            # a URL ending in '/' is no regular file's own path ("every other path yields not-found"; the
            # statement itself tells '/d' and '/d/' apart): the file app has nothing to serve there
            if status != 404:
                r.fail("C07:%s:files:trailing-slash-served" % side, f"{ctx}: URL with trailing slash, lexical target {target!r}: status {status} body {run.body[:40]!r}")
        elif kind == "files" or not (trailing or path == "/"):
            if target in inside and not trailing:
                if not is_the(inside[target]):
                    r.fail(f"C07:{side}:{kind}:file-not-served", f"{ctx}: regular file {target!r} exists inside the directory, got status {status} body {run.body[:40]!r}")
            elif kind == "files":
                if status != 404:
                    r.fail(f"C07:{side}:files:expected-404", f"{ctx}: no regular file at {target!r}, got status {status}")
            else:  # pages, no trailing slash, not a regular file
                if target in dirs or target == "":
                    html_twin = (target + ".html") in inside
                    if status in REDIRECTS:
                        check_redirect(r, info, app, case, run, path, ctx, True)
                    elif html_twin and is_the(inside[target + ".html"]):
                        pass
                    elif status == 404 and (((target + "/" if target else "") + "index.html") not in inside):
                        pass
                    else:
                        r.fail(f"C07:{side}:pages:directory-url", f"{ctx}: directory URL without slash: status {status} body {run.body[:40]!r}")
                elif (target + ".html") in inside:
                    if target.endswith(".html") and status == 404:
                        pass  # '/a.html' is asked for as a page already: no obligation to try 'a.html.html' (rule 1 allows it)
                    elif not is_the(inside[target + ".html"]):
                        r.fail(f"C07:{side}:pages:html-fallback", f"{ctx}: only {target + '.html'!r} exists, got status {status} body {run.body[:40]!r}")
                elif status != 404:
                    r.fail(f"C07:{side}:pages:expected-404", f"{ctx}: nothing at {target!r}, got status {status}")
        else:  # pages, directory URL with trailing slash (or the root)
            index = (target + "/" if target else "") + "index.html"
            if (target in dirs or target == "") and index in inside:
                if not is_the(inside[index]):
                    r.fail(f"C07:{side}:pages:index-not-served", f"{ctx}: {index!r} exists, got status {status} Location {run.get('location')!r} body {run.body[:40]!r}")
            elif target in dirs or target == "":
                if status != 404:
                    # (a redirect from a URL that already ends in '/' would have to go to '...//')
                    r.fail(f"C07:{side}:pages:dir-without-index", f"{ctx}: status {status}")
            elif target in inside and status != 404:
                # '/a.txt/' names the index page of a directory 'a.txt', which does not exist
                r.fail(f"C07:{side}:pages:trailing-slash-on-file-served", f"{ctx}: {target!r} is a regular file, not a directory: status {status} body {run.body[:40]!r}")
            # trailing slash on a missing name: rules 1/2 only


def check_redirect(r, info, app, case, run, path, ctx, canonical):
    side, mounted = case["side"], case["mounted"]
    inside = info["inside"]
    loc = run.get("location")
    if not loc:
        r.fail(f"C07:{side}:pages:redirect-without-location", ctx)
        return
    req_url = "http://testserver" + quote(("/mnt" if mounted else "") + path)
    final = urljoin(req_url, loc)
    parts = urlsplit(final)
    if parts.netloc != "testserver":
        r.fail(f"C07:{side}:pages:redirect-target", f"{ctx}: Location {loc!r} resolves to {final!r}: another host")
        return
    if not canonical and any(s in (".", "..") for s in path.split("/")):
        return  # a client removes dot segments before it follows: only slash-only spellings are compared literally
    got = unquote(parts.path)
    if mounted:
        if not got.startswith("/mnt"):
            r.fail(f"C07:{side}:pages:redirect-leaves-mount", f"{ctx}: Location {loc!r} -> {final!r}")
            return
        got = got[len("/mnt"):]
    if got != path + "/":
        r.fail(f"C07:{side}:pages:redirect-target", f"{ctx}: Location {loc!r} resolves to {final!r}, expected the same URL plus '/'")
        return
    if not canonical:
        return
    run2, _ = request(app, side, got, mounted, (), case.get("minimal", False))
    target = "/".join(resolve(path, info["sitename"]))
    index = (target + "/" if target else "") + "index.html"
    if index in inside:
        if run2.exc is not None or run2.status_code != 200 or run2.body != inside[index]:
            r.fail(f"C07:{side}:pages:redirect-does-not-reach-index", f"{ctx}: following the redirect to {got!r} gives status {run2.status_code} Location {run2.get('location')!r}, expected {index!r}")
    elif run2.exc is None and run2.status_code not in (404,):
        r.fail(f"C07:{side}:pages:redirect-then", f"{ctx}: directory without index: following the redirect gives status {run2.status_code}")


_PLAIN = set("abcdefghijklmnopqrstuvwxyz0123456789._-/%")


def _labels(r, case, status):
    path = case["path"]
    segs = path.split("/")
    nt = ".." in segs or any(s.startswith(".") and s not in ("", ".") for s in segs) or "%2e%2e" in segs or any(s in ("secret.txt", "static2", "static.html", "staticfile", "SITE") for s in segs)
    if case["kind"] == "pages" and (path.endswith("/") or "dir" in segs or "d2" in segs or "dirs" in segs):
        nt = True
    odd = not set(path) <= _PLAIN
    if odd or case.get("headers"):
        nt = True
    r.nontrivial = nt
    r.label(f"kind={case['kind']}", f"side={case['side']}", f"mode={case['mode']}", "mounted" if case["mounted"] else "bare", f"status={status}")
    if case.get("h404"):
        r.label("handle_404")
    if case.get("headers"):
        r.label("validators")
    if case.get("minimal"):
        r.label("minimal-environ")
    if odd:
        r.label("odd-name")
    if resolve(path) is None and resolve(path, "SITE") is None:
        r.label("escape")
    elif ".." in segs:
        r.label("re-entry")


def _link_labels(r, info, path):
    """layouts with symbolic links: what the dot segments of the path come after (lexically), and whether the target is behind a link"""
    out = []
    above = False
    for seg in path.split("/"):
        if above:
            break  # left the directory: no longer tracked
        if seg in (".", ".."):
            if out:
                full = os.path.join(info["static"], *out)
                try:
                    what = "link" if os.path.islink(full) else "directory" if os.path.isdir(full) else "file" if os.path.lexists(full) else "missing"
                except (OSError, ValueError):
                    what = "missing"
                r.label(f"'{seg}' after {what}")
                if what != "directory":
                    r.nontrivial = True
            if seg == "..":
                if out:
                    out.pop()
                else:
                    above = True
        elif seg != "":
            out.append(seg)
    segs = resolve(path, info["sitename"])
    if via_link(info, segs):
        r.label("target-through-link")
        r.nontrivial = True


SUBS = {"grid": oracle, "layouts": oracle}

# ------------------------------------------------------------------------------------------

SEGMENTS = ["", ".", "..", "file.txt", "dir", "..name", ".hidden", "%2e%2e", "index.html", "x", "x.html", "y", "d2", "missing", "é.txt",
            "secret.txt", "static", "static2", "static.html", "staticfile", "SITE", "sub", "...", "100%", "a?b#c.txt", "other", "otherdir",
            "v1.2", "Dir", "README.TXT", "d3", "mnt"]
MODES = ["absolute", "relative", "package", "absolute", "relative-dot", "dotted-package", "absolute-slash", "pathlike", "absolute-unnormalised"]


def grid_paths(depth):
    for n in range(0, depth + 1):
        for combo in itertools.product(SEGMENTS, repeat=n):
            body = "/".join(combo)
            yield "/" + body
            if n:
                yield "/" + body + "/"
    yield ""
    yield "file.txt"
    yield "../secret.txt"
    yield "dir"


def grid_shard(rec, k, nshards, depth, stride):
    g = core.guarded(oracle)
    i = 0
    for li, layout in enumerate((LAYOUT_A, LAYOUT_B)):
        info = materialise(layout)
        for path in grid_paths(depth):
            path = path.replace("SITE", info["sitename"])
            i += 1
            if i % nshards != k:
                continue
            if path.count("/") > 2 and (i // nshards) % stride != 0:
                continue
            combos = [(kind, side) for kind in ("files", "pages") for side in ("wsgi", "asgi")]
            for j, (kind, side) in enumerate(combos):
                mode = MODES[(i + j) % len(MODES)]
                mounted = ((i + j) // len(MODES)) % 3 == 0
                case = {"layout": layout, "kind": kind, "side": side, "mode": mode, "mounted": mounted, "path": path}
                if (i // 7 + j) % 4 == 0:
                    case["h404"] = True
                res = g(case)
                rec.count("grid", case, res)
                new, old = rec.split(res)
                rec.note_known(old)
                for f in new:
                    rec.add_violation("grid", f, case)
                    rec.skip.add(f.bucket)


def _entries(info):
    """every file and directory below the configured directory (relative paths), specials included"""
    static_rel = info["sitename"] + "/static/"
    rels = set()
    for rel in list(info["files"]) + list(info["specials"]):
        if rel.startswith(static_rel):
            parts = rel[len(static_rel):].split("/")
            for i in range(1, len(parts) + 1):
                rels.add("/".join(parts[:i]))
    return sorted(rels)


DECOYS = ["../secret.txt", "../../secret.txt", "../static.html", "../static2/file.txt", "../staticfile", "../static2/", "../static2",
          "../" + "static/../secret.txt", "..", "../", "../..", "%2e%2e/secret.txt", "..%2fsecret.txt", "../__init__.py", "../other", "../other.html", "../otherdir/", "../otherdir", "../otherdir/index",
          "../static2/index"]


def mount_cases(layout, info, n0=0):
    """Everything whose first segment is spelled like the mount prefix, on every kind x side, through the Subpaths mount, through a
    server that owns the mount (SCRIPT_NAME / root_path '/mnt', path without it) and unmounted: the prefix is taken off exactly once."""
    n = n0
    paths = []
    for rel in _entries(info):
        if rel.split("/")[0] in ("mnt", "mnt.html"):
            base = "/" + rel
            paths += [base, base + "/"]
            if base.endswith(".html"):
                paths += [base[:-5], base[:-5] + "/"]
    paths += ["/mnt/missing", "/mnt/mnt/missing", "/mnt/mnt/mnt/mnt", "/mnt/../mnt/file.txt", "/mnt//mnt/file.txt", "/mnt/mnt/../file.txt", "/mnt/secret.txt", "/mnt/../../secret.txt", "/mntx", "/mnt.txt"]
    for path in paths:
        for kind in ("files", "pages"):
            for side in ("wsgi", "asgi"):
                for present in ("subpaths", "server", "bare"):
                    n += 1
                    case = {"layout": layout, "kind": kind, "side": side, "mode": MODES[n % len(MODES)], "mounted": present != "bare", "path": path}
                    if present == "server":
                        case["minimal"] = True
                    elif (n // 3) % 4 == 1:
                        case["h404"] = True
                    yield case


def variant_cases():
    """For every file and directory of the fixed layouts (and every decoy): the exact URL and its
    non-canonical / escaping / re-entering variants."""
    n = 0
    for layout in (LAYOUT_A, LAYOUT_B):
        info = materialise(layout)
        paths = []
        for rel in _entries(info):
            base = "/" + rel
            stem = base[:-5] if base.endswith(".html") else None
            paths += [base, base + "/", "/." + base, "//" + rel, base + "/.", base + "/..", "/zz/.." + base, "/../static" + base,
                      "/../../" + info["sitename"] + "/static" + base, base + "/index.html", base + ".html", base.replace("/", "//"),
                      "/dir/.." + base, base + "/../" + rel.split("/")[-1]]
            if stem:
                paths += [stem, stem + "/"]
            for ext in (".htm", ".HTML", ".bak"):
                if base.endswith(ext):
                    paths += [base[: -len(ext)], base[: -len(ext)] + "/"]
        paths += ["/" + d for d in DECOYS] + ["/dir/../" + d for d in DECOYS] + ["/", "", "/index.html", "/."]
        for path in paths:
            for kind in ("files", "pages"):
                for side in ("wsgi", "asgi"):
                    n += 1
                    case = {"layout": layout, "kind": kind, "side": side, "mode": MODES[n % len(MODES)], "mounted": (n // 5) % 3 == 0, "path": path}
                    if (n // 4) % 3 == 1:
                        case["h404"] = True
                    yield case
        # the mount point itself: '/mnt' reaches the app as path '' - the root directory without trailing slash
        for path in ("", "/", "//", "/."):
            for kind in ("files", "pages"):
                for side in ("wsgi", "asgi"):
                    for h404 in (False, True):
                        n += 1
                        yield {"layout": layout, "kind": kind, "side": side, "mode": MODES[n % len(MODES)], "mounted": True, "path": path, "h404": h404}
        # the same through a server that owns the mount (SCRIPT_NAME / root_path) and omits every optional key
        for path in ("", "/", "/dir", "/dir/", "/file.txt", "/x", "/y", "/missing", "/../secret.txt", "//dir", "/d2", "/dé"):
            for kind in ("files", "pages"):
                for side in ("wsgi", "asgi"):
                    for mounted in (False, True):
                        if path == "" and not mounted:
                            continue
                        n += 1
                        yield {"layout": layout, "kind": kind, "side": side, "mode": MODES[n % len(MODES)], "mounted": mounted, "path": path, "minimal": True}
        yield from mount_cases(layout, info, n)


# ---- names ---------------------------------------------------------------------------------


def _per_segment(fn):
    return lambda p: "/".join(fn(s) for s in p.split("/"))


_ALIASES = [
    str.lower,
    str.upper,
    str.swapcase,
    lambda p: unicodedata.normalize("NFC", p),
    lambda p: unicodedata.normalize("NFD", p),
    lambda p: unicodedata.normalize("NFKC", p),
    lambda p: p.replace("\\", "/"),
    lambda p: "/" + p[1:].replace("/", "\\"),
    lambda p: p.replace("+", " "),
    lambda p: p.replace(" ", "+"),
    lambda p: p.replace(" ", "%20"),
    lambda p: p.replace(":", ""),
    _per_segment(str.strip),
    _per_segment(lambda s: s.rstrip(". ") or s),
    lambda p: p + " ",
    lambda p: p + ".",
    lambda p: "/ " + p[1:],
    lambda p: quote(p),
    lambda p: quote(p, safe="/~:@!$&'()*+,;="),
    lambda p: unquote(p),
    lambda p: p.replace("\t", "").replace("\n", "").replace("\r", ""),
    lambda p: p.split("?")[0].split("#")[0],
    lambda p: p.split(";")[0],
]


def names_paths(info):
    """own URLs of every entry of the hostile-name layout and their near-miss spellings (canonical URLs only): [(path, is own URL)]"""
    own = []
    for rel in _entries(info):
        base = "/" + rel
        own += [base, base + "/"]
        if base.endswith(".html"):
            own += [base[:-5], base[:-5] + "/"]
    own += ["/", "/index", "/missing", "/dirs", "/tw"]
    seen = set()
    out = []
    for p in own:
        for q in [p] + [fn(p) for fn in _ALIASES]:
            if q in seen or not is_canonical(q) or "\x00" in q:
                continue
            seen.add(q)
            out.append((q, q == p))
    return out


def names_cases(quick=True):
    info = materialise(LAYOUT_N)
    n = 0
    for i, (path, own) in enumerate(names_paths(info)):
        for kind in ("files", "pages"):
            for side in ("wsgi", "asgi"):
                if quick and not own and (i + (kind == "pages") + (side == "asgi")) % 2:
                    continue  # quick tier: a near-miss spelling goes to two of the four kind x side combinations (alternating)
                n += 1
                mode = MODES[n % len(MODES)]
                mounted = (n // 4) % 2 == 0
                yield {"layout": LAYOUT_N, "kind": kind, "side": side, "mode": mode, "mounted": mounted, "path": path, "h404": (n // 8) % 4 == 3}
                if not quick:
                    yield {"layout": LAYOUT_N, "kind": kind, "side": side, "mode": MODES[(n + 4) % len(MODES)], "mounted": not mounted, "path": path}
    yield from mount_cases(LAYOUT_N, info, n)


# ---- links ----------------------------------------------------------------------------------

LAYOUT_L = {
    "secret.txt": "OUTER-SECRET",
    "file.txt": "OUTER-FILE",
    "index.html": "OUTER-INDEX",
    "S/secret.txt": "SITE-SECRET",
    "S/file.txt": "SITE-FILE",
    "S/index.html": "SITE-INDEX",
    "S/x.html": "SITE-X-HTML",
    "S/static.html": "SITE-STATIC-HTML",
    "S/static2/file.txt": "SIBLING-FILE",
    "S/static2/secret.txt": "SIBLING-SECRET",
    "S/static2/index.html": "SIBLING-INDEX",
    "S/static2/deep/file.txt": "SIBLING-DEEP-FILE",
    "S/static2/deep/index.html": "SIBLING-DEEP-INDEX",
    "S/static/file.txt": None,
    "S/static/secret.txt": None,
    "S/static/index.html": None,
    "S/static/x.html": None,
    "S/static/dir/file.txt": None,
    "S/static/dir/secret.txt": None,
    "S/static/dir/index.html": None,
    "S/static/dir/x.html": None,
    "S/static/dir/sub/file.txt": None,
    "S/static/dir/sub/secret.txt": None,
    "S/static/dir/sub/index.html": None,
    "S/static/dir/sub/deep/file.txt": None,
    "S/static/dir/sub/deep/index.html": None,
    "S/static/other/file.txt": None,
    "S/static/other/index.html": None,
    "S/static/other/dir/file.txt": None,
    "S/static/sock": SOCKET,
    # links to directories inside the directory: '..' of the target is not the link's parent
    "S/static/lin": LINK("dir/sub"),
    "S/static/labs": LINK("<static>/dir/sub/deep"),
    "S/static/dir/lsib": LINK("../other"),
    "S/static/dir/sub/lcousin": LINK("../../other/dir"),
    "S/static/lchain": LINK("lin"),
    # ... to the directory itself and its parents, from further down
    "S/static/dir/up": LINK(".."),
    "S/static/dir/sub/top": LINK("<static>"),
    "S/static/lup": LINK(".."),
    "S/static/dir/lsite": LINK("<site>"),
    # ... to directories outside
    "S/static/lout": LINK("../static2/deep"),
    "S/static/dir/loutabs": LINK("<site>/static2"),
    # ... to regular files, to nothing, to itself
    "S/static/lfile": LINK("dir/file.txt"),
    "S/static/dir/lsecret": LINK("../../secret.txt"),
    "S/static/lpage.html": LINK("dir/x.html"),
    "S/static/dangling": LINK("nowhere"),
    "S/static/loop": LINK("loop"),
}
LINK_PREFIXES = ["", "/dir", "/dir/sub", "/lin", "/dir/up"]
LINK_ANCHORS = ["lin", "labs", "lsib", "lcousin", "lchain", "up", "top", "lup", "lsite", "lout", "loutabs", "lfile", "lsecret", "lpage", "dangling", "loop",
                "file.txt", "missing", "dir", "sub", "x", "sock"]
LINK_DOTS = ["..", ".", "../..", "./..", "../."]
LINK_TAILS = ["", "/", "/file.txt", "/secret.txt", "/index.html", "/x", "/dir", "/dir/", "/dir/file.txt", "/static/file.txt", "/static2/file.txt", "/SITE/static/file.txt"]


def links_paths(info):
    seen = set()
    out = []

    def add(p):
        p = p.replace("SITE", info["sitename"])
        if p not in seen:
            seen.add(p)
            out.append(p)

    # own URLs: every entry, directly and through every link that leads to a directory (one and two links deep)
    entries = _entries(info)
    hops = [""] + ["/" + e for e in entries if os.path.islink(os.path.join(info["static"], e)) and os.path.isdir(os.path.join(info["static"], e))]
    few = ["file.txt", "secret.txt", "index.html", "x", "x.html", "dir", "dir/file.txt", "sub", "missing"]
    for hop in hops + [a + b for a in hops[1:] for b in ("/up", "/top", "/lsib", "/lin")]:
        for e in (entries + ["missing"]) if hop == "" else few:
            add(hop + "/" + e)
            add(hop + "/" + e + "/")
            if e.endswith(".html"):
                add(hop + "/" + e[:-5])
    own = len(out)
    for pre in LINK_PREFIXES:
        for anchor in LINK_ANCHORS:
            for dots in LINK_DOTS:
                for tail in LINK_TAILS:
                    add(pre + "/" + anchor + "/" + dots + tail)
    return [(p, i < own) for i, p in enumerate(out)]


def links_cases(quick=True):
    info = materialise(LAYOUT_L)
    n = 0
    for i, (path, own) in enumerate(links_paths(info)):
        for kind in ("files", "pages"):
            for side in ("wsgi", "asgi"):
                if quick and not own and (i + (kind == "pages") + (side == "asgi")) % 2:
                    continue  # quick tier: a dot-segment path goes to two of the four kind x side combinations (alternating)
                n += 1
                case = {"layout": LAYOUT_L, "kind": kind, "side": side, "mode": MODES[(n + i) % len(MODES)], "mounted": ((n + i) // 5) % 3 == 0, "path": path}
                if ((n + i) // 4) % 4 == 1:
                    case["h404"] = True
                yield case


# ---- conditional ----------------------------------------------------------------------------

FUTURE = "Fri, 01 Jan 2100 00:00:00 GMT"
VALIDATORS = [
    [["If-None-Match", "*"]],
    [["If-Modified-Since", FUTURE]],
    [["If-None-Match", '"no-such-tag"'], ["If-Modified-Since", FUTURE]],
    [["If-None-Match", '"no-such-tag", W/"another"']],
    [["If-Modified-Since", FUTURE], ["If-None-Match", "*"]],
]


def conditional_cases():
    n = 0
    for layout in (LAYOUT_A, LAYOUT_B, LAYOUT_N):
        info = materialise(layout)
        paths = []
        entries = _entries(info)
        if layout is LAYOUT_N:
            entries = [e for e in entries if e.count("/") == 0 or e.startswith("dirs/sock")][:24] + ["sock", "sock3", "dirs/sock2", "dirs/~"]
        for rel in entries:
            base = "/" + rel
            paths += [base, base + "/", base + "/.", "/../static" + base]
            if base.endswith(".html"):
                paths += [base[:-5]]
        paths += ["/" + d for d in DECOYS] + ["/", "", "/.", "/missing", "/missing/", "/dir/missing", "/missing.html", "/file.txt/x", "/index"]
        for path in paths:
            for kind in ("files", "pages"):
                for side in ("wsgi", "asgi"):
                    for headers in VALIDATORS:
                        n += 1
                        yield {"layout": layout, "kind": kind, "side": side, "mode": MODES[n % len(MODES)], "mounted": (n // 7) % 3 == 0, "path": path,
                               "headers": headers, "h404": (n // 5) % 4 == 2}


# ---- sequence -------------------------------------------------------------------------------

SEQ_LAYOUT = {
    "secret.txt": "OUTER-SECRET",
    "S/secret.txt": "SITE-SECRET",
    "S/static.html": "SITE-STATIC-HTML",
    "S/a.txt": "SITE-A",
    "S/static2/a.txt": "SIBLING-A",
    "S/static/index.html": None,
    "S/static/a.txt": None,
    "S/static/d/index.html": None,
    "S/static/d/f.txt": None,
    "S/static/p.html": None,
}
# steps: ["get", path] | ["put", rel, text] | ["del", rel] | ["rmtree", rel] | ["mkdir", rel] | ["chdir", "outer"|"site"|"static"|"tmp"|"back"]
SCENARIOS = {
    "file-appears-changes-disappears": [["get", "/new.txt"], ["put", "new.txt", "v1"], ["get", "/new.txt"], ["put", "new.txt", "version two, which is longer"],
                                        ["get", "/new.txt"], ["put", "new.txt", "3"], ["get", "/new.txt"], ["put", "new.txt", ""], ["get", "/new.txt"],
                                        ["del", "new.txt"], ["get", "/new.txt"], ["get", "/a.txt"]],
    "directory-appears": [["get", "/n"], ["get", "/n/"], ["mkdir", "n"], ["get", "/n"], ["get", "/n/"], ["put", "n/index.html", "N-INDEX"], ["get", "/n"], ["get", "/n/"],
                          ["get", "/n/index.html"], ["rmtree", "n"], ["get", "/n"], ["get", "/n/"], ["put", "n.html", "N-HTML"], ["get", "/n"], ["get", "/n/"],
                          ["del", "n.html"], ["get", "/n"]],
    "file-becomes-directory": [["get", "/a.txt"], ["get", "/a.txt/"], ["del", "a.txt"], ["put", "a.txt/index.html", "A-AS-DIR-INDEX"], ["get", "/a.txt"], ["get", "/a.txt/"],
                               ["get", "/a.txt/index.html"], ["rmtree", "a.txt"], ["put", "a.txt", "A-BACK"], ["get", "/a.txt"], ["get", "/a.txt/"], ["get", "/a.txt/index.html"]],
    "directory-becomes-file": [["get", "/d"], ["get", "/d/"], ["get", "/d/f.txt"], ["rmtree", "d"], ["put", "d", "D-AS-FILE"], ["get", "/d"], ["get", "/d/"], ["get", "/d/f.txt"],
                               ["del", "d"], ["get", "/d"], ["get", "/d/"], ["put", "d/index.html", "D-INDEX-2"], ["get", "/d"], ["get", "/d/"]],
    "index-swapped": [["get", "/"], ["get", "/index"], ["del", "index.html"], ["get", "/"], ["get", "/index"], ["get", "/index.html"], ["put", "index.html", "NEW-INDEX, longer than before .........."],
                      ["get", "/"], ["get", "/index"], ["get", "/index.html"]],
    "html-twin-next-to-name": [["get", "/q"], ["put", "q.html", "Q-HTML"], ["get", "/q"], ["put", "q", "Q-REAL"], ["get", "/q"], ["get", "/q.html"], ["del", "q"], ["get", "/q"],
                               ["del", "q.html"], ["get", "/q"], ["get", "/p"], ["del", "p.html"], ["get", "/p"], ["get", "/p.html"]],
    "working-directory-moves": [["get", "/a.txt"], ["chdir", "tmp"], ["get", "/a.txt"], ["get", "/../secret.txt"], ["get", "/d"], ["chdir", "outer"], ["get", "/a.txt"],
                                ["get", "/../a.txt"], ["chdir", "static"], ["get", "/a.txt"], ["get", "/../secret.txt"], ["get", "/../a.txt"], ["chdir", "site"], ["get", "/a.txt"],
                                ["get", "/d/"], ["chdir", "back"], ["get", "/a.txt"]],
    "refused-then-served": [["get", "/../secret.txt"], ["get", "/a.txt"], ["get", "/../static2/a.txt"], ["get", "/a.txt"], ["get", "/d"], ["get", "/a.txt"], ["get", "/missing"],
                            ["get", "/a.txt"], ["get", "/d/"], ["get", "/p"], ["get", "/a.txt/"], ["get", "/a.txt"], ["get", "/../a.txt"], ["get", "/d/f.txt"], ["get", "/"],
                            ["get", "/d"], ["get", "/nothing/"], ["get", "/d"], ["get", "/p"], ["get", "/d/"], ["get", "/p.html"], ["get", "/d"]],
    "same-again": [["get", "/a.txt"], ["get", "/a.txt"], ["get", "/d"], ["get", "/d"], ["get", "/d/"], ["get", "/d/"], ["get", "/p"], ["get", "/p"], ["get", "/missing"], ["get", "/missing"],
                   ["put", "missing", "FOUND"], ["get", "/missing"], ["get", "/missing"]],
}
SEQ_MODES = ["absolute", "relative", "package", "relative-dot", "absolute-slash"]


def sequence_cases():
    n = 0
    for name in SCENARIOS:
        for kind in ("files", "pages"):
            for side in ("wsgi", "asgi"):
                for mounted in (False, True):
                    n += 1
                    yield {"scenario": name, "steps": SCENARIOS[name], "kind": kind, "side": side, "mode": SEQ_MODES[n % len(SEQ_MODES)], "mounted": mounted,
                           "h404": (n // 3) % 3 == 1}


def oracle_sequence(case) -> Result:
    r = Result()
    kind, side, mode, mounted = case["kind"], case["side"], case["mode"], case["mounted"]
    info = materialise(SEQ_LAYOUT, fresh=True)
    static_rel = info["sitename"] + "/static/"
    extra_dirs = set()
    cwd = os.getcwd()
    added_path = info["outer"] not in sys.path
    gets = 0
    try:
        app = build_app(info, kind, side, mode, mounted, case.get("h404", False))
        for i, step in enumerate(case["steps"]):
            op = step[0]
            if op == "get":
                gets += 1
                sub = {"kind": kind, "side": side, "mode": mode, "mounted": mounted, "path": step[1], "h404": case.get("h404", False)}
                run, opened = request(app, side, step[1], mounted)
                judge(r, info, sub, app, run, opened, where=f"[{case.get('scenario', '?')} step {i}, after {case['steps'][max(0, i - 2):i]!r}] ")
                continue
            if op == "chdir":
                os.chdir({"outer": info["outer"], "site": info["site"], "static": info["static"], "tmp": os.path.dirname(info["outer"]), "back": cwd}[step[1]])
                continue
            full = os.path.join(info["static"], *step[1].split("/"))
            if op == "put":
                os.makedirs(os.path.dirname(full), exist_ok=True)
                data = step[2].encode("utf-8")
                with open(full, "wb") as fh:
                    fh.write(data)
                info["files"][static_rel + step[1]] = data
            elif op == "del":
                os.remove(full)
                del info["files"][static_rel + step[1]]
            elif op == "mkdir":
                os.makedirs(full)
                extra_dirs.add(step[1])
            elif op == "rmtree":
                shutil.rmtree(full)
                for rel in [rel for rel in info["files"] if rel.startswith(static_rel + step[1] + "/")]:
                    del info["files"][rel]
                extra_dirs = {d for d in extra_dirs if d != step[1] and not d.startswith(step[1] + "/")}
            else:
                raise core.HarnessError(f"unknown step {step!r}")
            info["inside"], info["dirs"] = _inside(info)
            info["dirs"] |= extra_dirs
    finally:
        os.chdir(cwd)
        if added_path and info["outer"] in sys.path:
            sys.path.remove(info["outer"])
        sys.modules.pop(info["sitename"], None)
        shutil.rmtree(info["outer"], ignore_errors=True)
    r.nontrivial = True
    r.weight = max(1, gets)
    r.label(f"kind={kind}", f"side={side}", f"mode={mode}", "mounted" if mounted else "bare", f"scenario={case.get('scenario', '?')}")
    if case.get("h404"):
        r.label("handle_404")
    return r


# ---- generated layouts ------------------------------------------------------------------------

_names = st.sampled_from(["a", "b.txt", "index.html", "p.html", "p", "..x", ".h", "%2e%2e", "é", "d", "e", "secret.txt", "static2", "q.html", "...",
                          "v1.2", "v1.2.html", "B.TXT", "a b", "a\\b", "D", "d.html", "mnt", "mnt", "mnt.html"])


@st.composite
def layout_case(draw):
    layout = {"secret.txt": "OUTER-SECRET", "S/secret.txt": "SITE-SECRET", "S/static2/a": "SIBLING-A", "S/static.html": "SITE-STATIC-HTML"}
    nfiles = draw(st.integers(1, 8))
    rels = []
    for _ in range(nfiles):
        depth = draw(st.integers(1, 3))
        segs = [draw(_names) for _ in range(depth)]
        rels.append("/".join(segs))
    # a path cannot be both file and directory: drop files that are prefixes of others
    # a third of the layouts: symbolic links (leaves of the layout) to directories and files inside and outside the directory,
    # by relative or absolute target.  Where a link leads: a position in the tree, written from the outer directory
    links = {}
    if draw(st.integers(0, 2)) == 0:
        dirs_in = sorted({"/".join(r0.split("/")[:i]) for r0 in rels for i in range(1, len(r0.split("/")))})
        places = [["S", "static"] + d.split("/") for d in dirs_in] + [["S", "static"] + r0.split("/") for r0 in rels]
        places += [["S", "static"], ["S"], [], ["S", "static2"], ["S", "secret.txt"], ["S", "static", "nowhere"]]
        for _ in range(draw(st.integers(1, 3))):
            where = [draw(_names) for _ in range(draw(st.integers(0, 2)))] + [draw(st.sampled_from(["l1", "l2", "d", "p", "l1.html"]))]
            to = draw(st.sampled_from(places))
            if draw(st.booleans()):
                target = "/".join((["<site>"] + to[1:]) if to[:1] == ["S"] else (["<outer>"] + to))
            else:
                target = posixpath.relpath("/" + "/".join(to), "/" + "/".join(["S", "static"] + where[:-1]))
            links["/".join(where)] = LINK(target)
        rels += list(links)
    rels = sorted(set(rels))
    keep = [r0 for r0 in rels if not any(o.startswith(r0 + "/") for o in rels)]
    for r0 in keep:
        layout["S/static/" + r0] = links.get(r0)
    links = [r0 for r0 in keep if r0 in links]
    pool = sorted({s for r0 in keep for s in r0.split("/")}) + ["", ".", "..", "missing", "static", "static2", "secret.txt", "SITE", "mnt"]
    n = draw(st.integers(0, 4))
    path = "/" + "/".join(draw(st.sampled_from(pool)) for _ in range(n))
    if draw(st.booleans()) and not path.endswith("/"):
        path += "/"
    if draw(st.integers(0, 4)) == 0:
        base = draw(st.sampled_from(keep))
        path = "/" + base + draw(st.sampled_from(["", "/", ".html", "/index.html", "/..", "/../" + base.split("/")[-1]]))
    elif links and draw(st.booleans()):
        # dot segments right after a link, then one of the names of the layout
        # (mostly the tail end of an entry: what the file system finds next to the link's target is then likely to exist)
        if draw(st.integers(0, 3)):
            tail = draw(st.sampled_from(keep)).split("/")[draw(st.integers(0, 2)):]
        else:
            tail = [draw(st.sampled_from(pool)) for _ in range(draw(st.integers(0, 2)))]
        path = "/" + draw(st.sampled_from(links)) + "/" + draw(st.sampled_from(LINK_DOTS)) + "/" + "/".join(tail)
    case = {
        "layout": layout,
        "kind": draw(st.sampled_from(["files", "pages", "pages"])),
        "side": draw(st.sampled_from(["wsgi", "asgi"])),
        "mode": draw(st.sampled_from(MODES)),
        "mounted": draw(st.booleans()),
        "path": path,
    }
    extra = draw(st.integers(0, 5))
    if extra == 0:
        case["h404"] = True
    elif extra == 1:
        case["headers"] = draw(st.sampled_from(VALIDATORS))
    elif extra == 2 and case["mounted"]:
        case["path"] = ""
    elif extra == 3 and case["mounted"]:
        case["minimal"] = True  # the mount is the server's (SCRIPT_NAME / root_path), optional keys left out
    return case


def _fix_site(case, info):
    return {**case, "path": case["path"].replace("SITE", info["sitename"])}


def oracle_layouts(case) -> Result:
    info = materialise(case["layout"])
    return oracle(_fix_site(case, info))


SUBS["layouts"] = oracle_layouts
SUBS["variants"] = oracle
SUBS["names"] = oracle
SUBS["conditional"] = oracle
SUBS["links"] = oracle
SUBS["sequence"] = oracle_sequence


def enum_shard(rec, k, nshards, sub, quick):
    """every nshards-th case of an enumerated sub-check (enumeration order kept inside the shard)"""
    g = core.guarded(oracle)
    cases = {"names": lambda: names_cases(quick), "conditional": conditional_cases, "variants": variant_cases, "links": lambda: links_cases(quick)}[sub]()
    for i, case in enumerate(cases):
        if i % nshards != k:
            continue
        res = g(case)
        rec.count(sub, case, res)
        new, old = rec.split(res)
        rec.note_known(old)
        for f in new:
            rec.add_violation(sub, f, case)
            rec.skip.add(f.bucket)


def run(rec, only=None):
    quick = rec.tier == "quick"
    if only is None or "grid" in only:
        _park_loop()
        if quick:
            core.run_sharded(rec, grid_shard, 16, core.ncpu(), (3, 40))
        else:
            core.run_sharded(rec, grid_shard, 64, core.ncpu(), (3, 1))
    rec.exhaustive["grid"] = not quick  # quick: all paths of <= 2 segments, every 40th of 3 segments
    # (the sub-checks that fork worker processes come first: the in-process ones start event-loop threads)
    for sub in ("variants", "names", "conditional", "links"):
        if only is None or sub in only:
            _park_loop()
            core.run_sharded(rec, enum_shard, 16, core.ncpu(), (sub, quick))
        rec.exhaustive[sub] = True
    core.drive_cases(rec, "sequence", sequence_cases(), oracle_sequence)
    rec.exhaustive["sequence"] = True
    _park_loop()  # (the thorough tier forks here as well)
    core.drive_hypothesis(rec, "layouts", layout_case(), oracle_layouts, 600 if quick else 60000)
    rec.exhaustive["layouts"] = False
