"""C07 - Static-file apps serve exactly the files inside their directory, nothing else."""
from __future__ import annotations

import itertools
import os
import sys
from urllib.parse import unquote, urljoin, urlsplit

from hypothesis import strategies as st

import baize.asgi as A
import baize.wsgi as W

from harness import core, gateways as gw, tmpfiles, vfs
from harness.core import Result

LEVEL = "exploration"
RULES = {
    "grid": "exhaustive: every path of up to d segments over the alphabet {'', '.', '..', file, dir, '..name', '.hidden', '%2e%2e', "
    "'index.html', 'x', 'x.html', 'y', missing, unicode, decoy names, 'static', 'static2', the site directory's name} with and without "
    "leading/trailing slash, on 2 fixed layouts with parent/sibling decoys x Files/Pages x WSGI/ASGI x directory given as absolute / "
    "relative / package-relative path x mounted under a prefix or not (mode rotates with the path index); non-trivial = path has a '..', "
    "a dotted/encoded name, reaches a decoy name or is a directory URL on Pages",
    "variants": "exhaustive: for every file and directory of the two fixed layouts and every decoy: the exact URL and 14 non-canonical, "
    "escaping and re-entering variants x Files/Pages x WSGI/ASGI (modes rotating)",
    "layouts": "Hypothesis: generated layouts x generated paths, same oracle",
}
ASSUMPTIONS = [
    "no symbolic links (the statement says 'lexically'); POSIX path semantics",
    "non-canonical URLs (dot segments, doubled slashes) may be served per the safety rule or answered not-found / "
    "(Pages, directory) redirected; when both d/ and d.html exist /d may redirect or serve d.html; a directory without index page may redirect or 404",
]

_ROOTS = {}


def _reset():
    _ROOTS.clear()


core.AFTER_FORK.append(_reset)

LAYOUT_A = {
    "secret.txt": "OUTER-SECRET",
    "S/secret.txt": "SITE-SECRET",
    "S/static.html": "SITE-STATIC-HTML",
    "S/static2/file.txt": "SIBLING-FILE",
    "S/static2/index.html": "SIBLING-INDEX",
    "S/staticfile": "SIBLING-PREFIX-FILE",
    "S/other.html": "SITE-OTHER-HTML",
    "S/otherdir/index.html": "SITE-OTHERDIR-INDEX",
    "S/static/file.txt": None,
    "S/static/index.html": None,
    "S/static/x": None,
    "S/static/x.html": None,
    "S/static/y.html": None,
    "S/static/dir/index.html": None,
    "S/static/dir/file.txt": None,
    "S/static/dir/sub/file.txt": None,
    "S/static/dir/..name": None,
    "S/static/d2/inner.txt": None,
    "S/static/d2.html": None,
    "S/static/..name": None,
    "S/static/.hidden": None,
    "S/static/%2e%2e": None,
    "S/static/é.txt": None,
    "S/static/secret.txt": None,
    "S/static/static/file.txt": None,
    "S/static/100%/a?b#c.txt": None,
}
LAYOUT_B = {
    "secret.txt": "OUTER-SECRET",
    "S/secret.txt": "SITE-SECRET",
    "S/static.html": "SITE-STATIC-HTML",
    "S/static2/file.txt": "SIBLING-FILE",
    "S/static/file.txt": None,
    "S/static/x.html": None,
    "S/static/dir/file.txt": None,
    "S/static/dir/x.html": None,
    "S/static/static2/file.txt": None,
    "S/static/...": None,
    "S/static/..": None,  # cannot exist: skipped when materialising
    "S/static/.../file.txt": None,
    # directories named like the files the pages app looks for
    "S/static/odd/index.html/inner.txt": None,
    "S/static/odd2.html/file.txt": None,
}


def materialise(layout):
    """-> dict(outer, site, static, sitename, files {relpath under outer: content})"""
    key = core.canon(layout)
    if key in _ROOTS:
        return _ROOTS[key]
    outer = tmpfiles.workdir("verif_c07_")
    sitename = "site_" + os.path.basename(outer).replace("-", "_").replace(".", "_")
    files = {}
    for rel, content in layout.items():
        rel = rel.replace("S/", sitename + "/", 1) if rel.startswith("S/") else rel
        if os.path.basename(rel) in ("..", ".") or ".../" in rel and False:
            continue
        path = os.path.join(outer, *rel.split("/"))
        try:
            os.makedirs(os.path.dirname(path), exist_ok=True)
            if os.path.isdir(path):
                continue
            data = (content if content is not None else "FILE:" + rel).encode("utf-8")
            with open(path, "wb") as fh:
                fh.write(data)
            files[rel] = data
        except OSError:
            continue
    with open(os.path.join(outer, sitename, "__init__.py"), "w") as fh:
        fh.write("")
    # the surrounding directory is importable as well, so that the site is also reachable as the
    # sub-package "<outer>.<site>" (mode "dotted-package")
    with open(os.path.join(outer, "__init__.py"), "w") as fh:
        fh.write("")
    info = {"outer": outer, "site": os.path.join(outer, sitename), "static": os.path.join(outer, sitename, "static"), "sitename": sitename, "files": files}
    _ROOTS[key] = info
    return info


BASE = ["<outer>", "<site>", "static"]  # symbolic position of the configured directory


def resolve(path, sitename="<site>"):
    """Lexical resolution of the URL path relative to the configured directory (like normpath of
    directory + path): list of segments below the directory, or None when the result lies
    outside it.  A path may leave the directory and come back ("/../static/f")."""
    base = ["<outer>", sitename, "static"]
    out = list(base)
    for seg in path.split("/"):
        if seg in ("", "."):
            continue
        if seg == "..":
            if out:
                out.pop()
        else:
            out.append(seg)
    if out[: len(base)] != base:
        return None
    return out[len(base):]


def is_canonical(path):
    if not path.startswith("/"):
        return False
    segs = path.split("/")[1:]
    if segs and segs[-1] == "":
        segs = segs[:-1]
    return all(s not in ("", ".", "..") for s in segs)


def build_app(info, kind, side, mode, mounted):
    M = W if side == "wsgi" else A
    cls = M.Files if kind == "files" else M.Pages
    cwd = os.getcwd()
    try:
        if mode == "absolute":
            app = cls(info["static"])
        elif mode == "relative":
            os.chdir(info["site"])
            app = cls("static")
        elif mode == "relative-dot":
            os.chdir(info["site"])
            app = cls("./static/")
        elif mode == "package":
            if info["outer"] not in sys.path:
                sys.path.insert(0, info["outer"])
            app = cls("static", package=info["sitename"])
        elif mode == "dotted-package":
            parent = os.path.dirname(info["outer"])
            if parent not in sys.path:
                sys.path.insert(0, parent)
            app = cls("static", package=os.path.basename(info["outer"]) + "." + info["sitename"])
        else:
            raise core.HarnessError(mode)
    finally:
        os.chdir(cwd)
    if mounted:
        app = M.Subpaths(("/mnt", app))
    return app


def request(app, side, path, mounted):
    rq = gw.areq(path=("/mnt" + path) if mounted else path)
    vfs.arm()
    try:
        run = gw.call_wsgi(app, rq) if side == "wsgi" else gw.call_asgi(app, rq)
    finally:
        opened = vfs.disarm()
    return run, opened


def oracle(case) -> Result:
    r = Result()
    info = materialise(case["layout"])
    kind, side, mode, mounted, path = case["kind"], case["side"], case["mode"], case["mounted"], case["path"]
    files = info["files"]
    static_rel = info["sitename"] + "/static"
    inside = {rel[len(static_rel) + 1:]: data for rel, data in files.items() if rel.startswith(static_rel + "/")}
    dirs = set()
    for rel in inside:
        parts = rel.split("/")
        for i in range(1, len(parts)):
            dirs.add("/".join(parts[:i]))
    ctx = f"{kind} {side} mode={mode} mounted={mounted} path {path!r}"
    app = build_app(info, kind, side, mode, mounted)
    run, opened = request(app, side, path, mounted)
    if run.exc is not None:
        r.fail(f"C07:{side}:raised:{type(run.exc).__name__}", f"{ctx}: {type(run.exc).__name__}: {run.exc}")
        _labels(r, case, None)
        return r
    status = run.status_code
    segs = resolve(path, info["sitename"])
    target = "/".join(segs) if segs is not None else None
    # audit: nothing of the surrounding tree outside the directory is opened
    for p in opened:
        if p.startswith(info["outer"] + os.sep) and not (p == info["static"] or p.startswith(info["static"] + os.sep)):
            r.fail(f"C07:{side}:opened-outside-directory", f"{ctx}: opened {p[len(info['outer']):]!r}")
    # rule 1: safety
    if status in (200, 206):
        cands = []
        if target is not None:
            cands.append(target)
            if kind == "pages":
                cands.append(target + ".html")
                if path.endswith("/") or target == "":
                    cands.append((target + "/" if target else "") + "index.html")
        served = [c for c in cands if c in inside and inside[c] == run.body]
        if not served:
            which = [rel for rel, data in files.items() if data == run.body]
            r.fail(
                f"C07:{side}:{kind}:served-wrong-file" + (":outside" if which and not which[0].startswith(static_rel + "/") else ""),
                f"{ctx}: status {status} body {run.body[:60]!r} is the content of {which!r}; lexical resolution gives {target!r} (candidates {cands!r})",
            )
    # rule 2: escape paths
    if segs is None and status != 404:
        r.fail(f"C07:{side}:{kind}:escape-not-404", f"{ctx}: path climbs above the directory, status {status} body {run.body[:40]!r} Location {run.get('location')!r}")
    # rule 3: completeness on canonical URLs
    if segs is not None and is_canonical(path):
        trailing = path.endswith("/") and path != "/"
        if kind == "files" and trailing:
            # a URL ending in '/' is no regular file's own path ("every other path yields not-found"; the
            # statement itself tells '/d' and '/d/' apart): the file app has nothing to serve there
            if status != 404:
                r.fail("C07:%s:files:trailing-slash-served" % side, f"{ctx}: URL with trailing slash, lexical target {target!r}: status {status} body {run.body[:40]!r}")
        elif kind == "files" or not (trailing or target == ""):
            if target in inside and not trailing:
                if status != 200 or run.body != inside[target]:
                    r.fail(f"C07:{side}:{kind}:file-not-served", f"{ctx}: regular file {target!r} exists inside the directory, got status {status} body {run.body[:40]!r}")
            elif kind == "files":
                if status != 404:
                    r.fail(f"C07:{side}:files:expected-404", f"{ctx}: no regular file at {target!r}, got status {status}")
            else:  # pages, no trailing slash, not a regular file
                if target in dirs:
                    html_twin = (target + ".html") in inside
                    if status in (301, 302, 303, 307, 308):
                        check_redirect(r, info, app, case, run, path, inside, ctx)
                    elif status == 200 and html_twin and run.body == inside[target + ".html"]:
                        pass
                    elif status == 404 and ((target + "/index.html") not in inside):
                        pass
                    else:
                        r.fail(f"C07:{side}:pages:directory-url", f"{ctx}: directory URL without slash: status {status} body {run.body[:40]!r}")
                elif (target + ".html") in inside:
                    if status != 200 or run.body != inside[target + ".html"]:
                        r.fail(f"C07:{side}:pages:html-fallback", f"{ctx}: only {target + '.html'!r} exists, got status {status} body {run.body[:40]!r}")
                elif status != 404:
                    r.fail(f"C07:{side}:pages:expected-404", f"{ctx}: nothing at {target!r}, got status {status}")
        else:  # pages, directory URL with trailing slash (or the root)
            index = (target + "/" if target else "") + "index.html"
            if (target in dirs or target == "") and index in inside:
                if status != 200 or run.body != inside[index]:
                    r.fail(f"C07:{side}:pages:index-not-served", f"{ctx}: {index!r} exists, got status {status} Location {run.get('location')!r} body {run.body[:40]!r}")
            elif target in dirs or target == "":
                if status not in (404, 301, 302, 303, 307, 308):
                    r.fail(f"C07:{side}:pages:dir-without-index", f"{ctx}: status {status}")
            elif target in inside and status != 404:
                # '/a.txt/' names the index page of a directory 'a.txt', which does not exist
                r.fail(f"C07:{side}:pages:trailing-slash-on-file-served", f"{ctx}: {target!r} is a regular file, not a directory: status {status} body {run.body[:40]!r}")
            # trailing slash on a missing name: rules 1/2 only
    _labels(r, case, status)
    r.key = (core.canon(case["layout"])[:40], kind, side, mode, mounted, path)
    return r


def check_redirect(r, info, app, case, run, path, inside, ctx):
    side, mounted = case["side"], case["mounted"]
    loc = run.get("location")
    if not loc:
        r.fail(f"C07:{side}:pages:redirect-without-location", ctx)
        return
    req_url = "http://testserver" + ("/mnt" if mounted else "") + path
    final = urljoin(req_url, loc)
    parts = urlsplit(final)
    got = unquote(parts.path)
    if mounted:
        if not got.startswith("/mnt"):
            r.fail(f"C07:{side}:pages:redirect-leaves-mount", f"{ctx}: Location {loc!r} -> {final!r}")
            return
        got = got[len("/mnt"):]
    if parts.netloc != "testserver" or got != path + "/":
        r.fail(f"C07:{side}:pages:redirect-target", f"{ctx}: Location {loc!r} resolves to {final!r}, expected the same URL plus '/'")
        return
    run2, _ = request(app, side, got, mounted)
    target = "/".join(resolve(path, info["sitename"]))
    index = target + "/index.html"
    if index in inside:
        if run2.exc is not None or run2.status_code != 200 or run2.body != inside[index]:
            r.fail(f"C07:{side}:pages:redirect-does-not-reach-index", f"{ctx}: following the redirect to {got!r} gives status {run2.status_code} Location {run2.get('location')!r}, expected {index!r}")
    elif run2.exc is None and run2.status_code not in (404,):
        r.fail(f"C07:{side}:pages:redirect-then", f"{ctx}: directory without index: following the redirect gives status {run2.status_code}")


def _labels(r, case, status):
    path = case["path"]
    segs = path.split("/")
    nt = ".." in segs or any(s.startswith(".") and s not in ("", ".") for s in segs) or "%2e%2e" in segs or any(s in ("secret.txt", "static2", "static.html", "staticfile", "SITE") for s in segs)
    if case["kind"] == "pages" and (path.endswith("/") or "dir" in segs or "d2" in segs):
        nt = True
    r.nontrivial = nt
    r.label(f"kind={case['kind']}", f"side={case['side']}", f"mode={case['mode']}", "mounted" if case["mounted"] else "bare", f"status={status}")
    if resolve(path) is None and resolve(path, "SITE") is None:
        r.label("escape")
    elif ".." in segs:
        r.label("re-entry")


SUBS = {"grid": oracle, "layouts": oracle}

# ------------------------------------------------------------------------------------------

SEGMENTS = ["", ".", "..", "file.txt", "dir", "..name", ".hidden", "%2e%2e", "index.html", "x", "x.html", "y", "d2", "missing", "é.txt",
            "secret.txt", "static", "static2", "static.html", "staticfile", "SITE", "sub", "...", "100%", "a?b#c.txt", "other", "otherdir"]
MODES = ["absolute", "relative", "package", "absolute", "relative-dot", "dotted-package"]


def grid_paths(depth):
    for n in range(0, depth + 1):
        for combo in itertools.product(SEGMENTS, repeat=n):
            body = "/".join(combo)
            yield "/" + body
            if n:
                yield "/" + body + "/"
    yield ""
    yield "file.txt"
    yield "../secret.txt"
    yield "dir"


def grid_shard(rec, k, nshards, depth, stride):
    g = core.guarded(oracle)
    i = 0
    for li, layout in enumerate((LAYOUT_A, LAYOUT_B)):
        info = materialise(layout)
        for path in grid_paths(depth):
            path = path.replace("SITE", info["sitename"])
            i += 1
            if i % nshards != k:
                continue
            if path.count("/") > 2 and (i // nshards) % stride != 0:
                continue
            combos = [(kind, side) for kind in ("files", "pages") for side in ("wsgi", "asgi")]
            for j, (kind, side) in enumerate(combos):
                mode = MODES[(i + j) % len(MODES)]
                mounted = ((i + j) // len(MODES)) % 3 == 0
                case = {"layout": layout, "kind": kind, "side": side, "mode": mode, "mounted": mounted, "path": path}
                res = g(case)
                rec.count("grid", case, res)
                new, old = rec.split(res)
                rec.note_known(old)
                for f in new:
                    rec.add_violation("grid", f, case)
                    rec.skip.add(f.bucket)


def variant_cases():
    """For every file and directory of the fixed layouts (and every decoy): the exact URL and its
    non-canonical / escaping / re-entering variants."""
    n = 0
    for layout in (LAYOUT_A, LAYOUT_B):
        info = materialise(layout)
        static_rel = info["sitename"] + "/static/"
        rels = set()
        for rel in info["files"]:
            if rel.startswith(static_rel):
                parts = rel[len(static_rel):].split("/")
                for i in range(1, len(parts) + 1):
                    rels.add("/".join(parts[:i]))
        decoys = ["../secret.txt", "../../secret.txt", "../static.html", "../static2/file.txt", "../staticfile", "../static2/", "../static2",
                  "../" + "static/../secret.txt", "..", "../", "../..", "%2e%2e/secret.txt", "..%2fsecret.txt", "../__init__.py", "../other", "../other.html", "../otherdir/", "../otherdir", "../otherdir/index",
                  "../static2/index"]
        paths = []
        for rel in sorted(rels):
            base = "/" + rel
            stem = base[:-5] if base.endswith(".html") else None
            paths += [base, base + "/", "/." + base, "//" + rel, base + "/.", base + "/..", "/zz/.." + base, "/../static" + base,
                      "/../../" + info["sitename"] + "/static" + base, base + "/index.html", base + ".html", base.replace("/", "//"),
                      "/dir/.." + base, base + "/../" + rel.split("/")[-1]]
            if stem:
                paths += [stem, stem + "/"]
        paths += ["/" + d for d in decoys] + ["/dir/../" + d for d in decoys] + ["/", "", "/index.html", "/."]
        for path in paths:
            for kind in ("files", "pages"):
                for side in ("wsgi", "asgi"):
                    n += 1
                    yield {"layout": layout, "kind": kind, "side": side, "mode": MODES[n % len(MODES)], "mounted": (n // 5) % 3 == 0, "path": path}


_names = st.sampled_from(["a", "b.txt", "index.html", "p.html", "p", "..x", ".h", "%2e%2e", "é", "d", "e", "secret.txt", "static2", "q.html", "..."])


@st.composite
def layout_case(draw):
    layout = {"secret.txt": "OUTER-SECRET", "S/secret.txt": "SITE-SECRET", "S/static2/a": "SIBLING-A", "S/static.html": "SITE-STATIC-HTML"}
    nfiles = draw(st.integers(1, 8))
    rels = []
    for _ in range(nfiles):
        depth = draw(st.integers(1, 3))
        segs = [draw(_names) for _ in range(depth)]
        rels.append("/".join(segs))
    # a path cannot be both file and directory: drop files that are prefixes of others
    rels = sorted(set(rels))
    keep = [r0 for r0 in rels if not any(o.startswith(r0 + "/") for o in rels)]
    for r0 in keep:
        layout["S/static/" + r0] = None
    pool = sorted({s for r0 in keep for s in r0.split("/")}) + ["", ".", "..", "missing", "static", "static2", "secret.txt", "SITE"]
    n = draw(st.integers(0, 4))
    path = "/" + "/".join(draw(st.sampled_from(pool)) for _ in range(n))
    if draw(st.booleans()) and not path.endswith("/"):
        path += "/"
    if draw(st.integers(0, 4)) == 0:
        base = draw(st.sampled_from(keep))
        path = "/" + base + draw(st.sampled_from(["", "/", ".html", "/index.html", "/..", "/../" + base.split("/")[-1]]))
    return {
        "layout": layout,
        "kind": draw(st.sampled_from(["files", "pages", "pages"])),
        "side": draw(st.sampled_from(["wsgi", "asgi"])),
        "mode": draw(st.sampled_from(MODES)),
        "mounted": draw(st.booleans()),
        "path": path,
    }


def _fix_site(case, info):
    return {**case, "path": case["path"].replace("SITE", info["sitename"])}


def oracle_layouts(case) -> Result:
    info = materialise(case["layout"])
    return oracle(_fix_site(case, info))


SUBS["layouts"] = oracle_layouts
SUBS["variants"] = oracle


def run(rec, only=None):
    quick = rec.tier == "quick"
    if quick:
        core.run_sharded(rec, grid_shard, 16, core.ncpu(), (3, 40))
    else:
        core.run_sharded(rec, grid_shard, 64, core.ncpu(), (3, 1))
    rec.exhaustive["grid"] = not quick  # quick: all paths of <= 2 segments, every 40th of 3 segments
    core.drive_cases(rec, "variants", variant_cases(), oracle)
    rec.exhaustive["variants"] = True
    core.drive_hypothesis(rec, "layouts", layout_case(), oracle_layouts, 600 if quick else 10000)
    rec.exhaustive["layouts"] = False
