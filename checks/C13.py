"""C13 - Response headers cannot be split or smuggled."""
from __future__ import annotations

import re
from urllib.parse import unquote

from hypothesis import strategies as st

import baize.asgi as basgi
import baize.wsgi as bwsgi
from baize.datastructures import URL

from harness import core, gateways as gw
from harness.core import Result

LEVEL = "exploration"
RULES = {
    "atheris": "thorough tier: Atheris/libFuzzer coverage-guided campaign; bytes are decoded into the same structured case and judged by the same oracle inside the target (half of the jobs start from an empty corpus, half from two small valid inputs)",
    "history": "Hypothesis: histories of up to 12 mutations (item assignment, append, update with mapping / pairs / keywords / another "
    "header mapping, setdefault, delete) on the header mapping of a response with keys/values over an alphabet weighted to CR, LF, "
    "NUL, ';', ',', '=', quotes, DEL, U+0085, non-ASCII; then set_cookie/delete_cookie with hostile names/values and the response is "
    "sent through the WSGI and the ASGI gateway; non-trivial = the history contains at least one forbidden character",
    "redirect": "Hypothesis: redirect targets (str and URL objects) over the same alphabet plus spaces, non-ASCII and percent "
    "sequences; non-trivial = the target contains CR/LF/NUL/space/non-ASCII",
    "exh": "exhaustive: each of the 7 mutation paths x key/value position x every code point 0..255 placed inside the key or the value",
}
ASSUMPTIONS = [
    "constructor-supplied headers are outside the statement (it speaks of mutating operations)",
    "for a multi-pair update the pairs before the offending one may have been applied",
    "cookie text with code points above U+00FF may be rejected with an error instead of being escaped (then no header is emitted)",
    "a redirect target is compared after one percent-decoding (targets may already contain percent sequences)",
]

FORBIDDEN = ("\r", "\n", "\x00")
AUTO = {"content-length", "content-type", "location"}


def bad(s: str) -> bool:
    return any(c in s for c in FORBIDDEN)


def make_response(kind, side):
    mod = bwsgi if side == "wsgi" else basgi
    if kind == "empty":
        return mod.Response(200)
    if kind == "plain":
        return mod.PlainTextResponse("hello")
    if kind == "json":
        return mod.JSONResponse({"a": 1})
    if kind == "redirect":
        return mod.RedirectResponse("/next")
    raise core.HarnessError(kind)


def apply_history(r: Result, headers, ops, side):
    """Apply ops to the real mapping and to the model dict."""
    model = dict(headers.items())
    for i, op in enumerate(ops):
        name = op[0]
        before = dict(headers.items())
        where = f"{side} step {i} {op!r}"
        pairs = []
        if name in ("set", "append", "setdefault"):
            pairs = [(op[1], op[2])]
        elif name in ("update_map", "update_pairs", "update_kw", "update_headers"):
            pairs = [tuple(p) for p in op[1]]
        try:
            if name == "set":
                headers[op[1]] = op[2]
            elif name == "append":
                headers.append(op[1], op[2])
            elif name == "setdefault":
                headers.setdefault(op[1], op[2])
            elif name == "update_map":
                headers.update(dict(pairs))
            elif name == "update_pairs":
                headers.update(list(pairs))
            elif name == "update_kw":
                headers.update(**dict(pairs))
            elif name == "update_headers":
                from baize.datastructures import Headers

                headers.update(Headers(list(pairs)))
            elif name == "del":
                try:
                    del headers[op[1]]
                except KeyError:
                    pass
            else:
                raise core.HarnessError(name)
            raised = None
        except ValueError as exc:
            raised = exc
        except (TypeError, KeyError) as exc:
            raised = exc
        after = dict(headers.items())
        # the mapping must never hold a forbidden character, whatever happened
        for k, v in after.items():
            if bad(k) or bad(v):
                r.fail(f"C13:stored-forbidden:{name}", f"{where}: mapping now holds {k!r}: {v!r}")
        if name == "del":
            model.pop(op[1].lower(), None)
            if after != model:
                r.fail("C13:model:del", f"{where}: mapping {after!r}, model {model!r}")
            continue
        if name == "update_kw":
            offenders = [p for p in pairs if bad(p[0]) or bad(p[1])]
        else:
            offenders = [p for p in pairs if bad(p[0]) or bad(p[1])]
        # which pairs are effective
        if name == "setdefault":
            effective = [] if pairs[0][0].lower() in model else pairs
            offenders = [p for p in effective if bad(p[0]) or bad(p[1])]
        elif name == "append":
            k, v = pairs[0]
            if not bad(k) and k.lower() in model:
                effective = [(k, f"{model[k.lower()]}, {v}")]
            else:
                effective = pairs
        elif name in ("update_map", "update_kw"):
            effective = list(dict(pairs).items())
            offenders = [p for p in effective if bad(p[0]) or bad(p[1])]
        elif name == "update_headers":
            from baize.datastructures import Headers

            effective = list(Headers(list(pairs)).items())
            offenders = [p for p in effective if bad(p[0]) or bad(p[1])]
        else:
            effective = pairs
        if offenders:
            if raised is None:
                r.fail(f"C13:not-rejected:{name}", f"{where}: forbidden character accepted without an error; mapping {after!r}")
            # pairs before the first offender may have been applied; nothing from the offender on
            first = next(i for i, p in enumerate(effective) if bad(p[0]) or bad(p[1]))
            allowed = dict(model)
            ok = after == allowed
            for p in effective[:first]:
                allowed[p[0].lower()] = p[1]
                ok = ok or after == allowed
            if not ok:
                r.fail(f"C13:partial-update:{name}", f"{where}: mapping {after!r} is neither the old state nor a prefix application")
            model.clear()
            model.update(after)
        else:
            if raised is not None:
                r.fail(f"C13:clean-mutation-rejected:{name}", f"{where}: raised {raised!r}")
                model.clear()
                model.update(after)
                continue
            for k, v in effective:
                model[k.lower()] = v
            if after != model:
                r.fail(f"C13:model:{name}", f"{where}: mapping {after!r}, model {model!r}")
                model.clear()
                model.update(after)
        _ = before
    return model


def emitted(side, resp):
    rq = gw.areq()
    if side == "wsgi":
        run = gw.call_wsgi(resp, rq)
        return run, [(k, v) for k, v in run.headers]
    run = gw.call_asgi(resp, rq)
    return run, [(k.decode("latin-1"), v.decode("latin-1")) for k, v in run.headers]


def oracle(case) -> Result:
    r = Result()
    ops, cookies, kind = case["ops"], case["cookies"], case["response"]
    texts = [x for op in ops for x in (op[1:] if op[0] in ("set", "append", "setdefault", "del") else [s for p in op[1] for s in p])]
    texts += [c["name"] for c in cookies] + [c["value"] for c in cookies]
    r.nontrivial = any(bad(t) for t in texts)
    wide = any(ord(ch) > 255 for t in texts for ch in t)
    r.label(f"resp={kind}", f"ops={min(len(ops), 6)}", f"cookies={len(cookies)}")
    if r.nontrivial:
        r.label("has-forbidden-char")
    if wide:
        r.label("wide-char")
    for side in ("wsgi", "asgi"):
        resp = make_response(kind, side)
        model = apply_history(r, resp.headers, ops, side)
        cookie_error = None
        for c in cookies:
            try:
                if c.get("delete"):
                    resp.delete_cookie(c["name"])
                else:
                    resp.set_cookie(c["name"], c["value"])
            except Exception as exc:  # noqa: BLE001
                cookie_error = exc
        run, hdrs = emitted(side, resp)
        if run.exc is not None:
            if wide and isinstance(run.exc, UnicodeError):
                r.label("wide-char-rejected")
                continue
            r.fail(f"C13:{side}:emission-raised:{type(run.exc).__name__}", f"ops {ops!r} cookies {cookies!r}: {run.exc!r}")
            continue
        for k, v in hdrs:
            if bad(k) or bad(v):
                r.fail(f"C13:{side}:emitted-forbidden", f"emitted header {k!r}: {v!r} after ops {ops!r} cookies {cookies!r}")
        got = {}
        cookie_lines = []
        for k, v in hdrs:
            if k.lower() == "set-cookie":
                cookie_lines.append(v)
            else:
                got[k.lower()] = v
        if not wide:
            for k, v in model.items():
                if k in AUTO:
                    continue
                if got.get(k) != v:
                    r.fail(f"C13:{side}:emitted-differs-from-mapping", f"header {k!r}: emitted {got.get(k)!r}, mapping {v!r}; ops {ops!r}")
        if cookie_error is None and len(cookie_lines) != len(cookies):
            r.fail(f"C13:{side}:cookie-line-count", f"{len(cookies)} cookies set, {len(cookie_lines)} set-cookie lines {cookie_lines!r}")
            continue
        if cookie_error is not None:
            continue
        for c, line in zip(cookies, cookie_lines):
            ctx = f"{side} cookie {c!r} -> {line!r}"
            if not wide:
                try:
                    line.encode("ascii")
                except UnicodeEncodeError:
                    r.fail(f"C13:{side}:cookie-not-ascii", ctx)
            parts = line.split(";")
            attrs = [p.strip().partition("=")[0].lower() for p in parts[1:]]
            want = (["expires", "max-age"] if c.get("delete") else []) + ["path", "samesite"]
            if attrs != want:
                r.fail(f"C13:{side}:cookie-attributes", f"{ctx}: attributes {attrs!r}, implied by the arguments {want!r}")
                continue
            if all(ord(ch) < 256 for ch in c["name"] + c["value"]) and re.fullmatch(r"[!#$%&'*+\-.^_`|~0-9A-Za-z]+", c["name"]):
                pair = parts[0]
                rq = gw.areq(headers=[["Cookie", pair]])
                back = bwsgi.Request(gw.make_environ(rq)).cookies
                want_v = "" if c.get("delete") else c["value"]
                if back != {c["name"]: want_v}:
                    r.fail(f"C13:{side}:cookie-readback", f"{ctx}: reads back as {back!r}")
    return r


def oracle_redirect(case) -> Result:
    r = Result()
    target, as_url = case["target"], case["as_url"]
    r.nontrivial = bad(target) or " " in target or any(ord(c) > 127 for c in target)
    r.label("url-object" if as_url else "str")
    for side in ("wsgi", "asgi"):
        mod = bwsgi if side == "wsgi" else basgi
        try:
            arg = URL(target) if as_url else target
            expected = str(arg)
        except ValueError:
            r.label("url-ctor-rejected")
            return r
        try:
            resp = mod.RedirectResponse(arg, case.get("status", 307))
        except ValueError as exc:
            # the statement: "cookie and redirect text is escaped instead" (of being rejected)
            r.fail(f"C13:{side}:redirect-rejected", f"target {target!r}: RedirectResponse raised {exc!r} instead of escaping")
            continue
        run, hdrs = emitted(side, resp)
        if run.exc is not None:
            r.fail(f"C13:{side}:redirect-raised:{type(run.exc).__name__}", f"target {target!r}: {run.exc!r}")
            continue
        locs = [v for k, v in hdrs if k.lower() == "location"]
        if len(locs) != 1:
            r.fail(f"C13:{side}:location-count", f"target {target!r}: headers {hdrs!r}")
            continue
        loc = locs[0]
        for k, v in hdrs:
            if bad(k) or bad(v):
                r.fail(f"C13:{side}:redirect-emitted-forbidden", f"target {target!r}: header {k!r}: {v!r}")
        if not loc.isascii() or re.search(r"[\x00-\x20\x7f]", loc):
            r.fail(f"C13:{side}:location-not-clean", f"target {target!r}: Location {loc!r} is not ASCII without blanks/controls")
        if unquote(loc) != expected and unquote(loc) != unquote(expected):
            r.fail(f"C13:{side}:location-decodes-differently", f"target {expected!r}: Location {loc!r} decodes to {unquote(loc)!r}")
    return r


SUBS = {"history": oracle, "redirect": oracle_redirect, "exh": oracle}

_chars = st.sampled_from(
    ["\r", "\n", "\x00", "\r\n", ";", ",", "=", '"', "\\", " ", "\t", "\x7f", "\x85", " ", "é", "中", "a", "b", "X", "-", "1", ":", "Set-Cookie", "x", "y"]
)
_text = st.one_of(st.lists(_chars, min_size=0, max_size=5).map("".join), st.sampled_from(["x-a", "X-A", "x-b", "vary", "cache-control", "v", "1", "a, b"]))
_key = st.one_of(st.sampled_from(["x-a", "X-A", "x-b", "X-C", "vary", "x-a\r\n", "x\nb", "x\x00"]), _text.filter(lambda s: s != "")).filter(
    lambda s: s.lower() not in ("set-cookie", "content-length", "content-type", "location")
)
_pair = st.tuples(_key, _text).map(list)
_kwkey = st.sampled_from(["xa", "XA", "xb", "a\nb", "a\rb", "a\x00b"])
_op = st.one_of(
    st.tuples(st.just("set"), _key, _text),
    st.tuples(st.just("append"), _key, _text),
    st.tuples(st.just("setdefault"), _key, _text),
    st.tuples(st.just("del"), _key),
    st.tuples(st.just("update_map"), st.lists(_pair, max_size=3)),
    st.tuples(st.just("update_pairs"), st.lists(_pair, max_size=3)),
    st.tuples(st.just("update_headers"), st.lists(_pair, max_size=3)),
    st.tuples(st.just("update_kw"), st.lists(st.tuples(_kwkey, _text).map(list), max_size=2)),
).map(list)
_cookie = st.fixed_dictionaries(
    {
        "name": st.one_of(st.sampled_from(["sid", "a", "k.1", "a;b", "a=b", "a\r\nSet-Cookie: x", "a b", "é", ""]), _text),
        "value": st.one_of(_text, st.sampled_from(["v", "; Secure", "x; Domain=evil.example", "a\r\nSet-Cookie: evil=1", 'q"; HttpOnly', "a,b", "\x00"])),
        "delete": st.sampled_from([False, False, False, True]),
    }
)


def history_case():
    return st.fixed_dictionaries(
        {
            "response": st.sampled_from(["empty", "plain", "json", "redirect"]),
            "ops": st.lists(_op, max_size=12),
            "cookies": st.lists(_cookie, max_size=3),
        }
    )


def redirect_case():
    frag = st.sampled_from(
        ["/", "/a", "http://example.com/", "?q=1", "#f", " ", "\r", "\n", "\r\nSet-Cookie: x=1", "\x00", "é", "中文", "%0d%0a", "%41", "%", "a b", "\t", "\x7f", " ", "//evil", "&", "=", ";", "'", '"', "<", ">", "\\"]
    )
    return st.fixed_dictionaries(
        {
            "target": st.lists(frag, min_size=1, max_size=6).map("".join),
            "as_url": st.booleans(),
            "status": st.sampled_from([301, 302, 303, 307, 308]),
        }
    )


def exh_cases():
    # every code point 0..255 at every position that anchors and quoting shortcuts treat differently:
    # inside, first, last (a '$' anchor lets one trailing LF through), alone, and inside a value that
    # already looks quoted
    shapes = {
        "middle": lambda ch: "a" + ch + "b",
        "first": lambda ch: ch + "ab",
        "last": lambda ch: "ab" + ch,
        "alone": lambda ch: ch,
        "quoted": lambda ch: '"a' + ch + 'b"',
    }
    for cp in range(256):
        ch = chr(cp)
        for shape, build in shapes.items():
            for where in ("key", "value"):
                if where == "key" and shape == "quoted":
                    continue
                k = ("x" + build(ch) + "y" if shape == "middle" else build(ch)) if where == "key" else "x-t"
                v = build(ch) if where == "value" else "v"
                if where == "key" and k.lower() in ("set-cookie", "content-length", "content-type", "location", ""):
                    continue
                if shape == "middle":
                    ops = (["set", k, v], ["append", k, v], ["setdefault", k, v], ["update_map", [[k, v]]], ["update_pairs", [["x-ok", "1"], [k, v]]], ["update_headers", [[k, v]]])
                else:
                    ops = (["set", k, v], ["append", k, v], ["update_pairs", [[k, v]]])
                for op in ops:
                    yield {"response": "empty", "ops": [["set", "x-t", "old"], op], "cookies": []}
                yield {"response": "empty", "ops": [], "cookies": [{"name": "n" if where == "value" else k, "value": v if where == "value" else "v", "delete": False}]}
                if where == "key" and shape != "middle":
                    yield {"response": "empty", "ops": [], "cookies": [{"name": k, "value": "v", "delete": True}]}


def oracle_atheris(case) -> Result:
    """Replay / triage oracle for inputs found by the Atheris campaign: decode the bytes like the fuzz target does."""
    from fuzz import targets

    res = oracle(targets.CASES["C13"](case["data"]))
    res.label("atheris")
    return res


SUBS["atheris"] = oracle_atheris


def run(rec, only=None):
    quick = rec.tier == "quick"
    core.drive_cases(rec, "exh", exh_cases(), oracle)
    rec.exhaustive["exh"] = True
    core.drive_hypothesis(rec, "history", history_case(), oracle, 1500 if quick else 30000)
    core.drive_hypothesis(rec, "redirect", redirect_case(), oracle_redirect, 1500 if quick else 30000, seed_offset=2)
    rec.exhaustive["history"] = rec.exhaustive["redirect"] = False
    if not quick:
        # coverage-guided second engine (Atheris / libFuzzer), same oracle inside the target
        from fuzz import driver

        driver.campaign(rec, "C13", oracle_atheris, runs=200000, seeds=[b"\x01\x00\x02ab=c;d", b"\x02\x01\x09\x03abc\r\n\x05hello"], max_total_time=120, jobs=4)
