"""C13 - Response headers cannot be split or smuggled."""
from __future__ import annotations

import os
import re
import subprocess
import sys
from urllib.parse import unquote

from hypothesis import strategies as st

import baize.asgi as basgi
import baize.wsgi as bwsgi
from baize.datastructures import URL

from harness import core, gateways as gw
from harness.core import Result

LEVEL = "exploration"
RULES = {
    "atheris": "thorough tier: Atheris/libFuzzer coverage-guided campaign; bytes are decoded into the same structured case and judged by the same oracle inside the target (half of the jobs start from an empty corpus, half from two small valid inputs)",
    "history": "Hypothesis: histories of up to 12 mutations (item assignment, append, update with mapping / pairs / keywords / another "
    "header mapping (read-only or mutable) / a keys()-object that is no Mapping / a one-shot iterator / positional + keywords, setdefault, "
    "delete) on the header mapping of a response (empty, text, HTML, JSON, redirect, stream) with keys/values over an alphabet weighted to CR, LF, "
    "NUL, ';', ',', '=', quotes, DEL, U+0085, non-ASCII, compatibility forms of ';' - the names the response fills in itself (Location, "
    "Content-Type, Content-Length, Set-Cookie) included; then set_cookie/delete_cookie with hostile names/values and benign attribute "
    "arguments and the response is sent through the WSGI and the ASGI gateway; non-trivial = the history contains at least one forbidden character",
    "redirect": "Hypothesis: redirect targets (str and URL objects) over the same alphabet plus spaces, non-ASCII and percent "
    "sequences, with and without a (clean) headers= argument; non-trivial = the target contains CR/LF/NUL/space/non-ASCII",
    "exh": "exhaustive: each of the 7 mutation paths x key/value position x every code point 0..255 placed inside the key or the value",
    "paths": "enumerated: every argument form of update() (dict, pairs, keywords, Headers, MutableHeaders, keys()-object, iterator, generator, "
    "positional+keywords with the offender on either side) and item assignment / append / setdefault x prior state of the key (absent, "
    "present, present with an EMPTY value, other letter case) x 18 hostile strings (lone CR / LF / NUL, CRLF + injected line, obsolete "
    "line folding CRLF SP / CRLF HT, leading, trailing) in the key or in the value",
    "special": "enumerated: the header names a response fills in itself or that servers treat specially (Location, Content-Type, "
    "Content-Length, Set-Cookie, Content-Range, ETag, ... 25 names, both letter cases) x 9 mutation paths x clean / hostile values x "
    "response kind (empty, text, redirect, file)",
    "long": "enumerated: keys / values / cookie texts of 257 .. 65537 characters with CR, LF or NUL at the start, second, middle and last position",
    "kinds": "enumerated: the other response classes (HTML, stream, server-sent events, file answered with 200 / HEAD / 206 single / 206 "
    "multipart / 416 / 400 / If-Range mismatch) x hostile header mutations and hostile cookies, both interfaces",
    "cookiex": "enumerated: cookie names that look like attributes or carry the __Secure- / __Host- prefixes, 40 hostile texts (';', CR/LF, "
    "quotes around a terminator, backslashes, compatibility forms of ';' ',' '=' such as U+FF1B U+FE54 U+037E, line separators) as name, as "
    "value and as both x 9 combinations of the other set_cookie arguments x set / delete; every code point 0..255 inside a NAME that starts and ends with a double quote",
    "cookietok": "enumerated: cookie texts made of token characters plus one kind of other character - every code point 0..255 outside the "
    "token set between token letters, between its code-point neighbours ('+' x '-'), alone; the separators (',' ';' '=' quotes, backslash, blank, "
    "CR LF NUL, the characters left alone inside quotes) also first, last, doubled, repeated and in pairs - as name, as value and as both, through "
    "set_cookie and delete_cookie, both interfaces; in the name=value part of the emitted line (before the first ';') there is no raw comma",
    "cookieobj": "enumerated: the same texts and the hostile cookie texts as name / value of a Cookie object made directly, without and with "
    "attributes; str() (WSGI line) and bytes() (ASGI line) are judged like an emitted Set-Cookie line",
    "optimized": "one child interpreter started with -O (PYTHONOPTIMIZE=1) runs the enumerated mapping sub-checks 'paths' and 'kinds' (every mutation "
    "path x prior state x 18 hostile strings; the other response classes) against the same tree; a violation there is relayed with its first line, "
    "a harness error or a timeout of the child is labelled inconclusive; a child never starts another child",
    "redirect_exh": "enumerated: 7 URL contexts (bare, path, query, fragment, absolute, next to percent sequences, authority) x every code "
    "point 0..0x17F and selected ones above x str / URL object, hostile targets additionally with a clean headers= argument, 60 fixed hostile targets and long targets",
}
ASSUMPTIONS = [
    "constructor-supplied headers are outside the statement (it speaks of mutating operations)",
    "for a multi-pair update the pairs before the offending one may have been applied",
    "cookie text with code points above U+00FF may be rejected with an error instead of being escaped (then no header is emitted)",
    "cookie text up to U+00FF must be accepted by set_cookie / delete_cookie ('cookie and redirect text is escaped instead' of being rejected)",
    "a redirect target is compared after one percent-decoding (targets may already contain percent sequences)",
    "header names that the response class fills in itself at send time (Content-Length, Content-Type, Content-Range, Location) may be emitted with the response's own value; "
    "mutations of them through the mapping are judged like any other (rejected when forbidden, never emitted with CR/LF/NUL)",
    "the other set_cookie arguments (path, domain, ...) take fixed benign values: the statement quantifies over name and value only",
    "a raw comma in the name=value part of a Set-Cookie line counts as introducing a second header (recipients that split field values at commas), inside quotes too - browsers do not honour quotes for ';' either; the comma of the Expires attribute is not judged",
    "the statement holds in every interpreter mode: rejection at the point of mutation must not depend on __debug__ (python -O / PYTHONOPTIMIZE); sampled by one child interpreter on the enumerated mapping grids",
]

FORBIDDEN = ("\r", "\n", "\x00")
AUTO = {"content-length", "content-type", "location", "content-range"}
UPDATE_OPS = ("update_map", "update_pairs", "update_kw", "update_headers", "update_mh", "update_keys", "update_iter", "update_gen")


def bad(s: str) -> bool:
    return any(c in s for c in FORBIDDEN)


class _KeysOnly:
    """Has keys() and __getitem__ but is no Mapping - what email.message.Message / http.client.HTTPMessage
    (the headers of an upstream answer) look like to update()."""

    def __init__(self, pairs):
        self._d = dict(pairs)

    def keys(self):
        return list(self._d)

    def __getitem__(self, key):
        return self._d[key]


def _merged(pairs):
    """What a header mapping built from these pairs holds: lower-cased names, repeated names joined with ', '."""
    out = {}
    for k, v in pairs:
        k = k.lower()
        out[k] = f"{out[k]}, {v}" if k in out else v
    return list(out.items())


_FILE = {}


def _file_path():
    pid = os.getpid()
    if _FILE.get("pid") != pid:
        from harness import tmpfiles

        d = tmpfiles.workdir("verif_c13_")
        p = os.path.join(d, "data.txt")
        with open(p, "wb") as fh:
            fh.write(b"abcdefghijklmnopqrstuvwxyz")
        _FILE.update(pid=pid, path=p)
    return _FILE["path"]


async def _achunks(chunks):
    for c in chunks:
        yield c


def make_response(kind, side):
    mod = bwsgi if side == "wsgi" else basgi
    if kind == "empty":
        return mod.Response(200)
    if kind == "plain":
        return mod.PlainTextResponse("hello")
    if kind == "html":
        return mod.HTMLResponse("<p>hello</p>")
    if kind == "json":
        return mod.JSONResponse({"a": 1})
    if kind == "redirect":
        return mod.RedirectResponse("/next")
    if kind == "stream":
        chunks = [b"ab", b"cd"]
        return mod.StreamResponse(iter(chunks) if side == "wsgi" else _achunks(chunks))
    if kind == "sse":
        events = [{"data": "one"}, {"event": "e", "data": "two"}]
        return mod.SendEventResponse(iter(events) if side == "wsgi" else _achunks(events))
    if kind == "file":
        return mod.FileResponse(_file_path())
    raise core.HarnessError(kind)


def op_pairs(op):
    """The (key, value) pairs an operation hands to the mapping, in the order of the call."""
    name = op[0]
    if name in ("set", "append", "setdefault"):
        return [(op[1], op[2])]
    if name in UPDATE_OPS:
        return [tuple(p) for p in op[1]]
    if name == "update_pos_kw":
        return [tuple(p) for p in op[1]] + [tuple(p) for p in op[2]]
    if name == "del":
        return []
    raise core.HarnessError(name)


def op_texts(op):
    if op[0] == "del":
        return [op[1]]
    return [s for p in op_pairs(op) for s in p]


def apply_history(r: Result, headers, ops, side):
    """Apply ops to the real mapping and to the model dict."""
    from baize.datastructures import Headers, MutableHeaders

    model = dict(headers.items())
    for i, op in enumerate(ops):
        name = op[0]
        where = f"{side} step {i} {op!r}"[:700]
        pairs = op_pairs(op)
        try:
            if name == "set":
                headers[op[1]] = op[2]
            elif name == "append":
                headers.append(op[1], op[2])
            elif name == "setdefault":
                headers.setdefault(op[1], op[2])
            elif name == "update_map":
                headers.update(dict(pairs))
            elif name == "update_pairs":
                headers.update(list(pairs))
            elif name == "update_kw":
                headers.update(**dict(pairs))
            elif name == "update_headers":
                headers.update(Headers(list(pairs)))
            elif name == "update_mh":
                # e.g. the header mapping of another response; its content came through the constructor
                headers.update(MutableHeaders(list(pairs)))
            elif name == "update_keys":
                headers.update(_KeysOnly(pairs))
            elif name == "update_iter":
                headers.update(iter(list(pairs)))
            elif name == "update_gen":
                headers.update((k, v) for k, v in list(pairs))
            elif name == "update_pos_kw":
                headers.update(dict(tuple(p) for p in op[1]), **dict(tuple(p) for p in op[2]))
            elif name == "del":
                try:
                    del headers[op[1]]
                except KeyError:
                    pass
            else:
                raise core.HarnessError(name)
            raised = None
        except ValueError as exc:
            raised = exc
        except (TypeError, KeyError) as exc:
            raised = exc
        after = dict(headers.items())
        # the mapping must never hold a forbidden character, whatever happened
        for k, v in after.items():
            if bad(k) or bad(v):
                r.fail(f"C13:stored-forbidden:{name}", f"{where}: mapping now holds {k[:200]!r}: {v[:200]!r}")
        if name == "del":
            model.pop(op[1].lower(), None)
            if after != model:
                r.fail("C13:model:del", f"{where}: mapping {after!r}, model {model!r}")
            continue
        # which pairs are effective
        if name == "setdefault":
            effective = [] if pairs[0][0].lower() in model else pairs
        elif name == "append":
            k, v = pairs[0]
            if not bad(k) and k.lower() in model:
                effective = [(k, f"{model[k.lower()]}, {v}")]
            else:
                effective = pairs
        elif name in ("update_map", "update_kw", "update_keys"):
            effective = list(dict(pairs).items())
        elif name in ("update_headers", "update_mh"):
            effective = _merged(pairs)
        elif name == "update_pos_kw":
            effective = list(dict(tuple(p) for p in op[1]).items()) + list(dict(tuple(p) for p in op[2]).items())
        else:
            effective = pairs
        offenders = [p for p in effective if bad(p[0]) or bad(p[1])]
        if offenders:
            if raised is None:
                r.fail(f"C13:not-rejected:{name}", f"{where}: forbidden character accepted without an error; mapping {after!r}"[:1500])
            # pairs before the first offender may have been applied; nothing from the offender on
            first = next(i for i, p in enumerate(effective) if bad(p[0]) or bad(p[1]))
            allowed = dict(model)
            ok = after == allowed
            for p in effective[:first]:
                allowed[p[0].lower()] = p[1]
                ok = ok or after == allowed
            if not ok:
                r.fail(f"C13:partial-update:{name}", f"{where}: mapping {after!r} is neither the old state nor a prefix application"[:1500])
            model.clear()
            model.update(after)
        else:
            if raised is not None:
                r.fail(f"C13:clean-mutation-rejected:{name}", f"{where}: raised {raised!r}")
                model.clear()
                model.update(after)
                continue
            for k, v in effective:
                model[k.lower()] = v
            if after != model:
                r.fail(f"C13:model:{name}", f"{where}: mapping {after!r}, model {model!r}"[:1500])
                model.clear()
                model.update(after)
    return model


def emitted(side, resp, request=None):
    request = request or {}
    rq = gw.areq(method=request.get("method", "GET"), headers=request.get("headers", ()))
    if side == "wsgi":
        run = gw.call_wsgi(resp, rq)
        return run, [(k, v) for k, v in run.headers]
    run = gw.call_asgi(resp, rq)
    return run, [(k.decode("latin-1"), v.decode("latin-1")) for k, v in run.headers]


_COOKIE_ARGS = ("max_age", "expires", "path", "domain", "secure", "httponly", "samesite")
_DELETE_ARGS = ("path", "domain", "secure", "httponly", "samesite")


def cookie_call(resp, c):
    attrs = c.get("attrs") or {}
    if c.get("delete"):
        resp.delete_cookie(c["name"], **{k: attrs[k] for k in _DELETE_ARGS if k in attrs})
    else:
        resp.set_cookie(c["name"], c["value"], **{k: attrs[k] for k in _COOKIE_ARGS if k in attrs})


def implied_attributes(c):
    """Attribute names implied by the arguments other than name and value (documented order)."""
    attrs = c.get("attrs") or {}
    delete = bool(c.get("delete"))
    want = []
    if delete or attrs.get("expires") is not None:
        want.append("expires")
    if delete or attrs.get("max_age", -1) > -1:
        want.append("max-age")
    if attrs.get("domain"):
        want.append("domain")
    if attrs.get("path", None if c.get("direct") else "/"):
        want.append("path")
    if attrs.get("httponly"):
        want.append("httponly")
    if attrs.get("secure") or attrs.get("samesite", "lax") in ("strict", "none"):
        want.append("secure")
    want.append("samesite")
    return want


def _wide(s: str) -> bool:
    return any(ord(ch) > 255 for ch in s)


def judge_cookie_line(r: Result, side, c, line, wide):
    """One emitted Set-Cookie field value against the cookie `c` it was made from."""
    ctx = f"{side} cookie {c!r} -> {line!r}"[:1500]
    if not wide:
        try:
            line.encode("ascii")
        except UnicodeEncodeError:
            r.fail(f"C13:{side}:cookie-not-ascii", ctx)
    parts = line.split(";")
    attrs = [p.strip().partition("=")[0].lower() for p in parts[1:]]
    want = implied_attributes(c)
    if attrs != want:
        r.fail(f"C13:{side}:cookie-attributes", f"{ctx}: attributes {attrs!r}, implied by the arguments {want!r}")
        return
    # the attributes are exactly the implied ones, so parts[0] is all that the name and the value produced.
    # "... or a second header": a field value is cut into list members at every raw comma by recipients and
    # intermediaries that fold / unfold repeated fields (RFC 7230 3.2.2 - RFC 6265 section 3 warns that Set-Cookie
    # breaks under exactly this; http.cookiejar, fetch's Headers.get + split), quoted or not - just as a browser cuts at
    # every ';' (the rule of the attribute count above).  What follows the comma would be read as a complete second
    # cookie with the attributes of this one.  The Expires attribute has its comma by definition and is not judged.
    pair = parts[0]
    if "," in pair:
        r.fail(f"C13:{side}:cookie-pair-raw-comma", f"{ctx}: the name=value part {pair[:300]!r} contains a raw comma - a list-splitting recipient sees a second Set-Cookie member {pair.split(',', 1)[1][:200]!r}")
    if all(ord(ch) < 256 for ch in c["name"] + c["value"]) and re.fullmatch(r"[!#$%&'*+\-.^_`|~0-9A-Za-z]+", c["name"]):
        rq = gw.areq(headers=[["Cookie", pair]])
        back = bwsgi.Request(gw.make_environ(rq)).cookies
        want_v = "" if c.get("delete") else c["value"]
        if back != {c["name"]: want_v}:
            r.fail(f"C13:{side}:cookie-readback", f"{ctx}: reads back as {back!r}")


def oracle(case) -> Result:
    r = Result()
    ops, cookies, kind = case["ops"], case["cookies"], case["response"]
    request = case.get("request")
    texts = [x for op in ops for x in op_texts(op)]
    texts += [c["name"] for c in cookies] + [c["value"] for c in cookies]
    r.nontrivial = any(bad(t) for t in texts)
    wide = any(_wide(t) for t in texts)
    r.label(f"resp={kind}", f"ops={min(len(ops), 6)}", f"cookies={len(cookies)}")
    if r.nontrivial:
        r.label("has-forbidden-char")
    if wide:
        r.label("wide-char")
    if any(c.get("attrs") for c in cookies):
        r.label("cookie-with-attributes")
    for side in ("wsgi", "asgi"):
        resp = make_response(kind, side)
        model = apply_history(r, resp.headers, ops, side)
        cookie_error = None
        for c in cookies:
            try:
                cookie_call(resp, c)
            except Exception as exc:  # noqa: BLE001
                cookie_error = exc
                if not _wide(c["name"] + c["value"]):
                    # the statement: "cookie and redirect text is escaped instead" (of being rejected)
                    r.fail(f"C13:{side}:cookie-rejected", f"cookie {c!r}: raised {exc!r} instead of escaping"[:1500])
        run, hdrs = emitted(side, resp, request)
        if run.exc is not None:
            if wide and isinstance(run.exc, UnicodeError):
                r.label("wide-char-rejected")
                continue
            r.fail(f"C13:{side}:emission-raised:{type(run.exc).__name__}", f"ops {ops!r} cookies {cookies!r}: {run.exc!r}"[:1500])
            continue
        for k, v in hdrs:
            if bad(k) or bad(v):
                r.fail(f"C13:{side}:emitted-forbidden", f"emitted header {k[:300]!r}: {v[:300]!r} after ops {ops!r} cookies {cookies!r}"[:1800])
        got = {}
        cookie_lines = []
        mapping_cookie = model.get("set-cookie")  # a Set-Cookie line stored through the mapping is not a cookie of set_cookie()
        for k, v in hdrs:
            if k.lower() == "set-cookie":
                if mapping_cookie is not None and v == mapping_cookie and "set-cookie" not in got:
                    got["set-cookie"] = v
                else:
                    cookie_lines.append(v)
            else:
                got[k.lower()] = v
        if not wide:
            for k, v in model.items():
                if k in AUTO:
                    continue
                if got.get(k) != v:
                    r.fail(f"C13:{side}:emitted-differs-from-mapping", f"header {k!r}: emitted {got.get(k)!r}, mapping {v!r}; ops {ops!r}"[:1500])
        if cookie_error is None and len(cookie_lines) != len(cookies):
            r.fail(f"C13:{side}:cookie-line-count", f"{len(cookies)} cookies set, {len(cookie_lines)} set-cookie lines {cookie_lines!r}"[:1500])
            continue
        if cookie_error is not None:
            continue
        for c, line in zip(cookies, cookie_lines):
            judge_cookie_line(r, side, c, line, wide)
    return r


def oracle_redirect(case) -> Result:
    r = Result()
    target, as_url = case["target"], case["as_url"]
    ctor_headers = case.get("ctor_headers")
    r.nontrivial = bad(target) or " " in target or any(ord(c) > 127 for c in target)
    r.label("url-of-request" if as_url == "request" else "url-object" if as_url else "str")
    if ctor_headers:
        r.label("with-headers-argument")
    for side in ("wsgi", "asgi"):
        mod = bwsgi if side == "wsgi" else basgi
        try:
            if as_url == "request":
                # the URL of a request (percent-decoded path) handed back as the target, e.g. "same page plus a slash"
                scope = {"type": "http", "scheme": "http", "server": ("example.com", 80), "root_path": "", "path": target, "query_string": b"", "headers": []}
                arg = URL(scope=scope)
            else:
                arg = URL(target) if as_url else target
            expected = str(arg)
        except ValueError:
            r.label("url-ctor-rejected")
            return r
        try:
            if ctor_headers is None:
                resp = mod.RedirectResponse(arg, case.get("status", 307))
            else:
                resp = mod.RedirectResponse(arg, case.get("status", 307), dict(ctor_headers))
        except ValueError as exc:
            # the statement: "cookie and redirect text is escaped instead" (of being rejected)
            r.fail(f"C13:{side}:redirect-rejected", f"target {target[:300]!r}: RedirectResponse raised {exc!r} instead of escaping")
            continue
        run, hdrs = emitted(side, resp)
        if run.exc is not None:
            r.fail(f"C13:{side}:redirect-raised:{type(run.exc).__name__}", f"target {target[:300]!r}: {run.exc!r}")
            continue
        locs = [v for k, v in hdrs if k.lower() == "location"]
        if len(locs) != 1:
            r.fail(f"C13:{side}:location-count", f"target {target[:300]!r}: headers {hdrs!r}"[:1500])
            continue
        loc = locs[0]
        for k, v in hdrs:
            if bad(k) or bad(v):
                r.fail(f"C13:{side}:redirect-emitted-forbidden", f"target {target[:300]!r}: header {k!r}: {v[:600]!r}")
        if not loc.isascii() or re.search(r"[\x00-\x20\x7f]", loc):
            r.fail(f"C13:{side}:location-not-clean", f"target {target[:300]!r}: Location {loc[:600]!r} is not ASCII without blanks/controls")
        if unquote(loc) != expected and unquote(loc) != unquote(expected):
            r.fail(f"C13:{side}:location-decodes-differently", f"target {expected[:300]!r}: Location {loc[:600]!r} decodes to {unquote(loc)[:300]!r}")
    return r


def oracle_cookie_object(case) -> Result:
    """A Cookie object made directly (what set_cookie does inside): str() is the WSGI line, bytes() the ASGI one."""
    from baize.datastructures import Cookie

    r = Result()
    c = dict(case, direct=True)
    attrs = c.get("attrs") or {}
    texts = c["name"] + c["value"]
    wide = _wide(texts)
    r.nontrivial = bad(texts) or "," in texts or ";" in texts
    r.label("cookie-object", "wide-char" if wide else "latin-1")
    try:
        cookie = Cookie(c["name"], c["value"], **attrs)
    except Exception as exc:  # noqa: BLE001
        if not wide:
            r.fail("C13:cookie-object-rejected", f"Cookie({c['name']!r}, {c['value']!r}) raised {exc!r} instead of escaping"[:1500])
        return r
    for side, render in (("wsgi", str), ("asgi", lambda ck: bytes(ck).decode("latin-1"))):
        try:
            line = render(cookie)
        except UnicodeError:
            if wide:
                r.label("wide-char-rejected")
                continue
            raise
        if bad(line):
            r.fail(f"C13:{side}:emitted-forbidden", f"{side} cookie object {c!r} -> {line[:600]!r}")
        judge_cookie_line(r, side, c, line, wide)
    return r


SUBS = {
    "history": oracle,
    "redirect": oracle_redirect,
    "exh": oracle,
    "paths": oracle,
    "special": oracle,
    "long": oracle,
    "kinds": oracle,
    "cookiex": oracle,
    "cookietok": oracle,
    "cookieobj": oracle_cookie_object,
    "redirect_exh": oracle_redirect,
}

SPECIAL_KEYS = ["location", "Location", "content-type", "Content-Type", "content-length", "Content-Length", "set-cookie", "Set-Cookie"]

# compatibility / canonically equivalent forms of ';' ',' '=' '"' '\' and the Unicode line separators
COMPAT = ["\uff1b", "\ufe54", "\u037e", "\uff0c", "\uff1d", "\uff02", "\uff3c", "\u2028", "\u2029", "\ufe14"]

_chars = st.sampled_from(
    ["\r", "\n", "\x00", "\r\n", ";", ",", "=", '"', "\\", " ", "\t", "\x7f", "\x85", "\u2028", "é", "中", "a", "b", "X", "-", "1", ":", "Set-Cookie", "x", "y"]
)
_text = st.one_of(st.lists(_chars, min_size=0, max_size=5).map("".join), st.sampled_from(["x-a", "X-A", "x-b", "vary", "cache-control", "v", "1", "a, b"]))
_plain_key = st.one_of(st.sampled_from(["x-a", "X-A", "x-b", "X-C", "vary", "x-a\r\n", "x\nb", "x\x00"]), _text.filter(lambda s: s != "")).filter(
    lambda s: s.lower() not in ("set-cookie", "content-length", "content-type", "location")
)
# mostly ordinary names; now and then one of the names the response fills in itself
_key = st.one_of(_plain_key, _plain_key, _plain_key, _plain_key, _plain_key, _plain_key, _plain_key, st.sampled_from(SPECIAL_KEYS))
_pair = st.tuples(_key, _text).map(list)
_kwkey = st.sampled_from(["xa", "XA", "xb", "a\nb", "a\rb", "a\x00b"])
_kwpair = st.tuples(_kwkey, _text).map(list)
_op = st.one_of(
    st.tuples(st.just("set"), _key, _text),
    st.tuples(st.just("append"), _key, _text),
    st.tuples(st.just("setdefault"), _key, _text),
    st.tuples(st.just("del"), _key),
    st.tuples(st.just("update_map"), st.lists(_pair, max_size=3)),
    st.tuples(st.just("update_pairs"), st.lists(_pair, max_size=3)),
    st.tuples(st.just("update_headers"), st.lists(_pair, max_size=3)),
    st.tuples(st.just("update_kw"), st.lists(_kwpair, max_size=2)),
    st.tuples(st.sampled_from(["update_mh", "update_keys", "update_iter", "update_gen"]), st.lists(_pair, max_size=3)),
    st.tuples(st.just("update_pos_kw"), st.lists(_pair, max_size=2), st.lists(_kwpair, max_size=2)),
).map(list)

ATTR_SETS = [
    {"max_age": 3600},
    {"expires": 3600},
    {"domain": "example.com", "path": "/app"},
    {"secure": True, "httponly": True},
    {"samesite": "strict"},
    {"samesite": "none"},
    {"path": ""},
    {"max_age": 0, "expires": 0, "domain": "example.com", "path": "/app", "secure": True, "httponly": True, "samesite": "strict"},
]
_cookie_text = st.one_of(_text, st.tuples(_text, st.sampled_from(COMPAT), _text).map("".join))
_cookie = st.fixed_dictionaries(
    {
        "name": st.one_of(st.sampled_from(["sid", "a", "k.1", "a;b", "a=b", "a\r\nSet-Cookie: x", "a b", "é", "", "__Secure-sid", "__Host-sid", "Secure", '"a;b"', "a,b", "pref_a,sessionid"]), _cookie_text,
                          st.tuples(st.sampled_from(["__Secure-", "__Host-", "__Host-sid", "$", "Path", "Domain", "Secure"]), _cookie_text).map("".join)),
        "value": st.one_of(_cookie_text, st.sampled_from(["v", "; Secure", "x; Domain=evil.example", "a\r\nSet-Cookie: evil=1", 'q"; HttpOnly', "a,b", "\x00"])),
        "delete": st.sampled_from([False, False, False, True]),
        "attrs": st.one_of(st.none(), st.none(), st.sampled_from(ATTR_SETS)),
    }
)


def history_case():
    return st.fixed_dictionaries(
        {
            "response": st.sampled_from(["empty", "plain", "json", "redirect", "html", "stream"]),
            "ops": st.lists(_op, max_size=12),
            "cookies": st.lists(_cookie, max_size=3),
        }
    )


def redirect_case():
    frag = st.sampled_from(
        ["/", "/a", "http://example.com/", "?q=1", "#f", " ", "\r", "\n", "\r\nSet-Cookie: x=1", "\x00", "é", "中文", "%0d%0a", "%41", "%", "a b", "\t", "\x7f", "\u2028", "//evil", "&", "=", ";", "'", '"', "<", ">", "\\"]
    )
    return st.fixed_dictionaries(
        {
            "target": st.lists(frag, min_size=1, max_size=6).map("".join),
            "as_url": st.sampled_from([False, False, False, True, True, True, "request"]),
            "status": st.sampled_from([301, 302, 303, 307, 308]),
            "ctor_headers": st.sampled_from([None, None, {}, {"x-a": "1"}, {"Cache-Control": "no-store", "X-B": "a, b"}]),
        }
    )


def exh_cases():
    # every code point 0..255 at every position that anchors and quoting shortcuts treat differently:
    # inside, first, last (a '$' anchor lets one trailing LF through), alone, and inside a value that
    # already looks quoted
    shapes = {
        "middle": lambda ch: "a" + ch + "b",
        "first": lambda ch: ch + "ab",
        "last": lambda ch: "ab" + ch,
        "alone": lambda ch: ch,
        "quoted": lambda ch: '"a' + ch + 'b"',
    }
    for cp in range(256):
        ch = chr(cp)
        for shape, build in shapes.items():
            for where in ("key", "value"):
                if where == "key" and shape == "quoted":
                    continue
                k = ("x" + build(ch) + "y" if shape == "middle" else build(ch)) if where == "key" else "x-t"
                v = build(ch) if where == "value" else "v"
                if where == "key" and k.lower() in ("set-cookie", "content-length", "content-type", "location", ""):
                    continue
                if shape == "middle":
                    ops = (["set", k, v], ["append", k, v], ["setdefault", k, v], ["update_map", [[k, v]]], ["update_pairs", [["x-ok", "1"], [k, v]]], ["update_headers", [[k, v]]])
                else:
                    ops = (["set", k, v], ["append", k, v], ["update_pairs", [[k, v]]])
                for op in ops:
                    yield {"response": "empty", "ops": [["set", "x-t", "old"], op], "cookies": []}
                yield {"response": "empty", "ops": [], "cookies": [{"name": "n" if where == "value" else k, "value": v if where == "value" else "v", "delete": False}]}
                if where == "key" and shape != "middle":
                    yield {"response": "empty", "ops": [], "cookies": [{"name": k, "value": "v", "delete": True}]}


# clean text (no CR / LF / NUL) whose code points END in the bytes 0A / 0D / 00: an encoder that truncates instead of
# refusing would turn them into line breaks on the byte interface
LOWBYTE = ["a\u010ab", "a\u010db", "a\u0100b", "\u560a", "a\u0a0d\u0a0ab", "\u010d\u010aSet-Cookie: x=1"]

HOSTILE = [
    "\r",
    "\n",
    "\x00",
    "a\rb",
    "a\nb",
    "a\x00b",
    "a\r\nSet-Cookie: admin=1",
    "a\r\n\r\n<html>",
    "a\r\n b",  # obsolete line folding: still a line break in the emitted line
    "a\r\n\tb",
    "\r\n folded",
    "ab\n",
    "ab\r\n",
    "\nab",
    # together with text outside ASCII / Latin-1 (a check or an escape that has a separate branch for such text)
    "é\r\nX-Injected: 1",
    "\x85\rb",
    "中\nb",
    "a\u2028\x00",
]


def _forms(k, v):
    """Every way of handing the single pair (k, v) to the mapping."""
    yield ["set", k, v]
    yield ["append", k, v]
    yield ["setdefault", k, v]
    for name in ("update_map", "update_pairs", "update_headers", "update_mh", "update_keys", "update_iter", "update_gen", "update_kw"):
        yield [name, [[k, v]]]
        yield [name, [["x-ok", "1"], [k, v]]]
    yield ["update_pos_kw", [[k, v]], [["xkw", "1"]]]
    yield ["update_pos_kw", [["x-ok", "1"]], [[k, v]]]
    yield ["update_pos_kw", [[k, v]], []]


def paths_cases():
    priors = {
        "absent": [],
        "present": [["set", "x-t", "old"]],
        "present-empty": [["set", "x-t", ""]],
        "other-case": [["set", "X-T", "old"]],
        "appended": [["set", "x-t", "a"], ["append", "X-T", "b"]],
        "deleted": [["set", "x-t", "old"], ["del", "x-t"]],
    }
    for pname, prior in priors.items():
        for h in HOSTILE:
            for where in ("value", "key"):
                k, v = ("x-t", h) if where == "value" else ("x-" + h, "v")
                if where == "key" and pname not in ("absent", "present"):
                    continue
                for op in _forms(k, v):
                    yield {"response": "empty", "ops": prior + [op], "cookies": []}
        # the same forms with clean text: they must all be accepted and emitted
        for k, v in [("x-t", "new"), ("X-T", ""), ("x-u", "a, b")] + [("x-t", t) for t in LOWBYTE] + [("x-" + LOWBYTE[0], "v"), ("x-" + LOWBYTE[1], "v")]:
            for op in _forms(k, v):
                yield {"response": "empty", "ops": prior + [op], "cookies": []}


SPECIAL_NAMES = [
    "location", "content-type", "content-length", "set-cookie", "content-range", "etag", "last-modified", "accept-ranges",
    "content-disposition", "cache-control", "connection", "transfer-encoding", "host", "cookie", "www-authenticate", "vary",
    "date", "server", "refresh", "link", "content-encoding", "x-accel-redirect", "status", "upgrade", "keep-alive",
]  # fmt: skip


def special_cases():
    values = ["5", "5\r\nX-Injected: 1", "5\n", "\x005", "5\r", "text/plain\r\n\r\nbody"]
    for kind in ("empty", "plain", "redirect", "file"):
        for base in SPECIAL_NAMES:
            if kind == "file" and base not in ("content-type", "content-length", "content-range", "etag", "last-modified", "accept-ranges", "content-disposition", "set-cookie"):
                continue
            for key in (base, base.title()):
                for v in values:
                    for op in (
                        ["set", key, v],
                        ["append", key, v],
                        ["setdefault", key, v],
                        ["update_map", [[key, v]]],
                        ["update_pairs", [[key, v]]],
                        ["update_kw", [[key, v]]],
                        ["update_headers", [[key, v]]],
                        ["update_mh", [[key, v]]],
                        ["update_keys", [[key, v]]],
                    ):
                        yield {"response": kind, "ops": [op], "cookies": []}
                        if kind in ("empty", "redirect") and key == base and op[0] in ("set", "append", "setdefault", "update_pairs", "update_mh"):
                            # the name is present already (append joins with the old value)
                            yield {"response": kind, "ops": [["set", base.upper(), "old"], op], "cookies": []}
    # a Set-Cookie line stored through the mapping next to real cookies
    for v in ("a=b", "a=b\r\nSet-Cookie: c=d"):
        for op in (["set", "Set-Cookie", v], ["append", "set-cookie", v]):
            yield {"response": "plain", "ops": [op], "cookies": [{"name": "sid", "value": "x;y", "delete": False}, {"name": "a", "value": "b", "delete": False}]}


def long_cases(quick=True):
    lengths = [257, 300, 1024, 8192, 65537] if quick else [257, 258, 300, 511, 1024, 4097, 8192, 16385, 65537, 200001]
    for n in lengths:
        for ch in FORBIDDEN:
            spots = {"first": 0, "second": 1, "middle": n // 2, "last": n - 1}
            for spot, i in spots.items():
                text = "v" * i + ch + "w" * (n - i - 1)
                for op in (["set", "x-t", text], ["append", "x-t", text], ["setdefault", "x-new", text], ["update_pairs", [["x-t", text]]], ["update_map", [["x-t", text]]], ["update_mh", [["x-t", text]]]):
                    yield {"response": "empty", "ops": [["set", "x-t", "old"], op], "cookies": []}
                if n <= 8192:
                    for op in (["set", text, "v"], ["append", text, "v"], ["update_pairs", [[text, "v"]]]):
                        yield {"response": "empty", "ops": [op], "cookies": []}
                    yield {"response": "empty", "ops": [], "cookies": [{"name": "sid", "value": text, "delete": False}]}
                    yield {"response": "empty", "ops": [], "cookies": [{"name": text, "value": "v", "delete": spot == "last"}]}
        if n <= 8192:
            # long text outside Latin-1: refused as a whole on the byte interface or sent, never folded
            for text in ("\u4e2d" * n, "v" * (n - 1) + "\u4e2d", "\u0430" * n, ("\u4e2d\u6587 " * n)[:n]):
                yield {"response": "empty", "ops": [["set", "x-t", text]], "cookies": []}
                yield {"response": "empty", "ops": [["set", "x-t", "report"], ["append", "x-t", text]], "cookies": []}
        # long clean texts must go through unchanged
        yield {"response": "empty", "ops": [["set", "x-t", "v" * n], ["append", "x-t", "w" * n]], "cookies": [{"name": "sid", "value": "v" * min(n, 4000), "delete": False}]}
        yield {"response": "empty", "ops": [], "cookies": [{"name": "sid", "value": "v" * 300 + ";" + "w" * min(n, 4000), "delete": False}]}


def kinds_cases():
    requests = {
        "get": None,
        "head": {"method": "HEAD"},
        "range1": {"headers": [["Range", "bytes=2-5"]]},
        "rangeN": {"headers": [["Range", "bytes=0-1,5-6"]]},
        "r416": {"headers": [["Range", "bytes=99-"]]},
        "r400": {"headers": [["Range", "lines=1-2"]]},
        "ifrange": {"headers": [["Range", "bytes=2-5"], ["If-Range", '"nope"']]},
        "head-range": {"method": "HEAD", "headers": [["Range", "bytes=0-1,5-6"]]},
    }
    scenarios = []
    for op in (
        ["set", "x-t", "a\r\nX-Injected: 1"],
        ["append", "x-t", "a\nb"],
        ["setdefault", "x-t", "a\x00b"],
        ["update_pairs", [["x-ok", "1"], ["x\r\nb", "v"]]],
        ["update_mh", [["x-t", "a\rb"]]],
        ["set", "Content-Type", "text/plain\r\n\r\nbody"],
        ["set", "x-t", "clean"],
    ):
        scenarios.append(([op], []))
    for name, value in (("sid", "v"), ("a;b", "v"), ("sid", "x\r\nSet-Cookie: admin=1"), ("sid", "a; Secure"), ("sid", "a\x00b"), ('"a;b"', "v"), ("a\nb", "c,d"), ("sid", '"; HttpOnly; x="')):
        scenarios.append(([], [{"name": name, "value": value, "delete": False}]))
        scenarios.append(([["set", "x-t", "1"]], [{"name": "first", "value": "1", "delete": False}, {"name": name, "value": value, "delete": name != "sid"}]))
    for kind in ("html", "stream", "sse", "file", "json", "redirect"):
        for rname, request in requests.items():
            if rname != "get" and kind != "file":
                continue
            for ops, cookies in scenarios:
                case = {"response": kind, "ops": ops, "cookies": cookies}
                if request:
                    case["request"] = request
                yield case


COOKIE_HOSTILE = [
    "a;b", "a; Secure", "; HttpOnly", "a;", ";", "a\r\nSet-Cookie: x=1", "a\nb", "a\rb", "a\x00b", "ab\n", "a,b", "a=b", "=", 'a"b', '"a;b"',
    '"a\r\nb"', '"a\x00b"', '"; HttpOnly; x="', '";"', '"', '""', "a\\;b", "\\", 'a\\";b', "a\\073b", "a\x85b", "a\x0bb", "a\x0cb", "a\x1cb", "a\x7fb",
    " a", "a ", "a b", "", "é", "a\xa0b", "中", "a\uff1bb", "a\ufe54 Secure", "a\u037eb", "\u037e", "a\uff0cb", "a\uff1db", "\uff02a;b\uff02", "a\uff3c;b",
    "a\u2028b", "a\u2029b", "\ufe14", "a\uff1b Secure",
] + LOWBYTE + ["é;b", "é\r\nSet-Cookie: x=1", "中; Secure", "中\nb", "\x85\x00", "a\u2028;b"]  # fmt: skip
COOKIE_NAMES = ["__Secure-sid", "__Host-sid", "__secure-x", "__Host-", "Secure", "HttpOnly", "Path", "Domain", "Expires", "Max-Age", "SameSite", "Partitioned", "$Version", "$Path", "sid"]


def cookiex_cases():
    attr_sets = [None] + ATTR_SETS
    for name in COOKIE_NAMES:
        for value in ("v", "", "a b"):
            for attrs in attr_sets:
                for delete in (False, True):
                    c = {"name": name, "value": value, "delete": delete}
                    if attrs:
                        c["attrs"] = attrs
                    yield {"response": "empty", "ops": [], "cookies": [c]}
    for h in COOKIE_HOSTILE:
        for attrs in attr_sets:
            for name, value in ((h, "v"), ("sid", h), (h, h)):
                for delete in (False, True):
                    if delete and name == "sid":
                        continue
                    c = {"name": name, "value": value, "delete": delete}
                    if attrs:
                        c["attrs"] = attrs
                    yield {"response": "empty", "ops": [], "cookies": [c]}
        # a hostile cookie between two ordinary ones: three lines, each with its own attributes
        yield {
            "response": "plain",
            "ops": [],
            "cookies": [{"name": "first", "value": "1", "delete": False}, {"name": h, "value": h, "delete": False, "attrs": ATTR_SETS[2]}, {"name": "last", "value": "2", "delete": True}],
        }
    # hostile text behind (and in front of) a name stem that an implementation may treat specially: the cookie-prefix names, attribute names, $-names
    for stem in COOKIE_NAMES + ["__Http-", "__Host-Http-", "__HOST-", "__Secure-__Host-"]:
        for h in COOKIE_HOSTILE:
            if not h:
                continue
            for name in (stem + h, h + stem):
                yield {"response": "empty", "ops": [], "cookies": [{"name": name, "value": "v", "delete": False}]}
            yield {"response": "empty", "ops": [], "cookies": [{"name": stem + h, "value": h, "delete": True, "attrs": ATTR_SETS[-1]}]}
            yield {"response": "empty", "ops": [], "cookies": [{"name": "sid", "value": stem + h, "delete": False}]}
    # a NAME that already looks like a quoted string, with every code point inside
    for cp in range(256):
        for name in ('"a' + chr(cp) + 'b"', '"' + chr(cp) + '"'):
            yield {"response": "empty", "ops": [], "cookies": [{"name": name, "value": "v", "delete": False}]}
            yield {"response": "empty", "ops": [], "cookies": [{"name": name, "value": name, "delete": True}]}


# the characters a cookie name / value may consist of without being quoted (RFC 7230 token characters and ':')
TOKEN_PUNCT = "!#$%&'*+-.^_`|~:"
_TOKEN_CHARS = set("abcdefghijklmnopqrstuvwxyzABCDEFGHIJKLMNOPQRSTUVWXYZ0123456789" + TOKEN_PUNCT)
# separators of the cookie / field-value grammar and the characters the escaper leaves alone inside quotes
_SEPARATORS = ",;=\"\\ \t\r\n\x00()/<>?@[]{}\x7f"
OBJ_ATTR_SETS = [None, {"path": "/app", "domain": "example.com", "secure": True, "httponly": True, "max_age": 0, "samesite": "strict"}]


def token_special_texts():
    """Texts made of token characters plus ONE kind of other character (every code point 0..255 outside the token set):
    whether such a text is quoted is decided by a pattern over the token set, so the neighbours in code-point order
    ('+' ',' '-' '.', '9' ':' ... '@' 'A', 'Z' '[' ... '`' 'a', 'z' '{' '|' '}' '~') stand next to it."""
    for cp in range(256):
        ch = chr(cp)
        if ch in _TOKEN_CHARS:
            continue
        frames = ["a" + ch + "b", "+" + ch + "-", ch]
        if ch in _SEPARATORS:
            frames += ["pref_a" + ch + "sessionid", "1" + ch + "2" + ch + "3", ch + "a", "a" + ch, ch + ch, "." + ch + "~", "a" + ch + "b" + ch]
        for t in frames:
            yield t
    # two different ones next to token text
    for a, b in ((",", ";"), (",", " "), (",", "="), (",", '"'), (";", " "), (",", "\\"), (",", "/"), (",", "\r\n")):
        yield "a" + a + "b" + b + "c"
        yield "a" + b + "b" + a + "c"


def cookietok_cases():
    for t in token_special_texts():
        for name, value in ((t, "1"), ("sid", t), (t, t)):
            yield {"response": "empty", "ops": [], "cookies": [{"name": name, "value": value, "delete": False}]}
        yield {"response": "empty", "ops": [], "cookies": [{"name": t, "value": "", "delete": True}]}
        if any(ch in _SEPARATORS for ch in t):
            yield {"response": "plain", "ops": [], "cookies": [{"name": t, "value": t, "delete": False, "attrs": ATTR_SETS[-1]}, {"name": "sid", "value": t, "delete": False, "attrs": ATTR_SETS[1]}]}
    # texts of token characters only go out as they are (and read back)
    for t in ("a", "k.1", "a+b-c.d", TOKEN_PUNCT, "9:a", "Z^_`a", "z|~"):
        yield {"response": "empty", "ops": [], "cookies": [{"name": t, "value": t, "delete": False}, {"name": t, "value": "", "delete": True}]}


def cookieobj_cases():
    for t in token_special_texts():
        for attrs in OBJ_ATTR_SETS:
            for name, value in ((t, "1"), ("sid", t), (t, t)):
                c = {"name": name, "value": value}
                if attrs:
                    c["attrs"] = attrs
                yield c
    for t in COOKIE_HOSTILE + ["a", "k.1", TOKEN_PUNCT]:
        yield {"name": t or "sid", "value": t}
        yield {"name": "sid", "value": t, "attrs": OBJ_ATTR_SETS[1]}


REDIRECT_HOSTILE = [
    "/next\r\nSet-Cookie: admin=1", "/next\r\n\r\n<script>", "/a\n", "/a\r", "/a\r\n", "\n/a", "/a\x00", "\x00", "/a b", " /a", "/a ", "/a\tb", "/a\x7f",
    "/a\x0bb", "/a\x1cb", "/a\x85b", "/a\xa0b", "/é", "/中文?q=中#中", "http://example.com/\r\nX: y", "http://exämple.com/ä", "//evil.example/\n", "/a?q=\r\nX: y",
    "/a?q=a b&r=é", "/a#\r\nX: y", "/a# b", "/a#é", "%0d%0a\r\n", "/%41\n", "/%\n", "/%zz b", "%", "/a%20b c", "/a?next=http://x/ y", "/a;b\nc", "/\\\n",
    '/"\n"', "/<\n>", "/{\n}", "/|\n", "/^\n", "/`\n", "/a\u2028b", "/a\u2029b", "/a\ufeffb", "/a\U0001f600b", "/a\uff1bb", "?\n", "#\n", "&\n=", "/a\n?b", "/a\n#b",
    "/a?b\n#c", "javascript:alert(1)\n", "mailto:a@b\r\nBcc: c@d", "/a'\n", "/a(\n)", "/a[\n]", "/a~\n", "/a@\n",
    "/é\r\nX: y", "/中\n", "/\x85\r", "/中 b", "/a\u2028\x00",
]  # fmt: skip


def redirect_exh_cases(quick=True):
    contexts = [("", ""), ("/p", ""), ("/p?q=", "&r=1"), ("/p#", "x"), ("http://example.com/", "/z"), ("/%41", "%42"), ("//", "/p")]
    cps = list(range(0x180)) + [0x37E, 0x2028, 0x2029, 0x3000, 0x4E2D, 0xFEFF, 0xFF1B, 0xFFFD, 0x1F600]
    if not quick:
        cps = list(range(0x800)) + list(range(0x800, 0x3100, 0x11)) + [c for c in range(0x3100, 0x11000, 0x101) if not 0xD800 <= c <= 0xDFFF] + [0x2028, 0x2029, 0xFEFF, 0xFF1B, 0x1F600, 0x10FFFF]
    hdr = {"X-Trace": "1", "cache-control": "no-store"}
    for cp in cps:
        ch = chr(cp)
        hostile = ch in "\r\n\x00 \t\x7f\x85é中" or cp in (0x2028, 0xFF1B)
        for i, (pre, post) in enumerate(contexts):
            for as_url in (False, True):
                case = {"target": pre + ch + post, "as_url": as_url, "status": (301, 302, 303, 307, 308)[(cp + i) % 5]}
                yield case
                if hostile:
                    yield dict(case, ctor_headers=hdr)
                    if as_url:
                        yield dict(case, as_url="request")
    for t in REDIRECT_HOSTILE:
        for as_url in (False, True, "request"):
            for ctor_headers in (None, {}, hdr):
                yield {"target": t, "as_url": as_url, "status": 302, "ctor_headers": ctor_headers}
    for n in (257, 2000, 70000):
        for ch in ("\r", "\n", "\x00", " ", "é"):
            for i in (0, 1, n // 2, n - 1):
                t = "/" + "a" * i + ch + "b" * (n - i - 1)
                yield {"target": t, "as_url": False, "status": 307}
                yield {"target": t, "as_url": n < 70000, "status": 307, "ctor_headers": hdr}


# ---- the same mapping checks in an interpreter that runs optimised (-O / PYTHONOPTIMIZE) ------------------------------
# "rejected with an error at the point of mutation" has to hold in every mode the interpreter is deployed in; under -O the
# compiler removes `assert` statements and `if __debug__:` blocks, so a rejection written as either is absent there.  No
# in-process case can show that: one child interpreter re-runs the fast enumerated mapping sub-checks.  The harness does
# not use `assert` for its verdicts (Result.fail / exit codes), so it judges the same way in the child.
_OPT_GUARD = "VERIF_C13_OPTIMIZED_CHILD"
OPT_ONLY = "paths,kinds"
_VERIF = os.path.dirname(os.path.dirname(os.path.abspath(__file__)))


def oracle_optimized(case) -> Result:
    r = Result()
    r.nontrivial = True
    if os.environ.get(_OPT_GUARD) or sys.flags.optimize:
        r.label("not-nested")  # a child never starts another child; an optimised parent runs everything optimised anyway
        return r
    if core.OUT == _VERIF:
        from harness import tmpfiles

        out = tmpfiles.workdir("verif_c13_opt_")
    else:
        out = os.path.join(core.OUT, "child-optimized")
    env = dict(os.environ, VERIF_OUT=out, PYTHONOPTIMIZE="1", PYTHONDONTWRITEBYTECODE="1")
    env[_OPT_GUARD] = "1"
    cmd = [sys.executable, "-O", os.path.join(_VERIF, "vrun.py"), "C13", "--tier", "quick", "--only", case["only"]]
    try:
        p = subprocess.run(cmd, env=env, capture_output=True, text=True, errors="replace", timeout=case.get("timeout", 60))
    except subprocess.TimeoutExpired:
        r.label("child-timeout(inconclusive)")
        return r
    if p.returncode == 0:
        r.label("child-quiet")
    elif p.returncode == 1:
        lines = p.stdout.splitlines()
        viol = [i for i, ln in enumerate(lines) if ln.startswith("VIOLATION")]
        first = lines[viol[0] + 1 : viol[0] + 3] if viol else []
        m = re.search(r"sub=(\S+) bucket=C13:(\S+)", first[0]) if first else None
        bucket = f"C13:optimized:{m.group(2)}" if m else "C13:optimized:violation"
        r.fail(bucket, f"interpreter started with -O (PYTHONOPTIMIZE=1), sub-checks {case['only']}: {len(viol)} violation(s), the first: " + " | ".join(x.strip() for x in first))
    else:
        r.label("child-harness-error(inconclusive)")
        r.note = (p.stdout + p.stderr)[-300:]
    return r


def oracle_atheris(case) -> Result:
    """Replay / triage oracle for inputs found by the Atheris campaign: decode the bytes like the fuzz target does."""
    from fuzz import targets

    res = oracle(targets.CASES["C13"](case["data"]))
    res.label("atheris")
    return res


SUBS["atheris"] = oracle_atheris
SUBS["optimized"] = oracle_optimized


def run(rec, only=None):
    quick = rec.tier == "quick"
    if os.environ.get(_OPT_GUARD) and not sys.flags.optimize:
        raise core.HarnessError("the child of the 'optimized' sub-check does not run optimised")
    core.drive_cases(rec, "exh", exh_cases(), oracle)
    rec.exhaustive["exh"] = True
    core.drive_cases(rec, "paths", paths_cases(), oracle)
    core.drive_cases(rec, "special", special_cases(), oracle)
    core.drive_cases(rec, "long", long_cases(quick), oracle, sample=False)
    core.drive_cases(rec, "kinds", kinds_cases(), oracle)
    core.drive_cases(rec, "cookiex", cookiex_cases(), oracle)
    core.drive_cases(rec, "cookietok", cookietok_cases(), oracle)
    core.drive_cases(rec, "cookieobj", cookieobj_cases(), oracle_cookie_object)
    core.drive_cases(rec, "redirect_exh", redirect_exh_cases(quick), oracle_redirect, sample=False)
    for sub in ("paths", "special", "long", "kinds", "cookiex", "cookietok", "cookieobj", "redirect_exh"):
        rec.exhaustive[sub] = True  # the listed grid is enumerated completely
    core.drive_hypothesis(rec, "history", history_case(), oracle, 1500 if quick else 30000)
    core.drive_hypothesis(rec, "redirect", redirect_case(), oracle_redirect, 1500 if quick else 30000, seed_offset=2)
    rec.exhaustive["history"] = rec.exhaustive["redirect"] = False
    if not os.environ.get(_OPT_GUARD):
        # last, so that whatever shows in the ordinary interpreter too is reported by its own sub-check first
        core.drive_cases(rec, "optimized", [{"only": OPT_ONLY, "timeout": 60}], oracle_optimized)
        rec.exhaustive["optimized"] = True
    if not quick:
        # coverage-guided second engine (Atheris / libFuzzer), same oracle inside the target
        from fuzz import driver

        driver.campaign(rec, "C13", oracle_atheris, runs=200000, seeds=[b"\x01\x00\x02ab=c;d", b"\x02\x01\x09\x03abc\r\n\x05hello"], max_total_time=120, jobs=4)
