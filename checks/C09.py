"""C09 - Mounting preserves the full path and dispatches on segment boundaries."""
from __future__ import annotations

import copy
import functools
import itertools
import re

from hypothesis import strategies as st

import baize.asgi as A
import baize.wsgi as W

from harness import core, gateways as gw
from harness.core import Result

LEVEL = "exploration"
RULES = {
    "mounts": "Hypothesis: mount tables of 1..5 entries over prefixes that are prefixes of each other ('', /a, /a/b, /ab, /api, /apix, "
    "/é, /a.b, /A, /日本), the default '' entry at any position, nesting depth <= 3, x paths ('', '/', prefix, prefix+'/', prefix+'x', "
    "prefix+'/x/y', unrelated, Unicode; a matching path re-spelled: other letter case, doubled slash, dot segment, percent escape, "
    "decomposed / fullwidth characters) x initial root path (also absent, equal to a prefix, ending in '/') x query string x method x "
    "scope type (http, websocket); both interfaces; non-trivial = two entries whose prefixes are prefixes "
    "of each other are both candidates, or nesting >= 2",
    "mount_grid": "exhaustive: all ordered tables of <= 3 entries over 5 prefixes x 20 paths x 2 root paths (depth 1), both interfaces",
    "mount_special": "enumerated: 11 families of look-alike spellings (letter case, repeated slashes, dot segments, percent escapes, "
    "delimiters ; # ? \\ and invisible characters after a prefix, Latin-1 misreadings of UTF-8 prefixes, CJK / astral prefixes, "
    "compatibility-equivalent characters, regex and template metacharacters in prefixes, root path / path keys absent from the request, "
    "root paths equal to a prefix or ending in '/'): all ordered tables of <= 2 entries over the family's prefixes and '' plus two-level "
    "tables x the family's paths (also below the first prefix) x root paths; both interfaces; WSGI values compared in their "
    "bytes-as-Latin-1 form",
    "mount_bytes": "enumerated: ASCII-prefix tables (flat and nested) x request paths whose bytes are not UTF-8 (lone / truncated / "
    "overlong / surrogate sequences before, directly after and below a prefix) x 2 root paths; both interfaces (ASGI sees the "
    "server's U+FFFD decoding)",
    "mount_seq": "enumerated: every ordered triple over 7 paths sent to ONE mount object (6 tables with shadowed / nested / default "
    "entries); a path before / after / around each of ~30 other spellings of it (letter case, slashes, dot segments, escapes, blanks, "
    "delimiters; also tables whose entries differ in letter case only); one path below three different root paths (also absent); "
    "each answer judged like a single request; both interfaces",
    "mount_seqs": "Hypothesis: 2..4 requests to ONE mount object over random nested tables: a matching path, other spellings of it, varying root paths",
    "mount_ws": "enumerated: ASGI websocket scopes through flat and nested mounts (tables of <= 2 entries over 4 prefixes x 12 paths x 3 root paths)",
    "hosts_fixed": "enumerated: small tables x Host absent / empty / foreign / member / upper-cased member x server address foreign / equal "
    "to a member / numeric; alternations whose earlier alternative is a prefix of a later one; Host values with 8-bit bytes; "
    "X-Forwarded-Host / Forwarded / X-Host style headers next to (before and after) or instead of Host; ASGI websocket scopes",
    "hosts_seq": "enumerated: every ordered pair and triple over 6 Host values sent to ONE Hosts object (3 tables whose languages overlap); for every pattern "
    "kind a member before / after / around each of ~50 near-misses of it (letter case, port, blanks, dots, user info, 8-bit bytes ...); tables whose "
    "entries differ in letter case only or accept every letter case x all pairs and triples over 7 case / port variants; each answer judged on its own; both interfaces",
    "hosts": "Hypothesis: host tables of 1..4 patterns from a constructive family (escaped literal, optional www., wildcard "
    "subdomain (greedy and lazy), label class, optional port, literal in any letter case, top-level alternation of literals incl. literals that are prefixes of "
    "one another) so that membership is decided by construction, x Host values (members, members with prefix/suffix "
    "junk, 8-bit bytes, ports, upper-case, empty, absent) x other host-like headers x scope type x optionally 1..2 further requests to the same Hosts object (the member, other spellings of it); non-trivial = a near-miss host (junk around a member)",
    "hosts_rx": "Hypothesis: host tables of 1..4 entries from a catalogue of ~40 patterns whose meaning depends on being compiled on their own "
    "(numbered back-references, named groups with names repeated across entries, conditional groups, leading flags (?i) (?x) (?s) (?a) and scoped flags, "
    "nested groups, look-ahead / look-behind, possessive / atomic / lazy quantifiers, plain patterns and a catch-all) over 3 domains, mixed with entries of "
    "the constructive family, x Host values derived from the patterns (members and near-misses of an entry, of a pattern not in the table, unrelated, absent) "
    "x optionally 2..3 requests to one Hosts object x scope type; every pattern is valid on its own, so building the table must succeed; expected = the first "
    "entry whose own pattern re.fullmatch-es the Host value, else 404; non-trivial = at least two entries have groups and the Host value goes to an entry other than the first",
    "hosts_rx_grid": "enumerated: every single catalogue pattern x all its members / near-misses / unrelated values; every ordered pair of catalogue patterns over one "
    "domain (thorough: 3 x 3 domains) x members and near-misses of both; a plain entry followed by two catalogue patterns, with and without a final catch-all",
}
ASSUMPTIONS = [
    "the WSGI environ carries paths in the PEP 3333 bytes-as-Latin-1 form; they are compared after decoding as UTF-8, and what a mount "
    "hands down (SCRIPT_NAME, PATH_INFO) must again be in that form",
    "SCRIPT_NAME / PATH_INFO (WSGI) and root_path (ASGI) may be absent from a request when empty (PEP 3333, ASGI HTTP scope)",
    "a request path whose bytes are not UTF-8 is only sent to tables with ASCII prefixes (how such a path compares with a non-ASCII prefix is left open)",
    "host patterns come from a constructive family whose language is computed without the re module; in hosts_rx / hosts_rx_grid the language of an entry "
    "is what re.fullmatch says about that entry's pattern compiled on its own (the property's wording), i.e. the re module is trusted and the table logic is judged",
    "a host table whose patterns are each valid on their own is a valid table: building the Hosts object must not raise",
    "dispatch is on the Host header only: no other header and not the server address takes part",
]

PREFIXES = ["", "/a", "/a/b", "/ab", "/api", "/apix", "/é", "/a.b", "/A", "/日本"]


def ref_search(table, path):
    for i, (prefix, _) in enumerate(table):
        if path == prefix or path.startswith(prefix + "/"):
            return i
    return None


def expected(table, root, path, trail=(), visited=None):
    """Reference walk over text.
    -> ('leaf', label, root_seen, path_seen, trail, visited) | ('404', root, path, trail, visited)
    visited = [(trail, root, path)] for every nested mount level entered (level 0 is the request itself)."""
    visited = [] if visited is None else visited
    i = ref_search(table, path)
    if i is None:
        return ("404", root, path, trail, visited)
    prefix, sub = table[i]
    nroot, npath = root + prefix, path[len(prefix):]
    if isinstance(sub, list):
        visited.append((trail + (i,), nroot, npath))
        return expected(sub, nroot, npath, trail + (i,), visited)
    return ("leaf", sub, nroot, npath, trail + (i,), visited)


def _dec(s):
    try:
        return s.encode("latin-1").decode("utf-8")
    except UnicodeError:
        return s


def _native(s):
    return s.encode("utf-8").decode("latin-1")


def expected_wsgi(table, raw_root, raw_path, trail=(), visited=None):
    """The same walk over the environ's native strings: the text compared is the UTF-8 reading of the bytes
    (the Latin-1 view when they are not UTF-8), what is moved from the path to the root path is the
    byte sequence of the prefix."""
    visited = [] if visited is None else visited
    text = _dec(raw_path)
    i = ref_search(table, text)
    if i is None:
        return ("404", raw_root, raw_path, trail, visited)
    prefix, sub = table[i]
    nat = _native(prefix)
    if not raw_path.startswith(nat):  # generator precondition (non-UTF-8 path x non-ASCII prefix is not generated)
        raise core.HarnessError(f"reference: {raw_path!r} does not start with the bytes of {prefix!r}")
    nroot, npath = raw_root + nat, raw_path[len(nat):]
    if isinstance(sub, list):
        visited.append((trail + (i,), nroot, npath))
        return expected_wsgi(sub, nroot, npath, trail + (i,), visited)
    return ("leaf", sub, nroot, npath, trail + (i,), visited)


def snapshot(mapping):
    out = {}
    for k, v in mapping.items():
        if isinstance(v, (str, bytes, int, float, bool, type(None), tuple)):
            out[k] = v
        elif isinstance(v, (list, dict)):
            out[k] = copy.deepcopy(v)
        else:
            out[k] = ("id", id(v))
    return out


def build(table, side, sink, trail=()):
    """sink = {'leaf': [(label, root, path)], 'levels': [{'trail', 'root', 'path', 'before', 'after'}]}
    Leaves record the raw values they are handed; every nested mount sits behind a pass-through application
    that records what its level was handed and the request mapping before and after that level ran."""
    M = W if side == "wsgi" else A
    entries = []
    for i, (prefix, sub) in enumerate(table):
        if isinstance(sub, list):
            inner = build(sub, side, sink, trail + (i,))
            if side == "wsgi":

                def app(environ, start_response, _inner=inner, _trail=trail + (i,)):
                    lv = {"trail": _trail, "root": environ.get("SCRIPT_NAME"), "path": environ.get("PATH_INFO"), "before": snapshot(environ), "after": None}
                    sink["levels"].append(lv)
                    try:
                        yield from _inner(environ, start_response)
                    finally:
                        lv["after"] = snapshot(environ)

            else:

                async def app(scope, receive, send, _inner=inner, _trail=trail + (i,)):
                    lv = {"trail": _trail, "root": scope.get("root_path"), "path": scope.get("path"), "before": snapshot(scope), "after": None}
                    sink["levels"].append(lv)
                    try:
                        await _inner(scope, receive, send)
                    finally:
                        lv["after"] = snapshot(scope)

        elif side == "wsgi":

            def app(environ, start_response, _label=sub):
                sink["leaf"].append((_label, environ.get("SCRIPT_NAME"), environ.get("PATH_INFO")))
                start_response("200 OK", [("content-type", "text/plain"), ("x-leaf", str(_label))])
                return [str(_label).encode()]

        else:

            async def app(scope, receive, send, _label=sub):
                sink["leaf"].append((_label, scope.get("root_path"), scope.get("path")))
                if scope["type"] != "http":
                    return
                await send({"type": "http.response.start", "status": 200, "headers": [(b"content-type", b"text/plain"), (b"x-leaf", str(_label).encode())]})
                await send({"type": "http.response.body", "body": str(_label).encode()})

        entries.append((prefix, app))
    return M.Subpaths(*entries)


def _diff(before, after):
    return {k: (before.get(k), after.get(k)) for k in set(before) | set(after) if before.get(k) != after.get(k)}


def _show(side, s):
    return repr(s) if side == "asgi" or s is None or _dec(s) == s else f"{s!r} (= {_dec(s)!r})"


def judge_mount(r, side, app, sink, table, rq, ctx):
    """One request (rq = {'root', 'path' | 'path_bytes', 'scope_type', 'query', 'method'}) through a built mount."""
    root, path, pbytes = rq.get("root"), rq.get("path"), rq.get("path_bytes")
    ws = rq.get("scope_type") == "websocket"
    del sink["leaf"][:], sink["levels"][:]
    if pbytes is not None:
        path = pbytes.decode("utf-8", "replace")  # what an ASGI server hands over
    areq = gw.areq(method=rq.get("method") or "GET", path=path or "", root_path=root or "", query=rq.get("query") or b"", path_bytes=pbytes)
    if side == "wsgi":
        env = gw.make_environ(areq)
        if root is None:
            del env["SCRIPT_NAME"]
        if path is None:
            del env["PATH_INFO"]
        raw_root, raw_path = env.get("SCRIPT_NAME", ""), env.get("PATH_INFO", "")
        exp = expected_wsgi(table, raw_root, raw_path)
        if pbytes is None:
            # self-check of the harness: on text paths the byte-level walk is the text-level walk
            t = expected(table, root or "", path or "")
            tn = tuple(_native(x) if isinstance(x, str) and i in ((1, 2) if t[0] == "404" else (2, 3)) else x for i, x in enumerate(t[:-1]))
            if tn != exp[:-1] or [(tr, _native(a), _native(b)) for tr, a, b in t[-1]] != exp[-1]:
                raise core.HarnessError(f"references disagree: {t!r} / {exp!r}")
        before = snapshot(env)
        run = gw.run_wsgi(app, env)
        after = snapshot(env)
    else:
        scope = gw.make_scope(areq)
        if root is None:
            del scope["root_path"]
        if ws:
            scope["type"], scope["scheme"], scope["subprotocols"] = "websocket", "ws", []
            del scope["method"]
        exp = expected(table, root or "", path or "")
        before = snapshot(scope)
        run = gw.run_sync(gw.run_asgi(app, scope))
        after = snapshot(scope)
    leaf, levels = list(sink["leaf"]), list(sink["levels"])
    if run.exc is not None:
        r.fail(f"C09:{side}:raised:{type(run.exc).__name__}", f"{ctx}: {run.exc!r}")
        return exp
    visited = exp[-1]
    # every nested level entered: the expected mounts, each handed the expected root path and path
    got_trails, exp_trails = [lv["trail"] for lv in levels], [v[0] for v in visited]
    if got_trails != exp_trails:
        r.fail(f"C09:{side}:wrong-entry", f"{ctx}: nested mounts entered {got_trails!r}, the first matching entries lead through {exp_trails!r}; leaves ran {leaf!r}")
        return exp
    for lv, (tr, eroot, epath) in zip(levels, visited):
        if (lv["path"] or "") != epath:
            r.fail(f"C09:{side}:path-seen", f"{ctx}: nested mount {tr!r} saw path {_show(side, lv['path'])}, expected {_show(side, epath)}")
        if (lv["root"] or "") != eroot:
            r.fail(f"C09:{side}:root-seen", f"{ctx}: nested mount {tr!r} saw root path {_show(side, lv['root'])}, expected {_show(side, eroot)}")
    if exp[0] == "404":
        if leaf or (not ws and run.status_code != 404):
            r.fail(f"C09:{side}:no-entry-but-dispatched", f"{ctx}: expected 404 at level {exp[3]!r}, got status {run.status_code}, sub-apps ran {leaf!r}")
        else:
            # the level at which nothing matched leaves the request as it got it
            b, a = (before, after) if not levels else (levels[-1]["before"], levels[-1]["after"])
            if a is None or b != a:
                r.fail(f"C09:{side}:request-touched-on-404", f"{ctx}: request mapping changed at level {exp[3]!r} although no entry matched: {_diff(b, a or {})!r}")
        return exp
    _, label, eroot, epath, trail, _ = exp
    if len(leaf) != 1:
        r.fail(f"C09:{side}:dispatch-count", f"{ctx}: expected leaf {label!r} via {trail!r}, sub-apps ran {leaf!r}, status {run.status_code}")
        return exp
    glabel, groot, gpath = leaf[0]
    if glabel != label:
        r.fail(f"C09:{side}:wrong-entry", f"{ctx}: entry {glabel!r} ran, the first matching entry is {label!r} (via {trail!r})")
        return exp
    groot, gpath = groot or "", gpath or ""
    if type(groot) is not str or type(gpath) is not str:
        r.fail(f"C09:{side}:value-type", f"{ctx}: sub-application saw root path {groot!r}, path {gpath!r}")
        return exp
    if gpath != epath:
        native = side == "wsgi" and _dec(gpath) == _dec(epath)
        r.fail(f"C09:{side}:path-" + ("not-native" if native else "seen"), f"{ctx}: sub-application saw path {_show(side, gpath)}, expected {_show(side, epath)}"
               + (" - the same text, but not in the environ's bytes-as-Latin-1 form" if native else ""))
    if groot != eroot:
        native = side == "wsgi" and _dec(groot) == _dec(eroot)
        r.fail(f"C09:{side}:root-" + ("not-native" if native else "seen"), f"{ctx}: sub-application saw root path {_show(side, groot)}, expected {_show(side, eroot)}"
               + (" - the same text, but not in the environ's bytes-as-Latin-1 form" if native else ""))
    whole = (raw_root + raw_path) if side == "wsgi" else ((root or "") + (path or ""))
    if groot + gpath != whole:
        r.fail(f"C09:{side}:full-path-changed", f"{ctx}: root+path seen {_show(side, groot + gpath)}, request had {_show(side, whole)}")
    if not ws:
        # dispatching means the selected sub-application answers
        body = run.body
        if run.status_code != 200 or body != str(label).encode() or run.get("x-leaf") != str(label):
            r.fail(f"C09:{side}:answer-not-passed-on", f"{ctx}: entry {label!r} answered 200 / {str(label)!r}, the client got {run.status_code} / {body[:60]!r} / x-leaf {run.get('x-leaf')!r}")
    return exp


def _sides(rq):
    return ("asgi",) if rq.get("scope_type") == "websocket" else ("wsgi", "asgi")


def oracle_mounts(case) -> Result:
    r = Result()
    table = case["table"]
    rq = {k: case.get(k) for k in ("root", "path", "path_bytes", "scope_type", "query", "method")}
    shown = case.get("path_bytes") if case.get("path_bytes") is not None else case.get("path")
    ctx = f"table {table!r} root {case.get('root')!r} path {shown!r}" + (" websocket" if rq["scope_type"] == "websocket" else "") + (
        f" query {rq['query']!r}" if rq.get("query") else "")
    exp = None
    for side in _sides(rq):
        sink = {"leaf": [], "levels": []}
        app = build(table, side, sink)
        exp = judge_mount(r, side, app, sink, table, rq, ctx)
    # labels from the (text-level) ASGI expectation
    tpath = case["path_bytes"].decode("utf-8", "replace") if case.get("path_bytes") is not None else (case.get("path") or "")
    cands = [p for p, _ in table if tpath == p or tpath.startswith(p + "/")]
    depth = len(exp[4]) if exp[0] == "leaf" else len(exp[3]) + 1
    r.nontrivial = len(cands) >= 2 or depth >= 2 or bool(case.get("near"))
    r.label(f"outcome={exp[0]}", f"depth={depth}", f"candidates={min(len(cands), 3)}")
    if case.get("family"):
        r.label(f"family={case['family']}")
    r.key = (repr(table), case.get("root"), shown, rq["scope_type"], rq.get("query"), rq.get("method"))
    return r


def oracle_mount_seq(case) -> Result:
    """Several requests to ONE mount object: each is judged like a single request."""
    r = Result()
    table = case["table"]
    for side in ("wsgi", "asgi"):
        sink = {"leaf": [], "levels": []}
        app = build(table, side, sink)
        for n, rq in enumerate(case["requests"]):
            ctx = f"table {table!r}, one mount object, requests {[q.get('path') for q in case['requests']]!r}: request #{n} root {rq.get('root')!r} path {rq.get('path')!r}"
            before = len(r.failures)
            judge_mount(r, side, app, sink, table, rq, ctx)
            if len(r.failures) > before:
                break
    r.nontrivial = len({(q.get("root"), q.get("path")) for q in case["requests"]}) >= 2
    r.weight = len(case["requests"])
    r.label(f"requests={len(case['requests'])}")
    return r


# ------------------------------------------------------------------------------------------
# hosts


_ASCII_LOWER = {ord(c): ord(c.lower()) for c in "ABCDEFGHIJKLMNOPQRSTUVWXYZ"}


def _ascii_lower(s):
    return s.translate(_ASCII_LOWER)


def host_language(pat, host):
    kind, lit = pat
    if kind == "rx":
        # the property's wording: the entry's OWN pattern, compiled on its own, matches the entire Host value
        return re.compile(lit).fullmatch(host) is not None
    if kind == "lit":
        return host == lit
    if kind == "www":
        return host in (lit, "www." + lit)
    if kind in ("sub", "lazy"):
        return host.endswith("." + lit) and "\n" not in host
    if kind == "cls":
        label = host[: -len(lit) - 1]
        return host.endswith("." + lit) and label != "" and all(c in "abcdefghijklmnopqrstuvwxyz0123456789-" for c in label)
    if kind == "alt":
        return host in lit.split("|")
    if kind == "ci":
        # (?i:literal) over ASCII literals: Host values are Latin-1, where only A-Z / a-z fold onto ASCII letters
        return _ascii_lower(host) == _ascii_lower(lit)
    if kind == "port":
        if host == lit:
            return True
        if host.startswith(lit + ":"):
            rest = host[len(lit) + 1:]
            return rest != "" and rest.isdecimal()
        return False
    raise core.HarnessError(kind)


def host_regex(pat):
    kind, lit = pat
    if kind == "rx":  # a pattern given as such (RX_FAMILIES)
        return lit
    if kind == "alt":  # top-level alternation of escaped literals
        return "|".join(re.escape(x) for x in lit.split("|"))
    e = re.escape(lit)
    return {"lit": e, "www": r"(www\.)?" + e, "sub": r".*\." + e, "lazy": r".*?\." + e, "cls": r"[a-z0-9-]+\." + e, "port": e + r"(:\d+)?", "ci": "(?i:" + e + ")"}[kind]


def _hosts_app(table, side, seen):
    M = W if side == "wsgi" else A
    entries = []
    for i, pat in enumerate(table):
        if side == "wsgi":

            def app(environ, start_response, _i=i):
                seen.append(_i)
                start_response("200 OK", [])
                return [b"ok"]

        else:

            async def app(scope, receive, send, _i=i):
                seen.append(_i)
                if scope["type"] != "http":
                    return
                await send({"type": "http.response.start", "status": 200, "headers": []})
                await send({"type": "http.response.body", "body": b"ok"})

        entries.append((host_regex(pat), app))
    return M.Hosts(*entries)


def oracle_hosts(case) -> Result:
    """case: table, host (or 'seq': several Host values sent to one Hosts object), server, near_miss,
    extra = [[name, value], ...] other headers, host_pos = index of the Host header among them, scope_type"""
    r = Result()
    table = case["table"]
    seq = case["seq"] if "seq" in case else [case["host"]]
    extra = [list(h) for h in case.get("extra") or []]
    ws = case.get("scope_type") == "websocket"
    rx = any(p[0] == "rx" for p in table)
    grouped, picked = 0, []
    if rx:
        # generator precondition: every pattern is valid on its own
        for p in table:
            try:
                grouped += re.compile(host_regex(p)).groups >= 1
            except re.error as exc:
                raise core.HarnessError(f"generated host pattern {host_regex(p)!r} is not a valid pattern: {exc!r}")
    for host in seq:
        # the first entry whose language contains the whole Host value (an absent Host header is the empty value)
        picked.append(next((i for i, pat in enumerate(table) if host_language(pat, host if host is not None else "")), None))
    for side in (("asgi",) if ws else ("wsgi", "asgi")):
        seen = []
        try:
            hosts = _hosts_app(table, side, seen)
        except Exception as exc:  # noqa: BLE001
            if not rx:
                raise
            r.fail(f"C09:{side}:hosts-table-rejected:{type(exc).__name__}", f"patterns {[host_regex(p) for p in table]!r}: every pattern is valid on its own, "
                   f"but building the Hosts object raised {exc!r}")
            continue
        for n, host in enumerate(seq):
            del seen[:]
            exp = picked[n]
            ctx = f"patterns {[host_regex(p) for p in table]!r} Host {host!r} server {case.get('server', 'testserver')!r}"
            if extra:
                ctx += f" other headers {extra!r} (Host at position {case.get('host_pos', 0)})"
            if len(seq) > 1:
                ctx += f" as request #{n} of {seq!r} to one Hosts object"
            if ws:
                ctx += " websocket"
            headers = list(extra)
            if host is not None:
                headers.insert(min(case.get("host_pos", 0), len(headers)), ["Host", host])
            rq = gw.areq(headers=headers, server=[case.get("server", "testserver"), 80])
            if side == "wsgi":
                run = gw.call_wsgi(hosts, rq)
            else:
                scope = gw.make_scope(rq)
                if ws:
                    scope["type"], scope["scheme"], scope["subprotocols"] = "websocket", "ws", []
                    del scope["method"]
                run = gw.run_sync(gw.run_asgi(hosts, scope))
            if run.exc is not None:
                r.fail(f"C09:{side}:hosts-raised:{type(run.exc).__name__}", f"{ctx}: {run.exc!r}")
                break
            if exp is None:
                if (not ws and run.status_code != 404) or seen:
                    r.fail(f"C09:{side}:host-not-in-any-language-but-dispatched", f"{ctx}: status {run.status_code}, entries ran {seen!r}")
                    break
            elif seen != [exp]:
                r.fail(f"C09:{side}:host-wrong-entry", f"{ctx}: entries ran {seen!r} (status {run.status_code}), expected entry #{exp}")
                break
    r.weight = len(seq)
    if rx:
        # non-trivial: at least two entries have groups of their own (numbered / named / referred back to) and the
        # Host value belongs to an entry other than the first
        r.nontrivial = grouped >= 2 and any(e is not None and e >= 1 for e in picked)
        first = picked[0] if picked else None
        r.label("no-match" if first is None else "match-first" if first == 0 else "match-later", f"entries-with-groups={min(grouped, 3)}",
                f"requests={len(seq)}", "non-trivial" if r.nontrivial else "trivial")
        for fam in case.get("families") or []:
            r.label(f"family={fam}")
        return r
    r.nontrivial = bool(case.get("near_miss")) or len(set(seq)) >= 2
    if "seq" in case:
        r.label(f"requests={len(seq)}")
    else:
        host = case["host"]
        hit = any(host_language(p, host if host is not None else "") for p in table)
        r.label("match" if hit else "no-match", "near-miss" if case.get("near_miss") else "plain", "host-absent" if host is None else "host-present",
                "other-host-headers" if extra else "host-only")
    return r


SUBS = {"mounts": oracle_mounts, "mount_grid": oracle_mounts, "mount_special": oracle_mounts, "mount_bytes": oracle_mounts, "mount_ws": oracle_mounts,
        "mount_seq": oracle_mount_seq, "mount_seqs": oracle_mount_seq, "hosts": oracle_hosts, "hosts_fixed": oracle_hosts, "hosts_seq": oracle_hosts,
        "hosts_rx": oracle_hosts, "hosts_rx_grid": oracle_hosts}

# ------------------------------------------------------------------------------------------


@st.composite
def tables(draw, depth=1):
    n = draw(st.integers(1, 5))
    prefixes = draw(st.lists(st.sampled_from(PREFIXES), min_size=n, max_size=n))
    table = []
    for i, p in enumerate(prefixes):
        if depth < 3 and draw(st.integers(0, 3)) == 0:
            table.append([p, draw(tables(depth + 1))])
        else:
            table.append([p, f"L{depth}.{i}"])
    return table


def _all_prefixes(table, acc=""):
    out = []
    for p, sub in table:
        out.append(acc + p)
        if isinstance(sub, list):
            out.extend(_all_prefixes(sub, acc + p))
    return out


_FULLWIDTH = {c: chr(ord(c) + 0xFEE0) for c in "abipxAB"}


def respell(base, how):
    """Another spelling of a path that a lenient comparison might take for the same: none of them IS the same path."""
    if how == "upper":
        return base.upper()
    if how == "swap-last":
        return base[:-1] + base[-1:].swapcase()
    if how == "lead-slash":
        return "/" + base
    if how == "inner-slash":
        i = base.rfind("/")
        return base[:i] + "/" + base[i:] if i >= 0 else base
    if how == "dot":
        i = base.rfind("/")
        return base[:i] + "/." + base[i:] if i >= 0 else base
    if how == "dotdot":
        return "/x/.." + base
    if how == "percent":
        return base[:-1] + "".join("%%%02X" % b for b in base[-1:].encode("utf-8"))
    if how == "percent-slash":
        i = base.rfind("/")
        return base[:i] + "%2F" + base[i + 1:] if i > 0 else base
    if how == "nfd":
        return base.replace("é", "e\u0301")
    if how == "fullwidth":
        return base[:-1] + _FULLWIDTH.get(base[-1:], base[-1:])
    return base


RESPELL = ["upper", "swap-last", "lead-slash", "inner-slash", "dot", "dotdot", "percent", "percent-slash", "nfd", "fullwidth"]
TAILS = ["", "/", "x", "/x/y", "/x", "//", "/a", "/a/b", "/é", ".b", "/b", "b", "\n", "\r", "\n/x", "/\n", " ", "%", "?", "\x00", "\u2028", "\x0b",
         "/X", "/A", ";", ";x=1", "#", "#f", "%2F", "%2Fx", "//x", "/./x", "/../x", "/.", "/..", "\\", "\\x", ":", "\ufffd", "/\ufffd", "é", "/日本", "\u200b", "\xa0"]
ROOTS = ["", "", "", "/root", "/é", "/a", "/a/b", "/r/", None]


@st.composite
def mount_case(draw):
    table = draw(tables())
    base = draw(st.sampled_from(_all_prefixes(table) + PREFIXES))
    near = False
    if draw(st.integers(0, 4)) == 0:
        spelled = respell(base, draw(st.sampled_from(RESPELL)))
        near, base = spelled != base, spelled
    tail = draw(st.sampled_from(TAILS))
    path = draw(st.one_of(st.just(base + tail), st.sampled_from(["", "/", "/zzz", "/abc", "/apixy", "/a.bc", "/ax/b", "nothing", "/éa", "//a", "/API", "/%61"])))
    case = {"table": table, "root": draw(st.sampled_from(ROOTS)), "path": path}
    if near:
        case["near"] = True
    q = draw(st.sampled_from([None, None, None, b"x=1", b"/a/b", b"a=%2F&b=/a"]))
    if q is not None:
        case["query"] = q
    m = draw(st.sampled_from([None, None, None, "POST", "DELETE"]))
    if m is not None:
        case["method"] = m
    if draw(st.integers(0, 7)) == 0:
        case["scope_type"] = "websocket"
    return case


@st.composite
def mount_seq_case(draw):
    """2..4 requests to one mount object: a path that matches something, other spellings of it, the same path below another root path"""
    table = draw(tables())
    base = draw(st.sampled_from(_all_prefixes(table) + PREFIXES)) + draw(st.sampled_from(["", "", "/", "/x", "/a", "/a/b"]))
    pool = [base, base] + (path_variants(base) if base else ["/", " "]) + [p + "/x" for p in _all_prefixes(table)]
    n = draw(st.integers(2, 4))
    return {"table": table, "requests": [{"root": draw(st.sampled_from(ROOTS)), "path": draw(st.sampled_from(pool))} for _ in range(n)]}


GRID_PREFIXES = ["", "/a", "/a/b", "/ab", "/é"]
GRID_PATHS = ["", "/", "/a", "/a/", "/ab", "/a/b", "/a/b/", "/a/bc", "/abc", "/ab/c", "/a/b/c/d", "/é", "/é/x", "/zzz", "/a\n", "\n", "/a/b\n", "/a\n/b", "/a\r", "/ab\n"]


def grid_cases():
    for n in (1, 2, 3):
        for combo in itertools.product(GRID_PREFIXES, repeat=n):
            table = [[p, f"e{j}"] for j, p in enumerate(combo)]
            for path in GRID_PATHS:
                for root in ("", "/root"):
                    yield {"table": table, "root": root, "path": path}


# name, prefixes, paths, root paths
FAMILIES = [
    ("case", ["/a", "/A", "/a/b"], ["/a", "/A", "/a/B", "/A/b", "/A/B", "/a/b", "/A/", "/a/", "/A/x", "/aB", "/Ab", "/a/b/C"], ("", "/root")),
    ("case-unicode", ["/é", "/É", "/ß"], ["/é", "/É", "/é/x", "/É/x", "/ß", "/SS", "/ss", "/ẞ", "/ß/x", "/SS/x", "/ǆ", "/Ǆ"], ("", "/É")),
    ("slashes", ["/a", "/a/b", "/b"], ["//a", "//a/b", "/a//b", "/a//", "//", "///a", "/a/b//", "/a///b", "//a//b", "/a//b/c", "//b", "/a/b", "/a", "//a/"], ("", "/root")),
    ("dots", ["/a", "/a/b", "/b"], ["/./a", "/a/./b", "/a/../b", "/a/b/..", "/a/b/../", "/x/../a", "/a/.", "/a/..", "/a/../a", "/..", "/../a", "/.", "/a/b/.",
                                      "/a/b/./c", "/./a/b", "/a/.b", "/a/..b", "/.a", "/a/b/../b"], ("", "/root")),
    ("percent", ["/a", "/a/b", "/é"], ["/%61", "/%61/b", "/a%2Fb", "/a%2fb", "/a%2F", "/a/%62", "/%2Fa", "/a%0A", "/a%00", "/a%20", "/%C3%A9", "/%c3%a9/x", "/a%",
                                         "/a%2", "/%2561", "/a+", "/a%3B", "/a%3F", "/%E9"], ("", "/root")),
    ("delimiters", ["/a", "/a/b", "/a;b"], ["/a;x=1", "/a;", "/a;b", "/a;b/c", "/a;b;c", "/a/b;v=1", "/a/b;v=1/c", "/a#f", "/a#", "/a?x", "/a?", "/a&", "/a\\", "/a\\b",
                                              "\\a", "/a:", "/a:80", "/a,", "/a*", "/a.", "/a..", "/a~", "/a@", "/a=", "/a|b", "/a\t", "/a\x7f", "/a\xa0", "/a\u200b",
                                              "/a\ufeff", "/a\x85", "/a\x1f", "/a\x0c"], ("", "/root")),
    ("latin1-misreading", ["/é", "/Ã©", "/Ã"], ["/é", "/Ã©", "/é/x", "/Ã©/x", "/Ã", "/Ã/©", "/Ã\x83Â©", "/é/é", "/Ã©/é", "/é/Ã©", "/\xa9"], ("", "/é")),
    ("wide", ["/日本", "/😀", "/日本/語"], ["/日本", "/日本/x", "/日本語", "/日", "/日本/語", "/日本/語/é", "/😀", "/😀/é", "/😀x", "/😀/😀", "/日本/"], ("", "/日本")),
    ("compat", ["/a", "/é", "/\ufb01"], ["/\uff41", "/\uff41/x", "/\xaa", "/e\u0301", "/e\u0301/x", "/é", "/fi", "/\ufb01", "/\ufb01/x", "/fi/x", "/a\u0301", "/\u212b", "/é\u0301"], ("", "/root")),
    ("metachars", ["/a.b", "/a+", "/(a)", "/{x}"], ["/a.b", "/axb", "/a.b/c", "/axb/c", "/a+", "/aa", "/a", "/(a)", "/(a)/x", "/a+/x", "/aa/x", "/{x}", "/{x}/y", "/v", "/v/y",
                                                    "/%7Bx%7D", "/a", "/{x"], ("", "/root")),
    ("absent-keys", ["/a", "/a/b"], [None, "", "/", "/a", "/a/", "/a/b", "/a/b/c", "/x"], (None, "", "/root")),
    ("roots", ["/a", "/a/b", "/b"], ["", "/", "/a", "/a/b", "/a/a", "/a/a/b", "/b/a", "/a/b/a/b", "/r", "/r/a", "/x"], ("/a", "/a/b", "/r/", "/a/")),
]


def special_cases(full=False):
    for name, prefixes, fpaths, roots in FAMILIES:
        pool = prefixes + [""]
        tabs = [[[p, "e0"]] for p in pool]
        tabs += [[[p, "e0"], [q, "e1"]] for p in pool for q in pool]
        outers = prefixes if full else prefixes[:1]
        for o in outers:
            tabs += [[[o, [[q, "n0"], ["", "n1"]]]] for q in prefixes]
            tabs += [[[o, [[q, "n0"]]], ["", "e1"]] for q in prefixes]
        if full:
            tabs += [[[p, "e0"], [q, "e1"], [s, "e2"]] for p in pool for q in pool for s in pool]
        paths = list(fpaths)
        for o in outers:
            paths += [o + p for p in fpaths if p is not None and p.startswith("/")]
        paths = list(dict.fromkeys(paths))
        for table in tabs:
            for path in paths:
                for root in roots:
                    yield {"table": table, "root": root, "path": path, "family": name, "near": True}


BYTE_PATHS = [b"/a/\xff", b"/a\xff", b"/a\xff/b", b"\xff", b"/\xff", b"/\xff/a", b"/a/b/\xe9", b"/a/b\xe9", b"/a/\xc3", b"/a\xc3", b"/a/\xc3\xa9\xff", b"/a/b\x80", b"/a/b/\x80/c",
              b"/a\xc3\xa9", b"/a/\xc3\xa9", b"/a/\xed\xa0\x80", b"/a\xed\xa0\x80", b"/a/\xc0\xaf", b"/a\xc0\xafb", b"/a\xc0\xaf", b"/a/b\xc0\xaf", b"/a/b/\xf8\x88\x80\x80\x80",
              b"/\xe9/a", b"/a/\xa0", b"/a\xa0", b"/a\xad", b"/a\x85", b"/a/b\xe2\x80", b"/a\xe2\x80\xa8"]


def bytes_cases():
    flat = ["", "/a", "/a/b", "/b"]
    tabs = [[[p, "e0"]] for p in flat] + [[[p, "e0"], [q, "e1"]] for p in flat for q in flat]
    tabs += [[["/a", [[q, "n0"], ["", "n1"]]]] for q in ("/b", "/a")] + [[["/a", [["/b", "n0"]]], ["", "e1"]], [["", [["/a", [["/b", "d3"]]]]]]]
    # PENDING-DEFECT: (left open rather than a certain defect) a non-UTF-8 path is compared in its Latin-1 view, so on WSGI it never
    # matches a non-ASCII prefix although its bytes start with the bytes of that prefix (b"/\xc3\xa9/\xff" under "/é" is 404 on
    # WSGI and dispatched on ASGI, where the server decodes with U+FFFD); only ASCII prefixes are used with these paths.
    for table in tabs:
        for pb in BYTE_PATHS:
            for root in ("", "/root"):
                yield {"table": table, "root": root, "path_bytes": pb, "near": True}


SEQ_TABLES = [
    [["/a", "e0"], ["", "e1"]],
    [["", "e0"], ["/a", "e1"]],
    [["/a/b", "e0"], ["/a", "e1"]],
    [["/a", "e0"], ["/a/b", "e1"]],
    [["/a", "e0"], ["/ab", "e1"], ["/a/b", "e2"], ["", "e3"]],
    [["/a", [["/b", "n0"], ["", "n1"]]], ["/a/b", "e1"], ["", "e2"]],
]
SEQ_PATHS = ["/a", "/a/b", "/a/b/c", "/ab", "/x", "", "/a/c"]


SEQ_CASE_TABLES = [
    [["/A", "e0"], ["/a", "e1"]],
    [["/a", "e0"], ["/A", "e1"], ["", "e2"]],
    [["/a", [["/B", "n0"], ["/b", "n1"]]], ["/A", [["/b", "n2"]]]],
]


def path_variants(p):
    """near-misses of a path: none is the same path, each is what some normalisation would map onto it"""
    out = [respell(p, how) for how in RESPELL]
    out += [p + t for t in (" ", "\n", "\t", ";x", "%20", "/", "//", "x", "?", "?x=1", "#", ".", "/.", "/..", "\x00", "\u200b")]
    out += [" " + p, p.title(), p.swapcase(), p.rstrip("/") + "/"]
    return [v for v in dict.fromkeys(out) if v != p]


def seq_cases(full=False):
    for table in SEQ_TABLES:
        for n in ((2, 3, 4) if full else (3,)):
            for combo in itertools.product(SEQ_PATHS, repeat=n):
                if len(set(combo)) < 2:
                    continue
                yield {"table": table, "requests": [{"root": "", "path": p} for p in combo]}
    # a path, then (or after, or around) another spelling of it, on one mount object
    for table in SEQ_TABLES + SEQ_CASE_TABLES:
        for p in ("/a", "/a/b", "/a/b/c", "/ab", "/a/c", "/A", "/A/b"):
            for v in path_variants(p):
                for combo in ((p, v), (v, p), (p, v, p)):
                    yield {"table": table, "requests": [{"root": "", "path": q} for q in combo], "respelled": True}
    # the same path below different root paths (also absent) on one mount object
    for table in SEQ_TABLES:
        for p in ("/a", "/a/b/c", "/x", ""):
            for roots in itertools.permutations(["", "/root", "/a", None], 3):
                yield {"table": table, "requests": [{"root": rt, "path": p} for rt in roots], "respelled": True}


def ws_cases():
    flat = ["", "/a", "/a/b", "/ab"]
    tabs = [[[p, "e0"]] for p in flat] + [[[p, "e0"], [q, "e1"]] for p in flat for q in flat]
    tabs += [[["/a", [["/b", "n0"], ["", "n1"]]]], [["/a", [["/b", "n0"]]], ["", "e1"]]]
    for table in tabs:
        for path in ["", "/", "/a", "/a/", "/ab", "/a/b", "/a/b/", "/a/bc", "/abc", "/a/b/c/d", "/zzz", "/a\n"]:
            for root in ("", "/root", None):
                yield {"table": table, "root": root, "path": path, "scope_type": "websocket"}


def enum_shard(rec, k, nshards, sub, full):
    gen = {"mount_grid": grid_cases, "mount_special": lambda: special_cases(full), "mount_bytes": bytes_cases, "mount_seq": lambda: seq_cases(full),
           "mount_ws": ws_cases, "hosts_seq": hosts_seq_cases, "hosts_rx_grid": lambda: hosts_rx_grid_cases(full)}[sub]
    g = core.guarded(SUBS[sub])
    for i, case in enumerate(gen()):
        if i % nshards != k:
            continue
        res = g(case)
        rec.count(sub, case, res)
        new, old = rec.split(res)
        rec.note_known(old)
        for f in new:
            rec.add_violation(sub, f, case)
            rec.skip.add(f.bucket)


LITS = ["example.com", "api.example.com", "localhost", "a-b.org", "x.y", "example.com.au", "example.co"]
OTHER_HOST_HEADERS = ["X-Forwarded-Host", "X-Host", "X-Original-Host", "X-Forwarded-Server", "X-HTTP-Host-Override", "Forwarded"]


def _other(name, value):
    return [name, ("host=" + value) if name == "Forwarded" else value]


@st.composite
def host_case(draw):
    entry = st.one_of(
        st.tuples(st.sampled_from(["lit", "www", "sub", "port", "lazy", "cls", "ci"]), st.sampled_from(LITS + ["CDN.example.com", "Example.COM"])),
        st.tuples(st.just("alt"), st.lists(st.sampled_from(LITS), min_size=2, max_size=3, unique=True).map("|".join)),
    ).map(list)
    table = draw(st.lists(entry, min_size=1, max_size=4))
    kind, lit = draw(st.sampled_from(table))
    first = lit.split("|")[0]
    member = {"lit": lit, "www": draw(st.sampled_from([lit, "www." + lit])), "sub": draw(st.sampled_from(["a." + lit, "a.b." + lit, "." + lit, "\xe9." + lit, "A." + lit])),
              "lazy": draw(st.sampled_from(["a." + lit, lit + "." + lit, "." + lit])), "cls": draw(st.sampled_from(["a." + lit, "a-1." + lit, "0." + lit])),
              "port": draw(st.sampled_from([lit, lit + ":80", lit + ":8080"])), "alt": draw(st.sampled_from(lit.split("|"))),
              "ci": draw(st.sampled_from([lit, lit.upper(), lit.lower(), lit.title()]))}[kind]
    lit = first
    mode = draw(st.sampled_from(["member", "member", "near", "near", "other", "absent"]))
    near = False
    if mode == "member":
        host = member
    elif mode == "near":
        near = True
        host = draw(
            st.sampled_from(
                [member + ".evil.com", "x" + member, member + "x", member.upper(), member + ":", member + ":80x", "evil.com/" + member, member + " ", " " + member,
                 member.replace(".", "x", 1), "www." + member, member + ":80:90", "wwwx" + lit, lit + ".", member + "\t",
                 "evil@" + member, member + "/", member + "/x", member + "?", member + "#", member + "\\", "http://" + member, "." + member, member + ":80",
                 member[:1] + "\xe9" + member[1:], member + "\xe9", "\xe9" + member, member.replace(".", "\xad.", 1), member + "\xa0", "a_b." + member, "A." + member,
                 member + ".au", member[:-1], member + "m"]
            )
        )
    elif mode == "other":
        host = draw(st.sampled_from(["", "evil.com", "example.org", "com", "example.com:abc", "[::1]", "127.0.0.1:80", "\xe9", "*"]))
    else:
        host = None
    case = {"table": table, "host": host, "near_miss": near}
    if draw(st.booleans()):
        # the server's own address is a member of the table: dispatch is on the Host header only, so a
        # request without (or with another) Host must not reach that entry through the server name
        case["server"] = member.split(":")[0]
        case["near_miss"] = case["near_miss"] or host in (None, "")
    if draw(st.integers(0, 3)) == 0:
        # other headers that name a host: they take no part in the dispatch
        names = draw(st.lists(st.sampled_from(OTHER_HOST_HEADERS), min_size=1, max_size=2, unique=True))
        case["extra"] = [_other(n, draw(st.sampled_from([member, member, "evil.com", lit]))) for n in names]
        case["host_pos"] = draw(st.integers(0, len(names)))
        case["near_miss"] = True
    if draw(st.integers(0, 7)) == 0:
        case["scope_type"] = "websocket"
    if draw(st.integers(0, 2)) == 0:
        # further requests to the same Hosts object: the member, other spellings of it, of the first value
        pool = [member, member, host] + junk_hosts(member) + ([host.upper(), host.lower(), host.title(), host + ":80", " " + host] if host else [])
        more = draw(st.lists(st.sampled_from(pool), min_size=1, max_size=2))
        order = draw(st.sampled_from(["after", "before", "around"]))
        case["seq"] = {"after": [host] + more, "before": more + [host], "around": [member] + more + [member]}[order]
        del case["host"]
        case["near_miss"] = True
    return case


def junk_hosts(member):
    return [member, member + ".evil.com", "x" + member, member + "x", member.upper(), member.title(), member + ":", member + ":80x", "evil.com/" + member, member + " ",
            " " + member, member.replace(".", "x", 1), "www." + member, member + ":80:90", member + ".", member + "\t", "evil@" + member, "evil:pw@" + member,
            member + "/", member + "/x", member + "?", member + "?x=1", member + "#", member + "\\", "http://" + member, "//" + member, "." + member, member + ":80",
            member + ":443", member + ":0", member + ":", member[:1] + "\xe9" + member[1:], member + "\xe9", "\xe9" + member, member.replace(".", "\xad.", 1),
            member + "\xa0", "a_b." + member, "A." + member, member + ".au", member[:-1], member + "m", member + "," + member, member + ", " + member, member + ";",
            member + "%", member.replace(".", "%2E", 1), member.replace(".", "..", 1), "*." + member, "*"]


def host_fixed_cases():
    for table in ([["lit", "example.com"]], [["port", "example.com"], ["lit", "other.org"]], [["sub", "example.com"]], [["alt", "a.example|b.example"]]):
        kind, lit = table[0]
        member = {"lit": lit, "port": lit, "sub": "a." + lit, "alt": lit.split("|")[0]}[kind]
        for host in (None, "", "evil.com", member, member.upper()):
            for server in ("testserver", member, "127.0.0.1"):
                yield {"table": table, "host": host, "near_miss": host in (None, ""), "server": server}
    # every kind of pattern x junk around / inside a member
    for kind, member in (("lit", "example.com"), ("www", "www.example.com"), ("sub", "a.example.com"), ("lazy", "a.example.com"), ("cls", "a-1.example.com"),
                         ("port", "example.com:8080"), ("alt", "x.y")):
        table = [[kind, "example.com|x.y" if kind == "alt" else "example.com"]]
        for host in junk_hosts(member):
            yield {"table": table, "host": host, "near_miss": True}
    # top-level alternations in which an earlier alternative is a prefix of a later one (and the other way round)
    for alts in ("example.com|example.com.au", "example.com.au|example.com", "a|ab|abc", "abc|ab|a", "example.co|example.com|example.com.au"):
        members = alts.split("|")
        for table in ([["alt", alts]], [["lit", "other.org"], ["alt", alts]], [["alt", alts], ["sub", "au"]]):
            for host in members + [m + "x" for m in members] + [m[:-1] for m in members] + [members[0] + members[-1]]:
                yield {"table": table, "host": host, "near_miss": True}
    # 8-bit Host values
    for table in ([["sub", "example.com"]], [["lit", "example.com"], ["lazy", "example.com"]], [["lit", "example.com"]], [["cls", "example.com"], ["port", "example.com"]]):
        for host in ("\xe9.example.com", "a.\xe9.example.com", "exam\xe9ple.com", "example.com\xe9", "\xe9example.com", "example\xad.com", "\xff", "example.com\xa0",
                     "a.example.com", "\xe9\xe9.example.com", "example.com:8\xb2", "\xc3\xa9.example.com", "a\x80.example.com", "a.example.com\x85"):
            yield {"table": table, "host": host, "near_miss": True}
    # other headers naming a host, before / after / instead of the Host header
    tables = ([["lit", "example.com"]], [["lit", "example.com"], ["lit", "internal.example"]], [["port", "internal.example"], ["sub", "example.com"]])
    for table in tables:
        for name in OTHER_HOST_HEADERS:
            for other in ("example.com", "internal.example", "evil.com"):
                for host in (None, "", "evil.com", "example.com", "internal.example"):
                    for pos in ((0,) if host is None else (0, 1)):
                        yield {"table": table, "host": host, "near_miss": True, "extra": [_other(name, other)], "host_pos": pos}
    # websocket handshakes
    for table in ([["lit", "example.com"]], [["port", "example.com"], ["lit", "other.org"]], [["sub", "example.com"], ["lit", "example.com"]]):
        for host in (None, "", "evil.com", "example.com", "a.example.com", "example.com:80", "other.org", "EXAMPLE.COM", "example.com.evil.com"):
            for server in ("testserver", "example.com"):
                yield {"table": table, "host": host, "near_miss": True, "server": server, "scope_type": "websocket"}


HOSTS_SEQ_TABLES = [
    [["lit", "example.com"], ["www", "example.com"], ["port", "example.com"]],
    [["port", "example.com"], ["sub", "example.com"], ["alt", "a.example.com|example.com|evil.com"]],
    [["cls", "example.com"], ["lazy", "example.com"], ["lit", "example.com"], ["sub", "com"]],
]
HOSTS_SEQ_VALUES = ["example.com", "www.example.com", "example.com:80", "a.example.com", "evil.com", None]


KIND_MEMBERS = [("lit", "example.com", "example.com"), ("www", "example.com", "www.example.com"), ("sub", "example.com", "a.example.com"),
                ("lazy", "example.com", "a.example.com"), ("cls", "example.com", "a-1.example.com"), ("port", "example.com", "example.com:8080"),
                ("port", "example.com", "example.com"), ("alt", "example.com|x.y", "x.y"), ("ci", "example.com", "example.com"), ("ci", "example.com", "Example.COM"),
                ("lit", "CDN.example.com", "CDN.example.com")]
CASE_TABLES = [
    [["lit", "CDN.example.com"], ["ci", "cdn.example.com"]],
    [["ci", "cdn.example.com"], ["lit", "CDN.example.com"]],
    [["lit", "cdn.example.com"], ["lit", "CDN.EXAMPLE.COM"], ["lit", "Cdn.Example.Com"]],
    [["lit", "cdn.example.com"], ["ci", "cdn.example.com"], ["sub", "example.com"]],
    [["sub", "EXAMPLE.com"], ["ci", "cdn.example.com"], ["sub", "example.com"]],
    [["port", "cdn.example.com"], ["ci", "cdn.example.com:80"], ["lit", "CDN.EXAMPLE.COM"]],
]
CASE_VALUES = ["cdn.example.com", "CDN.example.com", "CDN.EXAMPLE.COM", "Cdn.Example.Com", "cdn.example.com:80", "CDN.EXAMPLE.COM:80", "evil.com"]


def hosts_seq_cases():
    for table in HOSTS_SEQ_TABLES:
        for n in (2, 3):
            for combo in itertools.product(HOSTS_SEQ_VALUES, repeat=n):
                if len(set(combo)) < 2:
                    continue
                yield {"table": table, "seq": list(combo)}
    # every pattern kind: a member, then (or after, or around) every near-miss of it, on one Hosts object; each answer is judged on its own
    for kind, lit, member in KIND_MEMBERS:
        for table in ([[kind, lit]], [[kind, lit], ["lit", "other.org"]], [["lit", "other.org"], [kind, lit]]):
            for j in junk_hosts(member)[1:] + [None, ""]:
                for combo in ((member, j), (j, member), (member, j, member)):
                    yield {"table": table, "seq": list(combo), "near_miss": True}
    # entries that differ in letter case only / accept every letter case, x Host values that differ in letter case only
    for table in CASE_TABLES:
        for n in (2, 3):
            for combo in itertools.product(CASE_VALUES, repeat=n):
                if len(set(combo)) < 2:
                    continue
                yield {"table": table, "seq": list(combo), "near_miss": True}


# Patterns whose meaning depends on being compiled on their own: group numbers and names, references back to them, conditions on
# them, flags that hold for the whole pattern, look-around, quantifiers that do not give back.  name -> domain -> (pattern, Host values
# meant to be in its language, Host values meant to be just outside).  The intent only steers the generator: the oracle asks
# re.fullmatch about each entry's own pattern (rx_selfcheck verifies the intent once, so that matches and near-misses are both frequent).
RX_DOMAINS = ["example.com", "api.example.com", "a-b.org"]


@functools.lru_cache(maxsize=None)
def _rx_families(d):
    e = re.escape(d)
    D = d.upper()
    verbose = r" \. ".join(re.escape(x) for x in d.split("."))
    return {
        # numbered back-references
        "backref": (rf"(eu|us)\.api\.\1\.{e}", [f"eu.api.eu.{d}", f"us.api.us.{d}"], [f"eu.api.us.{d}", f"eu.api..{d}", f"eu.api.eu.{d}x", f"api.eu.{d}", f"eu.api.\\1.{d}"]),
        "backref-rep": (rf"([a-z0-9]+)-\1\.{e}", [f"ab-ab.{d}", f"7-7.{d}"], [f"ab-ba.{d}", f"ab-abab.{d}", f"ab-.{d}", f"AB-AB.{d}"]),
        "backref-two": (rf"(a|b)(\d)\.\2\1\.{e}", [f"a1.1a.{d}", f"b0.0b.{d}"], [f"a1.a1.{d}", f"a1.1b.{d}", f"a1.2a.{d}", f"a1.1a.{d}."]),
        "backref-lazy": (rf"(.+?)\.\1\.{e}", [f"x.x.{d}", f"a.b.a.b.{d}"], [f"x.y.{d}", f"x.x.x.{d}", f"x.{d}"]),
        "backref-alt": (rf"(a)\1\.{e}|(b)\2\.{e}", [f"aa.{d}", f"bb.{d}"], [f"ab.{d}", f"a.{d}", f"aabb.{d}"]),
        "backref-opt": (rf"(?:(\d+)\.)?{e}(?::\1)?", [d, f"80.{d}:80", f"80.{d}"], [f"80.{d}:81", f"{d}:80", f".{d}"]),
        # named groups; the same names are used by several families, so tables repeat them
        "named": (rf"(?P<sub>[a-z0-9-]+)\.{e}", [f"a.{d}", f"a-1.{d}"], [f"A.{d}", f".{d}", f"a.b.{d}", f"a_b.{d}"]),
        "named-port": (rf"(?P<host>{e})(?P<port>:\d+)?", [d, f"{d}:80"], [f"{d}:", f"{d}:80x", f"x{d}"]),
        "named-backref": (rf"(?P<sub>[a-z]+)\.(?P=sub)\.{e}", [f"ab.ab.{d}", f"x.x.{d}"], [f"ab.ba.{d}", f"ab.{d}", f"ab.abab.{d}"]),
        "named-numbered": (rf"(?P<sub>[a-z]+)-(\d)\.\2\.\1\.{e}", [f"ab-1.1.ab.{d}"], [f"ab-1.ab.1.{d}", f"ab-1.1.ba.{d}", f"ab-1.2.ab.{d}"]),
        "named-two": (rf"(?P<sub>[a-z]+)\.(?P<port>[a-z]+)\.(?P=sub)\.{e}", [f"a.b.a.{d}"], [f"a.b.b.{d}", f"a.b.{d}"]),
        # conditional groups
        "cond": (rf"(www\.)?{e}(?(1)|:\d+)", [f"www.{d}", f"{d}:80"], [d, f"www.{d}:80", f"www.{d}:"]),
        "cond-named": (rf"(?P<sub>www\.)?{e}(?(sub):\d+|)", [f"www.{d}:8080", d], [f"www.{d}", f"{d}:80"]),
        "cond-bracket": (rf"(\[)?{e}(?(1)\])(:\d+)?", [d, f"[{d}]", f"[{d}]:80", f"{d}:80"], [f"[{d}", f"{d}]", f"[{d}:80]"]),
        "cond-second": (rf"(a)?(b)?\.{e}(?(2):\d+)", [f"ab.{d}:1", f"a.{d}", f".{d}", f"b.{d}:22"], [f"ab.{d}", f"b.{d}", f"a.{d}:1"]),
        # flags for the whole pattern
        "flag-i": (rf"(?i){e}", [D, d.title(), d], [D + "x", "x" + D, D + "."]),
        "flag-i-group": (rf"(?i)(www\.)?{e}(:\d+)?", [f"WWW.{D}", f"{D}:80", d], [f"WWW.{D}:", f"WW.{D}"]),
        "flag-x": (rf"(?x) {verbose}  # {d}", [d], [d.replace(".", " . "), d + " ", f"{d}  # {d}", " " + d]),
        "flag-x-group": (rf"(?x) ( www \. )? {verbose} ( : \d+ )?", [d, f"www.{d}", f"www.{d}:80"], [f"www . {d}", f"www.{d} :80"]),
        "flag-s": (rf"(?s).+\.{e}", [f"a.{d}", f"a.b.{d}"], [d, "." + d, f"a.{d}."]),
        "flag-a": (rf"(?a)\w+\.{e}", [f"a.{d}", f"a_1.{d}"], [f"\xe9.{d}", f"a\xb5.{d}", f"a-b.{d}"]),
        "flag-ix": (rf"(?ix) (?P<sub>[a-z]+) \. {verbose}", [f"A.{D}", f"cdn.{d}"], [f"A1.{D}", f"A .{D}"]),
        "flag-scoped": (rf"(?i:www\.)?{e}", [f"WWW.{d}", f"www.{d}", d], [f"WWW.{D}", D]),
        "flag-scoped-off": (rf"(?i)[a-z]+\.(?-i:{e})", [f"CDN.{d}", f"cdn.{d}"], [f"CDN.{D}", f"cdn.{D}"]),
        # nested groups
        "nested": (rf"((?:[a-z0-9]+-)*([a-z0-9]+))\.\2\.{e}", [f"a-b.b.{d}", f"x.x.{d}"], [f"a-b.a.{d}", f"a-b.a-b.{d}"]),
        "nested-rep": (rf"(([a-z])\2)+\.{e}", [f"aa.{d}", f"aabb.{d}"], [f"ab.{d}", f"aab.{d}", f".{d}"]),
        "nested-outer": (rf"((a)|(b))\1\.{e}", [f"aa.{d}", f"bb.{d}"], [f"ab.{d}", f"a.{d}"]),
        # look-ahead and look-behind
        "ahead-not": (rf"(?!www\.)[a-z0-9.-]+\.{e}", [f"a.{d}", f"ww.{d}", f"wwww.{d}"], [f"www.{d}", f"www.a.{d}"]),
        "ahead-len": (rf"(?=.{{1,{len(d) + 4}}}$).*\.{e}", [f"a.{d}", f"abc.{d}"], [f"abcdef.{d}", d]),
        "ahead-group": (rf"(?=([a-z]+))\1\.{e}", [f"abc.{d}"], [f"abc1.{d}", f".{d}"]),
        "behind-not": (rf"[a-z0-9-]+(?<!-)\.{e}", [f"a.{d}", f"a-b.{d}"], [f"a-.{d}", f"-.{d}"]),
        "behind": (rf".*(?<=\.){e}", [f"a.{d}", f".{d}"], [d, f"x{d}"]),
        # quantifiers that do not give back, lazy quantifiers
        "possessive": (rf"[a-z]++\.{e}", [f"abc.{d}"], [f"abc1.{d}", f".{d}"]),
        "possessive-never": (rf"[a-z]*+z\.{e}", [], [f"az.{d}", f"z.{d}"]),
        "atomic": (rf"(?>www|w)w?\.{e}", [f"www.{d}", f"ww.{d}", f"wwww.{d}", f"w.{d}"], [f"wwwww.{d}", f".{d}"]),
        "atomic-group": (rf"(?>(a|ab))(c)\.{e}", [f"ac.{d}"], [f"abc.{d}", f"a.{d}"]),
        "lazy-group": (rf"(.*?)(\.?){e}", [d, f"a.{d}", f"x{d}"], [f"{d}x", f"a.{d}."]),
        # patterns without any of this, for tables that mix both kinds
        "plain": (e, [d], [d + "x", "x" + d, D]),
        "plain-sub": (rf".*\.{e}", [f"a.{d}", f"eu.api.eu.{d}"], [d, f"a.{d}x"]),
        "plain-any": (r".*", [d, "evil.com", ""], []),
    }


RX_NAMES = list(_rx_families("x.y"))
RX_OTHER = ["", "evil.com", "example.org", "EXAMPLE.COM", "[::1]", "\xe9", "*", "a.example.com.evil.com"]


def rx_selfcheck():
    """The catalogue says what it means to say: every pattern is valid on its own, accepts its members and rejects its near-misses."""
    for d in RX_DOMAINS:
        for name, (pattern, members, nears) in _rx_families(d).items():
            try:
                c = re.compile(pattern)
            except re.error as exc:
                raise core.HarnessError(f"catalogue pattern {name} {pattern!r}: {exc!r}")
            bad = [m for m in members if c.fullmatch(m) is None] + [x for x in nears if c.fullmatch(x) is not None]
            if bad:
                raise core.HarnessError(f"catalogue pattern {name} {pattern!r}: members / near-misses are not what they are meant to be: {bad!r}")


def _rx_hosts(picks, wide=False):
    out = []
    for name, d in picks:
        _, members, nears = _rx_families(d)[name]
        out += members + (nears if wide else nears[:2])
    return list(dict.fromkeys(out))


def hosts_rx_grid_cases(full=False):
    """every ordered pair of catalogue patterns over one domain (thorough: also over two domains, and with a third entry) x the members
    and near-misses of both; every single pattern x all its members and near-misses"""
    for d in RX_DOMAINS if full else RX_DOMAINS[:1]:
        for a in RX_NAMES:
            pa = _rx_families(d)[a][0]
            for host in _rx_hosts([(a, d)], wide=True) + RX_OTHER + [None]:
                yield {"table": [["rx", pa]], "host": host, "families": [a]}
            for b in RX_NAMES:
                for d2 in RX_DOMAINS if full else (d,):
                    pb = _rx_families(d2)[b][0]
                    for host in _rx_hosts([(a, d), (b, d2)]):
                        yield {"table": [["rx", pa], ["rx", pb]], "host": host, "families": [a, b]}
    # a plain first entry, then two entries with groups (the member of the last one is what is asked for), optionally a catch-all
    d, d2 = RX_DOMAINS[0], RX_DOMAINS[1]
    for a in RX_NAMES:
        for b in RX_NAMES if full else RX_NAMES[::3]:
            table = [["lit", "static." + d], ["rx", _rx_families(d2)[a][0]], ["rx", _rx_families(d)[b][0]]]
            for tail in ([], [["rx", ".*"]]):
                for host in _rx_hosts([(b, d)]) + _rx_hosts([(a, d2)])[:1]:
                    yield {"table": table + tail, "host": host, "families": [a, b]}


@st.composite
def host_rx_case(draw):
    """1..4 entries: catalogue patterns over few domains (so languages overlap and names repeat), sometimes an entry of the constructive
    family; Host = a member / near-miss of one of the entries, of a catalogue pattern that is not in the table, or an unrelated value;
    sometimes 1..2 further requests to the same Hosts object"""
    n = draw(st.integers(1, 4))
    picks, table = [], []
    for _ in range(n):
        if draw(st.integers(0, 7)) == 0:
            kind = draw(st.sampled_from(["lit", "www", "sub", "port", "cls", "ci"]))
            table.append([kind, draw(st.sampled_from(RX_DOMAINS))])
        else:
            pick = (draw(st.sampled_from(RX_NAMES)), draw(st.sampled_from(RX_DOMAINS)))
            picks.append(pick)
            table.append(["rx", _rx_families(pick[1])[pick[0]][0]])
    if not picks:
        pick = (draw(st.sampled_from(RX_NAMES)), draw(st.sampled_from(RX_DOMAINS)))
        picks.append(pick)
        table.append(["rx", _rx_families(pick[1])[pick[0]][0]])
    # the entry asked for: later entries more often than the first; its members more often than its near-misses
    target = draw(st.sampled_from(picks + picks[1:] + picks[-1:]))
    _, members, nears = _rx_families(target[1])[target[0]]
    foreign = st.tuples(st.sampled_from(RX_NAMES), st.sampled_from(RX_DOMAINS)).map(lambda p: _rx_hosts([p], wide=True) or [p[1]]).flatmap(st.sampled_from)
    anywhere = st.sampled_from(_rx_hosts(picks, wide=True) or RX_OTHER)
    by_mode = [st.sampled_from(members) if members else anywhere] * 5 + [st.sampled_from(nears) if nears else anywhere] * 2 + [
        anywhere, foreign, st.sampled_from(RX_OTHER + [None])]
    value = st.integers(0, 9).flatmap(lambda m: by_mode[m])
    case = {"table": table, "families": [p[0] for p in picks]}
    if draw(st.integers(0, 3)) == 0:
        case["seq"] = draw(st.lists(value, min_size=2, max_size=3))
    else:
        case["host"] = draw(value)
    if draw(st.integers(0, 9)) == 0:
        case["scope_type"] = "websocket"
    return case


def run(rec, only=None):
    quick = rec.tier == "quick"
    procs = min(8, core.ncpu())

    def want(sub):
        return only is None or sub in only

    for sub in ("mount_grid", "mount_special", "mount_bytes", "mount_seq", "mount_ws"):
        if want(sub):
            core.run_sharded(rec, enum_shard, 8 if quick else 16, procs if quick else core.ncpu(), (sub, not quick))
            rec.exhaustive[sub] = True
    core.drive_hypothesis(rec, "mounts", mount_case(), oracle_mounts, 1500 if quick else 30000)
    core.drive_hypothesis(rec, "mount_seqs", mount_seq_case(), oracle_mount_seq, 400 if quick else 8000, seed_offset=2)
    if want("mount_seqs"):
        rec.exhaustive["mount_seqs"] = False
    core.drive_cases(rec, "hosts_fixed", host_fixed_cases(), oracle_hosts)
    if want("hosts_seq"):
        core.run_sharded(rec, enum_shard, 8, procs, ("hosts_seq", not quick))
        rec.exhaustive["hosts_seq"] = True
    core.drive_hypothesis(rec, "hosts", host_case(), oracle_hosts, 1500 if quick else 30000, seed_offset=1)
    if want("hosts_rx") or want("hosts_rx_grid"):
        rx_selfcheck()
    if want("hosts_rx_grid"):
        core.run_sharded(rec, enum_shard, 8, procs, ("hosts_rx_grid", not quick))
        rec.exhaustive["hosts_rx_grid"] = True
    core.drive_hypothesis(rec, "hosts_rx", host_rx_case(), oracle_hosts, 1000 if quick else 20000, seed_offset=3)
    if want("hosts_rx"):
        rec.exhaustive["hosts_rx"] = False
    if want("hosts_fixed"):
        rec.exhaustive["hosts_fixed"] = True
    if want("mounts"):
        rec.exhaustive["mounts"] = False
    if want("hosts"):
        rec.exhaustive["hosts"] = False
