"""C09 - Mounting preserves the full path and dispatches on segment boundaries."""
from __future__ import annotations

import copy
import itertools
import re

from hypothesis import strategies as st

import baize.asgi as A
import baize.wsgi as W

from harness import core, gateways as gw
from harness.core import Result

LEVEL = "exploration"
RULES = {
    "mounts": "Hypothesis: mount tables of 1..5 entries over prefixes that are prefixes of each other ('', /a, /a/b, /ab, /api, /apix, "
    "/é, /a.b), the default '' entry at any position, nesting depth <= 3, x paths ('', '/', prefix, prefix+'/', prefix+'x', "
    "prefix+'/x/y', unrelated, Unicode) x initial root path; both interfaces; non-trivial = two entries whose prefixes are prefixes "
    "of each other are both candidates, or nesting >= 2",
    "mount_grid": "exhaustive: all ordered tables of <= 3 entries over 5 prefixes x 14 paths x 2 root paths (depth 1), both interfaces",
    "hosts_fixed": "enumerated: four small tables x Host absent / empty / foreign / member / upper-cased member x server address foreign / equal to a member / numeric",
    "hosts": "Hypothesis: host tables of 1..4 patterns from a constructive family (escaped literal, optional www., wildcard "
    "subdomain, optional port, top-level alternation of literals) so that membership is decided by construction, x Host values (members, members with prefix/suffix "
    "junk, ports, upper-case, empty, absent); non-trivial = a near-miss host (junk around a member)",
}
ASSUMPTIONS = [
    "the WSGI environ carries paths in the PEP 3333 bytes-as-Latin-1 form; they are compared after decoding as UTF-8",
    "host patterns come from a constructive family whose language is computed without the re module",
]

PREFIXES = ["", "/a", "/a/b", "/ab", "/api", "/apix", "/é", "/a.b"]


def ref_search(table, path):
    for i, (prefix, _) in enumerate(table):
        if path == prefix or path.startswith(prefix + "/"):
            return i
    return None


def expected(table, root, path, trail=()):
    """-> ('leaf', label, root_seen, path_seen) | ('404', level root/path)"""
    i = ref_search(table, path)
    if i is None:
        return ("404", root, path, trail)
    prefix, sub = table[i]
    nroot, npath = root + prefix, path[len(prefix):]
    if isinstance(sub, list):
        return expected(sub, nroot, npath, trail + (i,))
    return ("leaf", sub, nroot, npath, trail + (i,))


def _dec(s):
    try:
        return s.encode("latin-1").decode("utf-8")
    except UnicodeError:
        return s


def build(table, side, seen):
    M = W if side == "wsgi" else A
    entries = []
    for prefix, sub in table:
        if isinstance(sub, list):
            app = build(sub, side, seen)
        elif side == "wsgi":

            def app(environ, start_response, _label=sub):
                seen.append((_label, _dec(environ.get("SCRIPT_NAME", "")), _dec(environ.get("PATH_INFO", ""))))
                start_response("200 OK", [("content-type", "text/plain")])
                return [str(_label).encode()]

        else:

            async def app(scope, receive, send, _label=sub):
                seen.append((_label, scope.get("root_path", ""), scope["path"]))
                await send({"type": "http.response.start", "status": 200, "headers": [(b"content-type", b"text/plain")]})
                await send({"type": "http.response.body", "body": str(_label).encode()})

        entries.append((prefix, app))
    return M.Subpaths(*entries)


def snapshot(mapping):
    out = {}
    for k, v in mapping.items():
        if isinstance(v, (str, bytes, int, float, bool, type(None), tuple)):
            out[k] = v
        elif isinstance(v, (list, dict)):
            out[k] = copy.deepcopy(v)
        else:
            out[k] = ("id", id(v))
    return out


def oracle_mounts(case) -> Result:
    r = Result()
    table, root, path = case["table"], case["root"], case["path"]
    exp = expected(table, root, path)
    ctx = f"table {table!r} root {root!r} path {path!r}"
    for side in ("wsgi", "asgi"):
        seen = []
        app = build(table, side, seen)
        rq = gw.areq(path=path, root_path=root)
        if side == "wsgi":
            env = gw.make_environ(rq)
            before = snapshot(env)
            run = gw.run_wsgi(app, env)
            after = snapshot(env)
        else:
            scope = gw.make_scope(rq)
            before = snapshot(scope)
            run = gw.run_sync(gw.run_asgi(app, scope))
            after = snapshot(scope)
        if run.exc is not None:
            r.fail(f"C09:{side}:raised:{type(run.exc).__name__}", f"{ctx}: {run.exc!r}")
            continue
        if exp[0] == "404":
            if run.status_code != 404 or seen:
                r.fail(f"C09:{side}:no-entry-but-dispatched", f"{ctx}: expected 404 at level {exp[3]!r}, got status {run.status_code}, sub-apps ran {seen!r}")
            elif not exp[3] and before != after:
                changed = {k: (before.get(k), after.get(k)) for k in set(before) | set(after) if before.get(k) != after.get(k)}
                r.fail(f"C09:{side}:request-touched-on-404", f"{ctx}: request mapping changed although no entry matched: {changed!r}")
            continue
        _, label, eroot, epath, trail = exp
        if len(seen) != 1:
            r.fail(f"C09:{side}:dispatch-count", f"{ctx}: expected leaf {label!r} via {trail!r}, sub-apps ran {seen!r}, status {run.status_code}")
            continue
        glabel, groot, gpath = seen[0]
        if glabel != label:
            r.fail(f"C09:{side}:wrong-entry", f"{ctx}: entry {glabel!r} ran, the first matching entry is {label!r} (via {trail!r})")
            continue
        if gpath != epath:
            r.fail(f"C09:{side}:path-seen", f"{ctx}: sub-application saw path {gpath!r}, expected {epath!r}")
        if groot != eroot:
            r.fail(f"C09:{side}:root-seen", f"{ctx}: sub-application saw root path {groot!r}, expected {eroot!r}")
        if groot + gpath != root + path:
            r.fail(f"C09:{side}:full-path-changed", f"{ctx}: root+path seen {groot + gpath!r}, request had {root + path!r}")
    cands = [p for p, _ in table if path == p or path.startswith(p + "/")]
    depth = len(exp[-1]) if exp[0] == "leaf" else len(exp[3]) + 1
    r.nontrivial = len(cands) >= 2 or depth >= 2
    r.label(f"outcome={exp[0]}", f"depth={depth}", f"candidates={min(len(cands), 3)}")
    r.key = (repr(table), root, path)
    return r


# ------------------------------------------------------------------------------------------
# hosts


def host_language(pat, host):
    kind, lit = pat
    if kind == "lit":
        return host == lit
    if kind == "www":
        return host in (lit, "www." + lit)
    if kind == "sub":
        return host.endswith("." + lit) and "\n" not in host
    if kind == "alt":
        return host in lit.split("|")
    if kind == "port":
        if host == lit:
            return True
        if host.startswith(lit + ":"):
            rest = host[len(lit) + 1:]
            return rest != "" and rest.isdecimal()
        return False
    raise core.HarnessError(kind)


def host_regex(pat):
    kind, lit = pat
    if kind == "alt":  # top-level alternation of escaped literals
        return "|".join(re.escape(x) for x in lit.split("|"))
    e = re.escape(lit)
    return {"lit": e, "www": r"(www\.)?" + e, "sub": r".*\." + e, "port": e + r"(:\d+)?"}[kind]


def oracle_hosts(case) -> Result:
    r = Result()
    table, host = case["table"], case["host"]
    exp = None
    for i, pat in enumerate(table):
        if host_language(pat, host if host is not None else ""):
            exp = i
            break
    ctx = f"patterns {[host_regex(p) for p in table]!r} Host {host!r} server {case.get('server', 'testserver')!r}"
    for side in ("wsgi", "asgi"):
        seen = []
        M = W if side == "wsgi" else A
        entries = []
        for i, pat in enumerate(table):
            if side == "wsgi":

                def app(environ, start_response, _i=i):
                    seen.append(_i)
                    start_response("200 OK", [])
                    return [b"ok"]

            else:

                async def app(scope, receive, send, _i=i):
                    seen.append(_i)
                    await send({"type": "http.response.start", "status": 200, "headers": []})
                    await send({"type": "http.response.body", "body": b"ok"})

            entries.append((host_regex(pat), app))
        hosts = M.Hosts(*entries)
        rq = gw.areq(headers=[["Host", host]] if host is not None else [], server=[case.get("server", "testserver"), 80])
        run = gw.call_wsgi(hosts, rq) if side == "wsgi" else gw.call_asgi(hosts, rq)
        if run.exc is not None:
            r.fail(f"C09:{side}:hosts-raised:{type(run.exc).__name__}", f"{ctx}: {run.exc!r}")
            continue
        if exp is None:
            if run.status_code != 404 or seen:
                r.fail(f"C09:{side}:host-not-in-any-language-but-dispatched", f"{ctx}: status {run.status_code}, entries ran {seen!r}")
        elif seen != [exp]:
            r.fail(f"C09:{side}:host-wrong-entry", f"{ctx}: entries ran {seen!r} (status {run.status_code}), expected entry #{exp}")
    r.nontrivial = bool(case.get("near_miss"))
    r.label("match" if exp is not None else "no-match", "near-miss" if case.get("near_miss") else "plain", "host-absent" if host is None else "host-present")
    return r


SUBS = {"mounts": oracle_mounts, "mount_grid": oracle_mounts, "hosts": oracle_hosts, "hosts_fixed": oracle_hosts}

# ------------------------------------------------------------------------------------------


@st.composite
def tables(draw, depth=1):
    n = draw(st.integers(1, 5))
    prefixes = draw(st.lists(st.sampled_from(PREFIXES), min_size=n, max_size=n))
    table = []
    for i, p in enumerate(prefixes):
        if depth < 3 and draw(st.integers(0, 3)) == 0:
            table.append([p, draw(tables(depth + 1))])
        else:
            table.append([p, f"L{depth}.{i}"])
    return table


def _all_prefixes(table, acc=""):
    out = []
    for p, sub in table:
        out.append(acc + p)
        if isinstance(sub, list):
            out.extend(_all_prefixes(sub, acc + p))
    return out


@st.composite
def mount_case(draw):
    table = draw(tables())
    base = draw(st.sampled_from(_all_prefixes(table) + PREFIXES))
    tail = draw(st.sampled_from(["", "/", "x", "/x/y", "/x", "//", "/a", "/a/b", "/é", ".b", "/b", "b", "\n", "\r", "\n/x", "/\n", " ", "%", "?", "\x00", "\u2028", "\x0b"]))
    path = draw(st.one_of(st.just(base + tail), st.sampled_from(["", "/", "/zzz", "/abc", "/apixy", "/a.bc", "/ax/b", "nothing", "/éa"])))
    return {"table": table, "root": draw(st.sampled_from(["", "", "/root", "/é"])), "path": path}


def grid_shard(rec, k, nshards):
    g = core.guarded(oracle_mounts)
    prefixes = ["", "/a", "/a/b", "/ab", "/é"]
    paths = ["", "/", "/a", "/a/", "/ab", "/a/b", "/a/b/", "/a/bc", "/abc", "/ab/c", "/a/b/c/d", "/é", "/é/x", "/zzz", "/a\n", "\n", "/a/b\n", "/a\n/b", "/a\r", "/ab\n"]
    i = 0
    for n in (1, 2, 3):
        for combo in itertools.product(prefixes, repeat=n):
            table = [[p, f"e{j}"] for j, p in enumerate(combo)]
            for path in paths:
                for root in ("", "/root"):
                    i += 1
                    if i % nshards != k:
                        continue
                    case = {"table": table, "root": root, "path": path}
                    res = g(case)
                    rec.count("mount_grid", case, res)
                    new, old = rec.split(res)
                    rec.note_known(old)
                    for f in new:
                        rec.add_violation("mount_grid", f, case)
                        rec.skip.add(f.bucket)


LITS = ["example.com", "api.example.com", "localhost", "a-b.org", "x.y"]


@st.composite
def host_case(draw):
    entry = st.one_of(
        st.tuples(st.sampled_from(["lit", "www", "sub", "port"]), st.sampled_from(LITS)),
        st.tuples(st.just("alt"), st.lists(st.sampled_from(LITS), min_size=2, max_size=3, unique=True).map("|".join)),
    ).map(list)
    table = draw(st.lists(entry, min_size=1, max_size=4))
    kind, lit = draw(st.sampled_from(table))
    first = lit.split("|")[0]
    member = {"lit": lit, "www": draw(st.sampled_from([lit, "www." + lit])), "sub": draw(st.sampled_from(["a." + lit, "a.b." + lit, "." + lit])),
              "port": draw(st.sampled_from([lit, lit + ":80", lit + ":8080"])), "alt": draw(st.sampled_from(lit.split("|")))}[kind]
    lit = first
    mode = draw(st.sampled_from(["member", "member", "near", "near", "other", "absent"]))
    near = False
    if mode == "member":
        host = member
    elif mode == "near":
        near = True
        host = draw(
            st.sampled_from(
                [member + ".evil.com", "x" + member, member + "x", member.upper(), member + ":", member + ":80x", "evil.com/" + member, member + " ", " " + member,
                 member.replace(".", "x", 1), "www." + member, member + ":80:90", "wwwx" + lit, lit + ".", member + "\t"]
            )
        )
    elif mode == "other":
        host = draw(st.sampled_from(["", "evil.com", "example.org", "com", "example.com:abc", "[::1]", "127.0.0.1:80"]))
    else:
        host = None
    case = {"table": table, "host": host, "near_miss": near}
    if draw(st.booleans()):
        # the server's own address is a member of the table: dispatch is on the Host header only, so a
        # request without (or with another) Host must not reach that entry through the server name
        case["server"] = member.split(":")[0]
        case["near_miss"] = case["near_miss"] or host in (None, "")
    return case


def host_fixed_cases():
    for table in ([["lit", "example.com"]], [["port", "example.com"], ["lit", "other.org"]], [["sub", "example.com"]], [["alt", "a.example|b.example"]]):
        kind, lit = table[0]
        member = {"lit": lit, "port": lit, "sub": "a." + lit, "alt": lit.split("|")[0]}[kind]
        for host in (None, "", "evil.com", member, member.upper()):
            for server in ("testserver", member, "127.0.0.1"):
                yield {"table": table, "host": host, "near_miss": host in (None, ""), "server": server}


def run(rec, only=None):
    quick = rec.tier == "quick"
    core.run_sharded(rec, grid_shard, 8, min(8, core.ncpu()), ())
    rec.exhaustive["mount_grid"] = True
    core.drive_hypothesis(rec, "mounts", mount_case(), oracle_mounts, 1500 if quick else 30000)
    core.drive_cases(rec, "hosts_fixed", host_fixed_cases(), oracle_hosts)
    rec.exhaustive["hosts_fixed"] = True
    core.drive_hypothesis(rec, "hosts", host_case(), oracle_hosts, 1500 if quick else 30000, seed_offset=1)
    rec.exhaustive["mounts"] = rec.exhaustive["hosts"] = False
