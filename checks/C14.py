"""C14 - Conditional requests never yield a stale 304 and always revalidate a fresh copy."""
from __future__ import annotations

import importlib
import os
import random
import sys
import time
from email.utils import formatdate

from hypothesis import strategies as st

import baize.asgi as A
import baize.wsgi as W

from harness import core, gateways as gw, tmpfiles, vfs
from harness.core import Result

LEVEL = "exploration"
RULES = {
    "histories": "Hypothesis: histories of up to 14 operations over a virtual file clock (wrapped os.stat): advance clock by {0, 0.3, 1, 2, "
    "3600} s; rewrite same size; rewrite other size; touch; restore an older mtime with new content (ctime = now); plain request; "
    "request with the validators of an earlier response in the forms {ETag, W/ETag, ETag as first/middle/last member of a list with "
    "foreign tags, W/ member inside a list, '*', Last-Modified, ETag + Last-Modified}; 1..2 files; Files and Pages; both interfaces; "
    "non-trivial = a validator request that follows a modification of the same file, or a list/weak validator form",
    "grid": "exhaustive: every (modification kind or none) x (clock advance before it) x (validator form) x Files/Pages x WSGI/ASGI as a 3-step history; for the date and tag validators also with the file clock starting exactly on, and just before, a whole second",
    "grid2": "enumerated short histories over the dimensions the first grid holds fixed: (A) ONE application instance serving the whole history "
    "(request - revalidation - modification - revalidation - plain request - revalidation of the second response), also through the extension-less "
    "Pages URL; (B) further validator forms: the tag behind 40 other list members, horizontal tabs as list white space, empty list members, weak "
    "members without blanks, weak tag + date, list + date, '*' + date, the date header in front of the tag header; (C) HEAD for the remembered "
    "response and/or the revalidation; (D) the file deleted (no 304 for any form, '*' included) and re-created; (E) files in sub-directories, "
    "directory URLs served from index.html and extension-less URLs of Pages; (F) every cacheability x max_age 0/600, with and without handle_404; "
    "(G) rewrites that shrink the file by one byte k seconds later, truncation to zero bytes, access-time bumps; (H) chains - the validators of "
    "the 200 that answered a conditional request are replayed in turn; (I) unrelated request headers around the validators; (J) the remembered "
    "response taken after the file's mtime was set back / the file was touched / read, so that atime, mtime and ctime already differ; (K) the "
    "date validator in process time zones with daylight-saving rules (northern, southern, European) in their winter and summer, after a leap "
    "day, after 2038; (L) two files with equal time stamps served and revalidated alternately by one instance while one of them is modified; (M) the "
    "If-None-Match list spread over 2 and 3 header lines (separate pairs on ASGI, joined with ', ' by the WSGI server model): the file's tag - "
    "strong, weak, inside a comma list - on the first / middle / last line, foreign and near-miss tags on the others, If-Modified-Since in "
    "front of / between / behind the lines; only near-miss tags on three lines (200 required)",
    "histories2": "Hypothesis: histories as in `histories` with all of the above drawn freely: one application instance or a fresh one per request, "
    "constructor options, flat or nested layout with pretty URLs, GET/HEAD, delete / shrink / truncate / access operations, all 20 validator "
    "forms and the 20 multi-line forms of grid2 (M) (`histories` draws the multi-line forms as well), unrelated headers, and the 200 answers "
    "to conditional requests remembered as further responses j; the directory of the application given as absolute path / os.PathLike / relative "
    "path / relative path inside an importable package (`package=`; the package is created by the harness below a scratch directory that is on "
    "sys.path only while the application is constructed)",
    "tagsearch": "structured search for two DIFFERENT versions (mtime, size) of a file that get ONE entity tag, judged by real histories only. Candidate "
    "finder: the response classes' generate_etag is called on synthetic stat results (real os.stat_result objects) for product families of versions - "
    "(1) a window of consecutive whole-second mtimes x all sizes 0..N, at the fixed clock origin and at an origin derived from VERIF_SEED; (2) mtimes "
    "origin + k*10^j (j = 0..7, k = 0..99) x sizes around the powers of ten and of two; (3) sub-second mtimes (k/1000, k/8, .1 .25 .3 .5 .75 .999 past "
    "a second, as the float the virtual clock hands out; the tag is fed from its str()) x small sizes; (4) seeded mtimes with 7-digit fractions; (5) "
    "digit neighbours of a base version: one or two decimal digits of mtime / size changed by +-1, +-2, +-9, three by +1,-2,+1, adjacent digits swapped - "
    "and grouped by tag in one dict across the families (about 6*10^5 versions in the quick tier). For each candidate pair (at most 8, spread over time-only / size-only / both) and for a few seeded control pairs of neighbouring "
    "versions the REAL history is run through one long-lived Files and Pages instance on both interfaces on the virtual file clock: write version A, "
    "GET, revalidate, rewrite to version B, send A's validators (ETag, weak, in a list, ETag + date), GET, revalidate; also B -> A. The verdict is the "
    "ordinary oracle's. Evidence: coverage.tagsearch = versions examined, candidate pairs, histories run; label finder=agrees when the real ETag equals "
    "the finder's tag for that version",
}
ASSUMPTIONS = [
    "undetectable class: same size and identical mtime - a 304 is tolerated there; for Last-Modified-only validators any change whose "
    "change time stays within one second of the remembered Last-Modified is undetectable by construction of the mechanism",
    "Last-Modified-only revalidation of an unchanged file may be 304 or 200",
    "timestamps are virtual (os.stat wrapped before baize is imported); sizes and contents are real files",
    "a HEAD request is a request: it revalidates like GET (304 for an unchanged file) and hands out the same validators; its body is not judged here",
    "tagsearch: FileResponse.generate_etag on synthetic stat results only PROPOSES pairs of versions; every verdict comes from a real history through the "
    "applications. A tag that is not made by that function leaves the finder blind (label finder=differs), never wrong",
    "a deleted file: only the 304 is judged here (a request with validators for a file that is gone must not be told 'not modified'); the 404 itself is C07's",
]

T0 = 1_700_000_000.25
FORMS = ["etag", "weak", "list-first", "list-middle", "list-last", "weak-in-list", "weak-first-in-list", "star", "lastmod", "both", "list-nospace", "near-tags"]
# further forms (sub-checks grid2 / histories2)
FORMS2 = ["list-long", "list-tabs", "list-empty-members", "weak-list-nospace", "weak-both", "list-both", "both-ims-first", "star-both"]
# the If-None-Match list spread over 2 or 3 header LINES (a list-valued field may arrive on several lines: an ASGI server hands
# them over as separate pairs, a WSGI server joins them with ", "): ml<lines>-<line that carries the file's own tag>[-weak][-list]
# [-imsbefore|-imsmid|-imsafter]; the other lines carry foreign and near-miss tags (one of them is itself a comma list);
# `-list`: the own tag sits in the middle of a comma list on its line; `ims*`: If-Modified-Since in front of / between / behind them
FORMS3 = ["ml2-first", "ml2-last", "ml2-first-weak", "ml2-last-weak", "ml3-first", "ml3-middle", "ml3-last", "ml3-first-weak", "ml3-middle-weak",
          "ml3-last-weak", "ml2-first-list", "ml2-last-list", "ml3-middle-weak-list", "ml2-first-imsbefore", "ml2-first-imsafter",
          "ml2-last-imsbefore", "ml3-first-imsmid", "ml3-last-weak-imsafter", "ml3-middle-list-imsbefore", "ml-near"]
ALL_FORMS = FORMS + FORMS2 + FORMS3
NEAR_FORMS = ("near-tags", "ml-near")  # only tags of other representations
STAR_FORMS = ("star", "star-both")
BASIC_FORMS = ("etag", "lastmod", "both", "star")
MODS = ("rewrite_same", "rewrite_other", "touch", "restore_old", "rewrite_shrink", "truncate")
DEFAULT_NAMES = ["a.txt", "b.html"]
TREE_NAMES = ["index.html", "sub/index.html", "docs/c.html"]
DIRMODES = ("absolute", "package", "relative", "pathlike")
PKG = "verif_c14_pkg"  # the served directory is <scratch>/verif_c14_pkg/static: reachable as a path and as ("static", package=PKG)
_DIR = None
_ROOT = None


def _reset():
    global _DIR, _ROOT
    _DIR = None
    _ROOT = None


core.AFTER_FORK.append(_reset)


def workdir():
    global _DIR, _ROOT
    if _DIR is None:
        _ROOT = tmpfiles.workdir("verif_c14_")
        os.makedirs(os.path.join(_ROOT, PKG, "static"))
        with open(os.path.join(_ROOT, PKG, "__init__.py"), "w") as fh:
            fh.write("")
        _DIR = os.path.join(_ROOT, PKG, "static")
    return _DIR


class World:
    def __init__(self, nfiles, frac=None, names=None):
        # the sub-second phase of the file clock matters to truncating comparisons: start on a whole
        # second, just before one, or in between
        self.now = T0 if frac is None else int(T0) + frac
        self.dir = workdir()
        self.files = {}
        vfs.clear_times(self.dir)
        for name in (list(names) if names else DEFAULT_NAMES[:nfiles]):
            self.files[name] = {"content": b"", "times": None, "version": 0, "snaps": [], "mods_since": {}, "deleted": False}
            self.write(name, f"{name}:v0:".encode() + b"x" * 8, self.now, self.now, self.now)

    def path(self, name):
        return os.path.join(self.dir, *name.split("/"))

    def write(self, name, content, atime, mtime, ctime):
        os.makedirs(os.path.dirname(self.path(name)), exist_ok=True)
        with open(self.path(name), "wb") as fh:
            fh.write(content)
        f = self.files[name]
        f["content"] = content
        f["times"] = (atime, mtime, ctime)
        f["deleted"] = False
        vfs.set_times(self.path(name), atime, mtime, ctime)

    def delete(self, name):
        f = self.files[name]
        if not f["deleted"]:
            os.remove(self.path(name))
            vfs.CLOCK.pop(os.path.abspath(self.path(name)), None)
            f["deleted"] = True
            for j in f["mods_since"]:
                f["mods_since"][j].append("delete")

    def access(self, name):
        # the file was read: only the access time moves - not a modification
        f = self.files[name]
        if not f["deleted"]:
            a, m, c = f["times"]
            f["times"] = (max(a, self.now), m, c)
            vfs.set_times(self.path(name), *f["times"])

    def setver(self, name, mtime, size):
        """The file is rewritten at clock time `mtime` with `size` bytes of new content (a rewrite of the same or another size at a chosen moment)."""
        f = self.files[name]
        f["version"] += 1
        self.now = mtime
        a = self.now if f["deleted"] else f["times"][0]
        old = f["content"]
        head = f"{name}:v{f['version']}:".encode()
        body = (head + bytes([97 + f["version"] % 26]) * max(0, size - len(head)))[:size]
        self.write(name, self._differs(body, old) if len(old) == size else body, a, mtime, mtime)
        for j in f["mods_since"]:
            f["mods_since"][j].append("setver")

    @staticmethod
    def _differs(new, old):
        # same length, other bytes (an empty file cannot be rewritten to something else of its size)
        if new == old and old:
            new = bytes([old[0] ^ 1]) + old[1:]
        return new

    def modify(self, name, kind):
        f = self.files[name]
        f["version"] += 1
        v = f["version"]
        a, m, c = f["times"]
        if f["deleted"]:
            a = self.now  # a file created anew
        old = f["content"]
        if kind == "rewrite_same":
            body = f"{name}:v{v}:".encode()
            self.write(name, self._differs((body + b"y" * len(old))[: len(old)], old), a, self.now, self.now)
        elif kind == "rewrite_other":
            self.write(name, f"{name}:v{v}:".encode() + b"z" * (8 + v), a, self.now, self.now)
        elif kind == "touch":
            self.write(name, old, a, self.now, self.now)
        elif kind == "restore_old":
            body = f"{name}:v{v}:".encode()
            self.write(name, self._differs((body + b"w" * len(old))[: len(old)], old), a, T0 - 10.0 - v, self.now)
        elif kind == "rewrite_shrink":
            # one byte shorter (an empty or one-byte file grows instead)
            n = len(old) - 1 if len(old) >= 2 else len(old) + 1
            self.write(name, (f"{name}:s{v}:".encode() + b"s" * n)[:n], a, self.now, self.now)
        elif kind == "truncate":
            self.write(name, b"", a, self.now, self.now)
        else:
            raise core.HarnessError(kind)
        for j in f["mods_since"]:
            f["mods_since"][j].append(kind)


def _multiline(form, etag, lm, bare):
    """Header PAIRS (repeated names) for the FORMS3 family."""
    if form == "ml-near":
        return [["If-None-Match", f'"{bare[:-1]}", "foreign1"'], ["If-None-Match", f'W/"{bare}x"'], ["If-None-Match", f'"x{bare}"']]
    parts = form.split("-")
    n = int(parts[0][2:])
    own = ("W/" if "weak" in parts else "") + etag
    if "list" in parts:
        own = f'"foreign0", {own}, W/"foreign9"'
    lines = [f'"{bare[:-1]}", "foreign1"', f'W/"{bare}x"'][: n - 1]
    lines.insert({"first": 0, "middle": 1, "last": n - 1}[parts[1]], own)
    pairs = [["If-None-Match", v] for v in lines]
    if "imsbefore" in parts:
        pairs.insert(0, ["If-Modified-Since", lm])
    elif "imsmid" in parts:
        pairs.insert(1, ["If-Modified-Since", lm])
    elif "imsafter" in parts:
        pairs.append(["If-Modified-Since", lm])
    return pairs


def validators(form, snap):
    """The conditional headers of one request: a dict, or a list of pairs where a name is repeated."""
    etag, lm = snap["etag"], snap["lastmod"]
    bare = etag.strip('"')
    h = {}
    if form in FORMS3:
        return _multiline(form, etag, lm, bare)
    if form == "etag":
        h["If-None-Match"] = etag
    elif form == "weak":
        h["If-None-Match"] = "W/" + etag
    elif form == "list-first":
        h["If-None-Match"] = f'{etag}, "foreign1", "foreign2"'
    elif form == "list-middle":
        h["If-None-Match"] = f'"foreign1", {etag}, "foreign2"'
    elif form == "list-last":
        h["If-None-Match"] = f'"foreign1", "foreign2", {etag}'
    elif form == "list-nospace":
        h["If-None-Match"] = f'"foreign1",{etag}'
    elif form == "weak-in-list":
        h["If-None-Match"] = f'"foreign1", W/{etag}, W/"foreign2"'
    elif form == "weak-first-in-list":
        h["If-None-Match"] = f'W/"foreign1", {etag}'
    elif form == "near-tags":
        # tags of OTHER representations that merely look similar: none of them is the file's tag
        h["If-None-Match"] = f'"{bare[:-1]}", "{bare}x", "x{bare}", W/"{bare[1:]}"'
    elif form == "star":
        h["If-None-Match"] = "*"
    elif form == "lastmod":
        h["If-Modified-Since"] = lm
    elif form == "both":
        h["If-None-Match"] = etag
        h["If-Modified-Since"] = lm
    elif form == "list-long":
        # the file's tag is the last of 41 members (a cache that holds many variants)
        h["If-None-Match"] = ", ".join([f'"foreign{i}"' for i in range(40)] + [etag])
    elif form == "list-tabs":
        # optional white space around list members is SP / HTAB
        h["If-None-Match"] = f'"foreign1",\t{etag}\t,\t"foreign2"'
    elif form == "list-empty-members":
        # empty list elements are legal and ignored (RFC 7230 section 7)
        h["If-None-Match"] = f'"foreign1",, ,{etag},'
    elif form == "weak-list-nospace":
        h["If-None-Match"] = f'W/"foreign1",W/{etag}'
    elif form == "weak-both":
        h["If-None-Match"] = "W/" + etag
        h["If-Modified-Since"] = lm
    elif form == "list-both":
        h["If-None-Match"] = f'"foreign1", {etag}, "foreign2"'
        h["If-Modified-Since"] = lm
    elif form == "both-ims-first":
        # the same two validators, the date header in front (header order is the client's choice)
        h["If-Modified-Since"] = lm
        h["If-None-Match"] = etag
    elif form == "star-both":
        h["If-None-Match"] = "*"
        h["If-Modified-Since"] = lm
    else:
        raise core.HarnessError(form)
    _ = bare
    return h


NOISE_BEFORE = [["Accept-Encoding", "gzip, br"], ["X-If-None-Match", "*"], ["User-Agent", "verif/1"]]
NOISE_AFTER = [["If-None-Match-Id", '"zzz"'], ["X-If-Modified-Since", "Thu, 01 Jan 2099 00:00:00 GMT"], ["Cookie", "a=b"], ["Referer", "http://testserver/"]]


def url_for(kind, name, pretty):
    """URL of a file; `pretty` (Pages only): the extension-less URL of an .html file, the directory URL of an index.html."""
    if kind == "pages" and pretty and name.endswith(".html"):
        if name.rsplit("/", 1)[-1] == "index.html":
            return "/" + name[: -len("index.html")]
        return "/" + name[:-5]
    return "/" + name


def _h404_wsgi(environ, start_response):
    start_response("404 Not Found", [("Content-Type", "text/plain"), ("Content-Length", "10")])
    return [b"custom-404"]


async def _h404_asgi(scope, receive, send):
    await send({"type": "http.response.start", "status": 404, "headers": [(b"content-type", b"text/plain"), (b"content-length", b"10")]})
    await send({"type": "http.response.body", "body": b"custom-404"})


def make_app(world, kind, side, opts=None, mode=None):
    """mode: how the application is told its directory (always the same directory) - absolute path (default), os.PathLike, relative path,
    relative path inside an importable package."""
    M = W if side == "wsgi" else A
    kw = {}
    for k, v in (opts or {}).items():
        if k == "handle_404":
            if v:
                kw["handle_404"] = _h404_wsgi if side == "wsgi" else _h404_asgi
        else:
            kw[k] = v
    cls = M.Files if kind == "files" else M.Pages
    if mode in (None, "absolute"):
        return cls(world.dir, **kw)
    if mode == "pathlike":
        import pathlib

        return cls(pathlib.Path(world.dir), **kw)
    if mode == "relative":
        cwd = os.getcwd()
        os.chdir(os.path.dirname(world.dir))
        try:
            return cls(os.path.basename(world.dir), **kw)
        finally:
            os.chdir(cwd)
    if mode == "package":
        if world.dir != _DIR:
            raise core.HarnessError("package mode outside the scratch package")
        importlib.invalidate_caches()
        sys.path.insert(0, _ROOT)
        try:
            return cls(os.path.basename(world.dir), PKG, **kw)
        finally:
            sys.path.remove(_ROOT)
            sys.modules.pop(PKG, None)
    raise core.HarnessError(f"directory mode {mode!r}")


def do_request(world, kind, side, name, headers, app=None, method="GET", noise=False):
    if app is None:
        app = make_app(world, kind, side)
    pairs = [list(kv) for kv in (headers.items() if isinstance(headers, dict) else headers)]
    url = url_for(kind, name, any(k == "_strip_html" and v for k, v in pairs))
    hdrs = [[k, v] for k, v in pairs if not k.startswith("_")]
    if noise:
        hdrs = NOISE_BEFORE + hdrs + NOISE_AFTER
    rq = gw.areq(method=method, path=url, headers=hdrs)
    return gw.call_wsgi(app, rq) if side == "wsgi" else gw.call_asgi(app, rq)


class _Zone:
    """Process time zone for the duration of one case (HTTP dates are GMT whatever the local zone is)."""

    def __init__(self, tz):
        self.tz = tz

    def __enter__(self):
        import time as _t

        self.old = os.environ.get("TZ")
        if self.tz:
            os.environ["TZ"] = self.tz
            _t.tzset()

    def __exit__(self, *exc):
        import time as _t

        if self.tz:
            if self.old is None:
                os.environ.pop("TZ", None)
            else:
                os.environ["TZ"] = self.old
            _t.tzset()


def oracle(case) -> Result:
    with _Zone(case.get("tz")):
        res = _oracle(case)
    if case.get("tz"):
        res.label(f"tz={case['tz']}")
    return res


def _oracle(case) -> Result:
    r = Result()
    kind = case["kind"]
    world = World(case.get("nfiles", 1), case.get("frac"), case.get("names"))
    names = list(world.files)
    nontrivial = False
    shared = case.get("app") == "shared"  # one application instance per interface for the whole history
    opts = case.get("opts")
    mode = case.get("dir")  # how the application is told its directory
    want_tag = {}  # tagsearch: the tag the candidate finder computed for the file's current version
    chain = bool(case.get("chain"))  # 200 answers to conditional requests are remembered as responses j as well
    apps = {}

    def app_for(side):
        if not shared:
            return make_app(world, kind, side, opts, mode)
        if side not in apps:
            apps[side] = make_app(world, kind, side, opts, mode)
        return apps[side]

    def remember(f, run):
        j = len(f["snaps"])
        f["snaps"].append({"content": f["content"], "size": len(f["content"]), "times": f["times"], "etag": run.get("etag"), "lastmod": run.get("last-modified")})
        f["mods_since"][j] = []

    try:
        for step, op in enumerate(case["ops"]):
            name = names[op[1] % len(names)] if len(op) > 1 and isinstance(op[1], int) and op[0] != "advance" else None
            if op[0] == "advance":
                world.now += op[1]
                continue
            f = world.files[name]
            if op[0] in MODS:
                world.modify(name, op[0])
                continue
            if op[0] == "setver":
                world.setver(name, op[2], op[3])
                want_tag[name] = op[4] if len(op) > 4 else None
                continue
            if op[0] == "delete":
                world.delete(name)
                continue
            if op[0] == "access":
                world.access(name)
                continue
            side = op[2]
            ctx = f"{kind} {side} step {step} {op!r} file {name} (history {case['ops'][:step + 1]!r})"
            if shared or opts or mode:
                ctx += f" [app {'shared' if shared else 'fresh'}, options {opts!r}" + (f", directory given as {mode}" if mode else "") + "]"
            if op[0] == "get":
                ex = op[4] if len(op) > 4 and isinstance(op[4], dict) else {}
                method = ex.get("method", "GET")
                run = do_request(world, kind, side, name, {"_strip_html": op[3] if len(op) > 3 else False}, app_for(side), method, bool(ex.get("noise")))
                if f["deleted"]:
                    if run.exc is not None:
                        r.fail(f"C14:{side}:raised:{type(run.exc).__name__}", f"{ctx}: {run.exc!r}")
                        return r
                    if run.status_code == 304:
                        r.fail(f"C14:{side}:stale-304:deleted", f"{ctx}: the file does not exist any more; status 304")
                    continue
                if run.exc is not None or run.status_code != 200:
                    r.fail(f"C14:{side}:plain-request", f"{ctx}: status {run.status_code} exc {run.exc!r}")
                    return r
                if method != "HEAD" and run.body != f["content"]:
                    r.fail(f"C14:{side}:plain-body", f"{ctx}: body {run.body[:30]!r}, file holds {f['content'][:30]!r}")
                etag, lm = run.get("etag"), run.get("last-modified")
                if not etag or not lm:
                    r.fail(f"C14:{side}:validators-missing", f"{ctx}: headers {run.headers!r}")
                    return r
                if lm != formatdate(f["times"][1], usegmt=True):
                    r.fail(f"C14:{side}:last-modified-value", f"{ctx}: Last-Modified {lm!r}, file mtime is {formatdate(f['times'][1], usegmt=True)!r}")
                if want_tag.get(name) is not None:
                    # evidence only: does the candidate finder see the tags the application hands out?
                    r.label("finder=agrees" if etag.strip('"') == want_tag[name] else "finder=differs")
                remember(f, run)
                continue
            if op[0] == "cond":
                if not f["snaps"]:
                    continue
                j = op[3] % len(f["snaps"])
                form = op[4]
                ex = op[5] if len(op) > 5 and isinstance(op[5], dict) else {}
                method = ex.get("method", "GET")
                snap = f["snaps"][j]
                hdrs = validators(form, snap)
                sent = list(hdrs.items()) if isinstance(hdrs, dict) else list(hdrs)
                if ex.get("pretty"):
                    sent = sent + [["_strip_html", True]]
                run = do_request(world, kind, side, name, sent, app_for(side), method, bool(ex.get("noise")))
                if run.exc is not None:
                    r.fail(f"C14:{side}:raised:{type(run.exc).__name__}", f"{ctx}: {run.exc!r}")
                    return r
                status = run.status_code
                mods = f["mods_since"][j]
                if mods or form not in BASIC_FORMS:
                    nontrivial = True
                if f["deleted"]:
                    # (1) for a file that is gone: nothing is "unchanged since that response", and '*' matches existing files only
                    if status == 304:
                        r.fail(f"C14:{side}:stale-304:deleted", f"{ctx}: validators {hdrs!r}; since response #{j}: ops {mods!r}; the file does not exist any more; status 304")
                    continue
                a0, m0, c0 = snap["times"]
                a1, m1, c1 = f["times"]
                size_changed = len(f["content"]) != snap["size"]
                content_changed = f["content"] != snap["content"]
                has_etag = form not in ("lastmod",) + STAR_FORMS
                desc = f"{ctx}: validators {hdrs!r}; since response #{j}: ops {mods!r}, size {snap['size']}->{len(f['content'])}, mtime {m0}->{m1}, ctime {c0}->{c1}; status {status}"
                if status not in (200, 304):
                    r.fail(f"C14:{side}:status", desc)
                    continue
                body_ok = method == "HEAD" or run.body == f["content"]
                # (4) shape of a 304
                if status == 304:
                    if run.body != b"":
                        r.fail(f"C14:{side}:304-with-body", f"{desc}: body {run.body[:30]!r}")
                    cl = run.get("content-length")
                    if cl not in (None, "0"):
                        r.fail(f"C14:{side}:304-content-length", f"{desc}: Content-Length {cl!r}")
                else:
                    # a full response carries the validators of what it delivers
                    if not run.get("etag") or run.get("last-modified") != formatdate(m1, usegmt=True):
                        r.fail(f"C14:{side}:200-validators", f"{desc}: ETag {run.get('etag')!r}, Last-Modified {run.get('last-modified')!r}, file mtime is {formatdate(m1, usegmt=True)!r}")
                if status == 200 and chain and body_ok and run.get("etag") and run.get("last-modified"):
                    remember(f, run)
                if form in STAR_FORMS:
                    if status != 304:
                        r.fail(f"C14:{side}:star-not-304", desc)
                    continue
                if form in NEAR_FORMS:
                    # the client holds other representations: a 304 would leave it with a stale one
                    if status != 200 or not body_ok:
                        r.fail(f"C14:{side}:304-for-foreign-tag", desc)
                    continue
                # (1) no stale 304
                if status == 304 and content_changed:
                    if has_etag:
                        undetectable = (not size_changed) and m1 == m0
                    else:
                        undetectable = c1 - m0 < 1.0  # the change time stays within a second of the remembered Last-Modified
                    if not undetectable:
                        r.fail(f"C14:{side}:stale-304:{form}", desc)
                # (2) fresh after change
                if has_etag:
                    must_200 = size_changed or abs(m1 - m0) >= 1.0
                else:
                    must_200 = c1 - m0 >= 1.0 and bool(mods)
                if must_200:
                    if status != 200:
                        r.fail(f"C14:{side}:not-refreshed:{form}", desc)
                    else:
                        if not body_ok:
                            r.fail(f"C14:{side}:refreshed-body", f"{desc}: body {run.body[:30]!r}")
                        if has_etag and run.get("etag") == snap["etag"]:
                            r.fail(f"C14:{side}:etag-unchanged-after-change", desc)
                        if run.get("last-modified") != formatdate(m1, usegmt=True):
                            r.fail(f"C14:{side}:refreshed-last-modified", f"{desc}: {run.get('last-modified')!r}")
                # (3) revalidation of an unchanged file
                if not mods and has_etag and status != 304:
                    r.fail(f"C14:{side}:revalidation-failed:{form}", desc)
                if status == 200 and not body_ok:
                    r.fail(f"C14:{side}:200-body", f"{desc}: body {run.body[:30]!r}")
                continue
            raise core.HarnessError(f"op {op!r}")
    finally:
        vfs.clear_times(world.dir)
    r.nontrivial = nontrivial
    r.label(f"kind={kind}", f"ops={min(len(case['ops']), 15)}")
    if shared:
        r.label("app=shared")
    if opts:
        r.label("options")
    if mode:
        r.label(f"dir={mode}")
    if case.get("search"):
        r.label(f"search={case['search']}")
    if case.get("names"):
        r.label("layout=tree")
    for op in case["ops"]:
        if op[0] == "cond":
            r.label(f"form={op[4]}")
            ex = op[5] if len(op) > 5 and isinstance(op[5], dict) else {}
            for k in sorted(ex):
                if ex[k]:
                    r.label(f"cond:{k}={ex[k]}")
        elif op[0] in MODS or op[0] in ("delete", "access", "setver"):
            r.label(op[0])
    return r


SUBS = {"histories": oracle, "grid": oracle, "grid2": oracle, "histories2": oracle, "tagsearch": oracle}


@st.composite
def history_case(draw):
    side = st.sampled_from(["wsgi", "asgi"])
    fidx = st.integers(0, 1)
    op = st.one_of(
        st.tuples(st.just("advance"), st.sampled_from([0, 0.3, 0.3, 1, 2, 3600, 0.75])),
        st.tuples(st.sampled_from(["rewrite_same", "rewrite_other", "touch", "restore_old"]), fidx),
        st.tuples(st.just("get"), fidx, side, st.booleans()),
        st.tuples(st.just("cond"), fidx, side, st.integers(0, 5), st.sampled_from(FORMS)),
        st.tuples(st.just("cond"), fidx, side, st.integers(0, 5), st.sampled_from(FORMS + FORMS3)),
    ).map(list)
    ops = draw(st.lists(op, min_size=2, max_size=13))
    first = ["get", 0, draw(side), False]
    return {"kind": draw(st.sampled_from(["files", "pages"])), "nfiles": draw(st.sampled_from([1, 1, 2])), "ops": [first] + ops,
            "frac": draw(st.sampled_from([0.0, 0.0, 0.25, 0.5, 0.999])), "tz": draw(st.sampled_from([None, None, "EST5EDT,M3.2.0,M11.1.0", "CST-8", "HST10", "NPT-5:45"]))}


def grid_cases():
    for kind in ("files", "pages"):
        for side in ("wsgi", "asgi"):
            for mod in (None, "rewrite_same", "rewrite_other", "touch", "restore_old"):
                for dt in (0, 0.3, 0.75, 1, 2, 3600):
                    for form in FORMS:
                        for frac in (0.25, 0.0, 0.999):
                            if frac != 0.25 and form not in ("lastmod", "both", "etag"):
                                continue
                            ops = [["get", 0, side, False], ["advance", dt]]
                            if mod:
                                ops.append([mod, 0])
                            ops.append(["cond", 0, side, 0, form])
                            yield {"kind": kind, "nfiles": 1, "ops": ops, "frac": frac}
                            if frac == 0.25 and form in ("lastmod", "both") and dt in (0, 2, 3600):
                                # the same under local zones west and east of Greenwich
                                for tz in ("EST5", "CST-8"):
                                    yield {"kind": kind, "nfiles": 1, "ops": ops, "frac": frac, "tz": tz}


@st.composite
def history2_case(draw):
    """Histories over everything `history_case` holds fixed: application lifetime, constructor options, layout and URL
    spelling, method, further operations and validator forms, chained responses."""
    side = st.sampled_from(["wsgi", "asgi"])
    kind = draw(st.sampled_from(["files", "pages"]))
    tree = draw(st.booleans())
    names = TREE_NAMES if tree else DEFAULT_NAMES
    fidx = st.integers(0, len(names) - 1)
    method = st.sampled_from(["GET", "GET", "GET", "HEAD"])
    pretty = st.booleans() if kind == "pages" else st.just(False)
    noise = st.sampled_from([False, False, True])
    cond_extra = st.fixed_dictionaries({"method": method, "pretty": pretty, "noise": noise})
    get_extra = st.fixed_dictionaries({"method": method, "noise": noise})
    op = st.one_of(
        st.tuples(st.just("advance"), st.sampled_from([0, 0.3, 0.75, 1, 1, 2, 3600, -2, 15_000_000])),
        st.tuples(st.sampled_from(list(MODS) + ["rewrite_other", "rewrite_shrink", "access", "delete"]), fidx),
        st.tuples(st.just("get"), fidx, side, pretty, get_extra),
        st.tuples(st.just("cond"), fidx, side, st.integers(0, 5), st.sampled_from(ALL_FORMS), cond_extra),
        st.tuples(st.just("cond"), fidx, side, st.integers(0, 5), st.sampled_from(ALL_FORMS), cond_extra),
    ).map(list)
    ops = draw(st.lists(op, min_size=2, max_size=13))
    first = [["get", i, draw(side), False, {"method": "GET", "noise": False}] for i in range(draw(st.integers(1, len(names))))]
    opts = draw(st.one_of(st.none(), st.fixed_dictionaries({
        "cacheability": st.sampled_from(["public", "private", "no-cache", "no-store"]),
        "max_age": st.sampled_from([0, 1, 600, 31536000]),
        "handle_404": st.booleans()})))
    case = {"kind": kind, "names": list(names), "ops": first + ops, "app": draw(st.sampled_from(["shared", "shared", "fresh"])), "chain": True,
            "frac": draw(st.sampled_from([0.0, 0.25, 0.25, 0.5, 0.999])), "tz": draw(st.sampled_from([None, None, None, "EST5EDT,M3.2.0,M11.1.0", "CST-8", "NPT-5:45"]))}
    if opts:
        case["opts"] = opts
    mode = draw(st.sampled_from([None, None, "package", "package", "relative", "pathlike"]))
    if mode:
        case["dir"] = mode
    return case


def grid2_cases():
    """Enumerated short histories over the dimensions `grid` holds fixed (see RULES['grid2'])."""
    KS = [(kind, side) for kind in ("files", "pages") for side in ("wsgi", "asgi")]
    ALLMODS = (None,) + MODS

    def hist(side, f, pre, dt, mod, post):
        ops = list(pre) + [["advance", dt]]
        if mod:
            ops.append([mod, f])
        return ops + list(post)

    # (A) one application instance for the whole history; the .html file also through its extension-less URL
    for kind, side in KS:
        for f, pretty in ((0, False), (1, True)) if kind == "pages" else ((0, False),):
            ex = {"pretty": True} if pretty else {}
            for mod in ALLMODS:
                for dt in (0, 1, 3600):
                    for form in ("etag", "lastmod", "both", "list-middle"):
                        ops = hist(side, f, [["get", f, side, pretty], ["cond", f, side, 0, form, ex]], dt, mod,
                                   [["cond", f, side, 0, form, ex], ["get", f, side, pretty], ["cond", f, side, 1, "etag", ex]])
                        yield {"kind": kind, "nfiles": 2, "ops": ops, "app": "shared"}
    # the two interfaces side by side on one directory, each with its own long-lived instance
    for kind in ("files", "pages"):
        for mod in ALLMODS:
            for form in ("etag", "both"):
                ops = [["get", 0, "wsgi", False], ["get", 0, "asgi", False], ["advance", 2]] + ([[mod, 0]] if mod else []) + \
                      [["cond", 0, "asgi", 0, form], ["cond", 0, "wsgi", 1, form], ["get", 0, "wsgi", False], ["cond", 0, "asgi", 2, form]]
                yield {"kind": kind, "nfiles": 1, "ops": ops, "app": "shared"}
    # (B) further validator forms
    for kind, side in KS:
        for mod in (None, "rewrite_other", "rewrite_same"):
            for dt in (0, 2):
                for form in FORMS2:
                    yield {"kind": kind, "nfiles": 1, "ops": hist(side, 0, [["get", 0, side, False]], dt, mod, [["cond", 0, side, 0, form]])}
    # (C) HEAD for the remembered response, for the revalidation, for both
    for kind, side in KS:
        for mod in (None, "rewrite_other", "touch"):
            for dt in (0, 2):
                for form in ("etag", "weak", "list-last", "star", "lastmod", "both"):
                    for hg, hc in ((False, True), (True, False), (True, True)):
                        g = ["get", 0, side, False, {"method": "HEAD"}] if hg else ["get", 0, side, False]
                        c = ["cond", 0, side, 0, form, {"method": "HEAD"}] if hc else ["cond", 0, side, 0, form]
                        yield {"kind": kind, "nfiles": 1, "ops": hist(side, 0, [g], dt, mod, [c])}
    # (D) the file is deleted / deleted and created anew
    for kind, side in KS:
        for f, pretty in ((0, False), (1, True)) if kind == "pages" else ((0, False),):
            ex = {"pretty": True} if pretty else {}
            for form in FORMS + FORMS2 + ["ml2-first", "ml3-middle-weak", "ml3-last-weak-imsafter", "ml-near"]:
                yield {"kind": kind, "nfiles": 2, "ops": [["get", f, side, pretty], ["delete", f], ["cond", f, side, 0, form, ex], ["get", f, side, pretty]]}
                yield {"kind": kind, "nfiles": 2, "ops": [["get", f, side, pretty], ["advance", 2], ["delete", f], ["rewrite_other", f], ["cond", f, side, 0, form, ex],
                                                          ["get", f, side, pretty], ["cond", f, side, 1, form, ex]]}
            for app in ("shared", "fresh"):
                yield {"kind": kind, "nfiles": 2, "app": app, "opts": {"handle_404": True},
                       "ops": [["get", f, side, pretty], ["cond", f, side, 0, "star", ex], ["delete", f], ["cond", f, side, 0, "star", ex], ["cond", f, side, 0, "etag", ex],
                               ["cond", f, side, 0, "lastmod", ex], ["advance", 1], ["rewrite_same", f], ["cond", f, side, 0, "star", ex], ["cond", f, side, 0, "etag", ex]]}
    # (E) sub-directories, directory URLs (index.html) and extension-less URLs
    for kind, side in KS:
        for pretty in (False, True) if kind == "pages" else (False,):
            ex = {"pretty": True} if pretty else {}
            for f in range(len(TREE_NAMES)):
                for mod in (None, "rewrite_other", "rewrite_same"):
                    for dt in (0, 2):
                        for form in ("etag", "weak-in-list", "lastmod", "both", "star"):
                            yield {"kind": kind, "names": TREE_NAMES, "ops": hist(side, f, [["get", f, side, pretty]], dt, mod, [["cond", f, side, 0, form, ex]])}
    # (F) constructor options
    for cacheability in ("public", "private", "no-cache", "no-store"):
        for max_age, h404 in ((0, False), (600, False), (0, True)):
            opts = {"cacheability": cacheability, "max_age": max_age, "handle_404": h404}
            for kind, side in KS:
                for mod in (None, "rewrite_other"):
                    for form in ("etag", "lastmod", "both", "star"):
                        yield {"kind": kind, "nfiles": 1, "opts": opts, "ops": hist(side, 0, [["get", 0, side, False]], 0, mod, [["cond", 0, side, 0, form]])}
    # (G) one byte shorter k seconds later, zero bytes, access time only
    for kind, side in KS:
        for form in ("etag", "weak", "list-middle", "lastmod", "both"):
            for dt in (0, 0.3, 1, 2):
                for mod in ("rewrite_shrink", "truncate"):
                    yield {"kind": kind, "nfiles": 1, "ops": hist(side, 0, [["get", 0, side, False]], dt, mod, [["cond", 0, side, 0, form], ["get", 0, side, False], ["cond", 0, side, 1, form]])}
                yield {"kind": kind, "nfiles": 1, "ops": [["get", 0, side, False], ["advance", dt], ["access", 0], ["cond", 0, side, 0, form]]}
            for k in (2, 3):  # k bytes shorter after k seconds, in k steps
                ops = [["get", 0, side, False]]
                for _ in range(k):
                    ops += [["advance", 1], ["rewrite_shrink", 0]]
                yield {"kind": kind, "nfiles": 1, "ops": ops + [["cond", 0, side, 0, form]]}
            # an empty file is rewritten / touched / revalidated like any other
            yield {"kind": kind, "nfiles": 1, "ops": [["truncate", 0], ["get", 0, side, False], ["cond", 0, side, 0, form], ["advance", 2], ["touch", 0], ["cond", 0, side, 0, form],
                                                      ["get", 0, side, False], ["rewrite_other", 0], ["cond", 0, side, 1, form]]}
    # (H) chains: the validators of the 200 that answered a conditional request are replayed
    for kind, side in KS:
        for app in ("fresh", "shared"):
            for mod in ("rewrite_same", "rewrite_other", "touch", "restore_old"):
                for form in ("etag", "both", "lastmod"):
                    ops = [["get", 0, side, False], ["advance", 2], [mod, 0], ["cond", 0, side, 0, form], ["cond", 0, side, 1, form], ["cond", 0, side, 1, "weak"],
                           ["advance", 2], ["rewrite_same", 0], ["cond", 0, side, 1, form], ["cond", 0, side, 2, form], ["cond", 0, side, 0, form]]
                    yield {"kind": kind, "nfiles": 1, "ops": ops, "app": app, "chain": True}
    # (J) the remembered response is taken from a file whose three time stamps already differ (mtime set back, touched, read)
    for kind, side in KS:
        for pre in ("restore_old", "touch", "access"):
            for mod in (None, "rewrite_same", "rewrite_other", "touch"):
                for dt in (0, 2):
                    for form in ("etag", "both", "lastmod", "weak-both"):
                        yield {"kind": kind, "nfiles": 1, "ops": hist(side, 0, [["advance", 5], [pre, 0], ["get", 0, side, False]], dt, mod, [["cond", 0, side, 0, form]])}
    # (K) seasons and zones: the date validator in zones with daylight-saving rules (northern, southern, European), in their
    # winter and in their summer, after a leap day and after 2038; modification seconds or half an hour after the response
    for tz in (None, "EST5EDT,M3.2.0,M11.1.0", "AEST-10AEDT,M10.1.0,M4.1.0/3", "CET-1CEST,M3.5.0,M10.5.0/3"):
        for season in (0, 15_000_000, 1_000_000_000):
            for kind, side in KS:
                for mod in (None, "rewrite_same"):
                    for dt in (2, 1800):
                        for form in ("lastmod", "both"):
                            case = {"kind": kind, "nfiles": 1, "ops": hist(side, 0, [["advance", season], ["touch", 0], ["get", 0, side, False]], dt, mod, [["cond", 0, side, 0, form]])}
                            if tz:
                                case["tz"] = tz
                            yield case
    # (L) two files of different size and equal time stamps behind one instance: what is remembered for one must not answer for the other
    for kind, side in KS:
        for app in ("shared",):
            for mod in (None, "rewrite_same", "rewrite_other", "restore_old"):
                for form in ("etag", "both", "lastmod"):
                    ops = [["get", 0, side, False], ["get", 1, side, False], ["cond", 0, side, 0, form], ["cond", 1, side, 0, form], ["advance", 2]] + ([[mod, 0]] if mod else []) + \
                          [["cond", 1, side, 0, form], ["cond", 0, side, 0, form], ["get", 0, side, False], ["cond", 1, side, 0, "etag"], ["cond", 0, side, 1, "etag"]]
                    yield {"kind": kind, "nfiles": 2, "ops": ops, "app": app}
    # (M) the If-None-Match list on 2 and 3 header lines: own tag (strong / weak / inside a comma list) on the first, middle, last line,
    # with and without If-Modified-Since in front, between, behind; fresh and long-lived instance; also through the pretty URL and with HEAD
    for kind, side in KS:
        for form in FORMS3:
            for mod, dt in ((None, 0), ("rewrite_same", 2), ("rewrite_other", 0)):
                yield {"kind": kind, "nfiles": 1, "ops": hist(side, 0, [["get", 0, side, False]], dt, mod, [["cond", 0, side, 0, form]])}
            yield {"kind": kind, "nfiles": 1, "app": "shared", "chain": True,
                   "ops": [["get", 0, side, False], ["cond", 0, side, 0, form, {"method": "HEAD"}], ["cond", 0, side, 0, form, {"noise": True}], ["advance", 1], ["touch", 0],
                           ["cond", 0, side, 0, form], ["cond", 0, side, 1, form]]}
            if kind == "pages":
                yield {"kind": kind, "nfiles": 2, "ops": [["get", 1, side, True], ["cond", 1, side, 0, form, {"pretty": True}], ["advance", 0], ["rewrite_other", 1],
                                                          ["cond", 1, side, 0, form, {"pretty": True}]]}
    # (N) the directory given as `package=` / relative path / os.PathLike: one long-lived instance (section A's history) and a fresh one per request
    for kind, side in KS:
        for f, pretty in ((0, False), (1, True)) if kind == "pages" else ((0, False),):
            ex = {"pretty": True} if pretty else {}
            for mode in DIRMODES[1:]:
                full = mode == "package"
                for mod in ALLMODS if full else (None, "rewrite_same", "rewrite_other"):
                    for dt in (0, 2) if full else (2,):
                        for form in ("etag", "lastmod", "both", "weak-in-list") if full else ("etag", "both"):
                            ops = hist(side, f, [["get", f, side, pretty], ["cond", f, side, 0, form, ex]], dt, mod,
                                       [["cond", f, side, 0, form, ex], ["get", f, side, pretty], ["cond", f, side, 1, "etag", ex]])
                            yield {"kind": kind, "nfiles": 2, "ops": ops, "app": "shared", "dir": mode}
                for mod in (None, "rewrite_other", "touch"):
                    for form in ("etag", "lastmod"):
                        yield {"kind": kind, "nfiles": 2, "dir": mode, "app": "fresh",
                               "ops": hist(side, f, [["get", f, side, pretty]], 2, mod, [["cond", f, side, 0, form, ex], ["get", f, side, pretty]])}
    # (I) unrelated headers (some with look-alike names) around the validators
    for kind, side in KS:
        for mod in (None, "rewrite_other"):
            for form in ("etag", "both", "both-ims-first", "lastmod", "star", "near-tags"):
                yield {"kind": kind, "nfiles": 1, "ops": hist(side, 0, [["get", 0, side, False, {"noise": True}]], 0, mod, [["cond", 0, side, 0, form, {"noise": True}]])}

# ------------------------------------------------------------------------------------------------------------------------
# tagsearch: two different versions of a file under one entity tag


def _digit_neighbours(n, keep_leading=True):
    """Integers with the decimal digits of n changed a little: one digit by +-1/+-2/+-9, two digits by such steps in every combination
    (x+1,y-1 ...), three neighbouring digits by +1,-2,+1 / -1,+2,-1, two adjacent digits swapped.  With keep_leading the first digit
    stays and the number of digits with it."""
    digits = [int(c) for c in str(n)]
    pos = range(1 if keep_leading and len(digits) > 1 else 0, len(digits))
    steps = (-2, -1, 1, 2, -9, 9)

    def moved(ds, changes):
        ds = list(ds)
        for i, a in changes:
            ds[i] += a
        return ds if all(0 <= d <= 9 for d in ds) else None

    found = [digits]
    for i in pos:
        for a in steps:
            found.append(moved(digits, [(i, a)]))
            for j in pos:
                if j > i:
                    for b in steps:
                        found.append(moved(digits, [(i, a), (j, b)]))
        if i + 2 < len(digits):
            found.append(moved(digits, [(i, 1), (i + 1, -2), (i + 2, 1)]))
            found.append(moved(digits, [(i, -1), (i + 1, 2), (i + 2, -1)]))
        if i + 1 < len(digits):
            sw = list(digits)
            sw[i], sw[i + 1] = sw[i + 1], sw[i]
            found.append(sw)
    return sorted({int("".join(map(str, ds))) for ds in found if ds is not None})


def tag_families(seed, quick=True):
    """Product families (name, mtimes, sizes) of file versions.  mtimes are floats exactly as the virtual clock hands them to os.stat."""
    rnd = random.Random(seed * 7919 + 14)
    base = int(T0)
    sbase = base + rnd.randrange(10_000, 90_000_000)  # a clock origin of this run
    nwin, nsize = (900, 256) if quick else (6000, 400)
    fams = [("window", [float(base + k) for k in range(nwin)], list(range(nsize))),
            ("window-seeded", [float(sbase + k) for k in range(nwin // 3)], list(range(nsize)))]
    # every decimal position of the time: seconds ... years
    scale = sorted({float(b + k * 10 ** j) for b in (base, sbase) for j in range(8) for k in range(100)})
    sizes = sorted(set(list(range(0, 13)) + list(range(95, 106)) + list(range(120, 136)) + list(range(195, 216)) + list(range(495, 511)) +
                       list(range(995, 1006)) + [1020, 1021, 1210, 2010, 2020, 4095, 4096, 4097, 8191, 8192, 9999, 10000, 10001, 65535, 65536, 99999, 100000]))
    fams.append(("scales", sorted(set(scale[::2] + scale[1::8])) if quick else scale, sizes))
    # sub-second stamps
    fr = [0.0, 0.1, 0.25, 0.3, 0.5, 0.75, 0.999, 0.001, 0.125, 0.0625, 0.2, 0.7]
    sub = sorted({b + k + x for b in (base, sbase) for k in range(60) for x in fr} | {base + i / 1000 for i in range(1000)} | {sbase + i / 8 for i in range(800)})
    fams.append(("sub-second", sub, list(range(0, 24 if quick else 120))))
    # stamps as a file system with nanosecond resolution reports them
    ns = sorted({sbase + rnd.randrange(0, 100_000) + rnd.randrange(0, 10_000_000) / 10_000_000 for _ in range(2500 if quick else 20000)})
    fams.append(("nanosecond", ns, sorted({rnd.randrange(0, 5000) for _ in range(8 if quick else 30)})))
    # digit neighbours of a base version (seeded base: digits away from 0 and 9 leave room in both directions)
    for tag, b in (("fixed", base + 121), ("seeded", sbase - sbase % 1000 + rnd.choice([121, 343, 454, 565, 727]))):
        for sz in ((121, 1210) if tag == "fixed" else (rnd.choice([232, 343, 454, 565, 676]), 503)):
            fams.append((f"digits-{tag}-{sz}", [float(v) for v in _digit_neighbours(b)], _digit_neighbours(sz, keep_leading=False)))
    return fams


def _stat_factory():
    """Synthetic results of os.stat for a regular file: genuine os.stat_result objects with chosen size and times (as harness.vfs builds them)."""
    path = os.path.join(workdir(), "a.txt")
    if not os.path.exists(path):
        with open(path, "wb") as fh:
            fh.write(b"x")
    cls, (seq, extra) = vfs._orig_stat(path).__reduce__()
    seq, extra = list(seq), dict(extra)

    def make(mtime, size):
        seq[6] = size
        seq[7] = seq[8] = seq[9] = int(mtime)
        extra["st_atime"] = extra["st_mtime"] = extra["st_ctime"] = mtime
        extra["st_atime_ns"] = extra["st_mtime_ns"] = extra["st_ctime_ns"] = int(round(mtime * 1_000_000_000))
        if "st_blocks" in extra:
            extra["st_blocks"] = (size + 511) // 512
        return cls(tuple(seq), extra)

    return make


def find_tag_candidates(seed, quick=True, keep=400):
    """Candidate finder (no verdict): versions of one family that the response classes' tag generator does not tell apart.
    Returns (number of versions examined, number of colliding pairs seen, kept pairs [(family, (m0, s0), (m1, s1))], {version: tag}, notes)."""
    gens = []
    notes = []
    for M in (W, A):
        try:
            g = M.FileResponse.generate_etag
        except AttributeError:
            notes.append(f"{M.__name__}.FileResponse has no generate_etag: no candidates from it")
            continue
        if all(g is not h for h in gens):
            gens.append(g)
    make = _stat_factory()
    examined = collisions = 0
    pairs = []
    tags = {}
    for gen in gens:
        seen = {}  # hash of the tag -> first version with it, across the families (a tag of few bits shows between unrelated versions first)
        for fam, mtimes, sizes in tag_families(seed, quick):
            if len(seen) > 1_500_000:
                seen = {}
            kept = {"time": 0, "size": 0, "both": 0}
            try:
                for m in mtimes:
                    for sz in sizes:
                        tag = gen(make(m, sz))
                        first = seen.setdefault(hash(tag), (m, sz))
                        if first != (m, sz) and gen(make(*first)) == tag:
                            collisions += 1
                            cls_ = "time" if first[1] == sz else "size" if first[0] == m else "both"
                            if kept[cls_] < keep // 3:
                                kept[cls_] += 1
                                pairs.append((fam, first, (m, sz)))
                                tags[first] = tags[(m, sz)] = tag
                    examined += len(sizes)
            except Exception as exc:  # noqa: BLE001 - the finder only proposes; what the application does is judged by the histories
                notes.append(f"family {fam}: generate_etag raised {exc!r} on a synthetic stat result")
    return examined, collisions, pairs, tags, notes


def _pick_pairs(pairs, cap=8):
    """A few candidate pairs, spread over the kinds of difference (time only / size only / both) and, within a kind, over the families;
    non-empty small files and small steps first."""
    def kind(p):
        (m0, s0), (m1, s1) = p[1], p[2]
        return "time" if s0 == s1 else "size" if m0 == m1 else "both"

    def cost(p):
        (m0, s0), (m1, s1) = p[1], p[2]
        return (abs(m1 - m0) < 1.0 and s0 == s1, max(s0, s1) > 20000, min(s0, s1) == 0, abs(m1 - m0) + abs(s1 - s0))

    queues = {}
    for k in ("time", "size", "both"):
        fams = {}
        for p in sorted((p for p in pairs if kind(p) == k), key=cost):
            fams.setdefault(p[0], []).append(p)
        # best pair of every family, then the second best of every family, ...
        queues[k] = [ps[r] for r in range(max((len(v) for v in fams.values()), default=0)) for ps in fams.values() if len(ps) > r]
    out = []
    rank = 0
    while len(out) < cap and any(len(q) > rank for q in queues.values()):
        for k in ("time", "size", "both"):
            if len(queues[k]) > rank and len(out) < cap:
                out.append(queues[k][rank])
        rank += 1
    return out


def tag_history_cases(pair, tags, why):
    """The real history for two versions A, B of one file: A is served and remembered, the file becomes B, A's validators are sent."""
    fam, va, vb = pair
    if (va[0], va[1]) > (vb[0], vb[1]):
        va, vb = vb, va
    for kind in ("files", "pages"):
        for side in ("wsgi", "asgi"):
            for x, y in ((va, vb), (vb, va)):
                ops = [["setver", 0, x[0], x[1]] + ([tags[x]] if x in tags else []), ["get", 0, side, False], ["cond", 0, side, 0, "etag"],
                       ["setver", 0, y[0], y[1]] + ([tags[y]] if y in tags else []),
                       ["cond", 0, side, 0, "etag"], ["cond", 0, side, 0, "weak"], ["cond", 0, side, 0, "list-middle"], ["cond", 0, side, 0, "both"],
                       ["get", 0, side, False], ["cond", 0, side, 1, "etag"], ["cond", 0, side, 0, "weak-in-list"]]
                yield {"kind": kind, "nfiles": 1, "ops": ops, "app": "shared", "search": f"{why}:{fam}"}
                if why == "control":
                    break


def tagsearch_cases(rec):
    quick = rec.tier == "quick"
    t0 = time.time()
    examined, collisions, pairs, tags, notes = find_tag_candidates(rec.seed, quick)
    picked = _pick_pairs(pairs, 8 if quick else 24)
    cases = []
    for p in picked:
        cases.extend(tag_history_cases(p, tags, "candidate"))
    # control: neighbouring versions of every family through the same histories (on a sound tree the only histories of this sub-check); the
    # finder's tag for them is compared with the ETag the application sends (label finder=agrees)
    rnd = random.Random(rec.seed * 104729 + 14)
    make = _stat_factory()
    ncontrol = 0
    for fam, mtimes, sizes in tag_families(rec.seed, quick):
        if fam.startswith("digits-seeded") or fam == "window-seeded":
            continue
        i, j = rnd.randrange(len(mtimes) - 1), rnd.randrange(len(sizes) - 1)
        va = (mtimes[i], min(sizes[j], 20000))
        vb = rnd.choice([(mtimes[i + 1], va[1]), (va[0], min(sizes[j + 1], 20001)), (mtimes[i + 1], min(sizes[j + 1], 20001))])
        t = {}
        try:
            for v in (va, vb):
                t[v] = W.FileResponse.generate_etag(make(*v))
        except Exception:  # noqa: BLE001
            t = {}
        cases.extend(tag_history_cases((fam, va, vb), t, "control"))
        ncontrol += 1
    rec.extra["tagsearch"] = {"versions_examined": examined, "colliding_pairs_seen": collisions, "candidate_pairs_run": len(picked),
                              "control_pairs_run": ncontrol, "histories_run": len(cases), "finder_seconds": round(time.time() - t0, 2), "notes": notes[:10]}
    rec.sub_seconds["tagsearch"] = round(rec.sub_seconds.get("tagsearch", 0.0) + time.time() - t0, 2)
    return cases


def run(rec, only=None):
    quick = rec.tier == "quick"
    core.drive_cases(rec, "grid", grid_cases(), oracle)
    rec.exhaustive["grid"] = True
    core.drive_cases(rec, "grid2", grid2_cases(), oracle)
    rec.exhaustive["grid2"] = True
    if rec.only is None or "tagsearch" in rec.only:
        core.drive_cases(rec, "tagsearch", tagsearch_cases(rec), oracle)
        rec.exhaustive["tagsearch"] = False
    core.drive_hypothesis(rec, "histories", history_case(), oracle, 600 if quick else 60000)
    rec.exhaustive["histories"] = False
    core.drive_hypothesis(rec, "histories2", history2_case(), oracle, 400 if quick else 60000)
    rec.exhaustive["histories2"] = False
