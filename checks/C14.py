"""C14 - Conditional requests never yield a stale 304 and always revalidate a fresh copy."""
from __future__ import annotations

import os
from email.utils import formatdate

from hypothesis import strategies as st

import baize.asgi as A
import baize.wsgi as W

from harness import core, gateways as gw, tmpfiles, vfs
from harness.core import Result

LEVEL = "exploration"
RULES = {
    "histories": "Hypothesis: histories of up to 14 operations over a virtual file clock (wrapped os.stat): advance clock by {0, 0.3, 1, 2, "
    "3600} s; rewrite same size; rewrite other size; touch; restore an older mtime with new content (ctime = now); plain request; "
    "request with the validators of an earlier response in the forms {ETag, W/ETag, ETag as first/middle/last member of a list with "
    "foreign tags, W/ member inside a list, '*', Last-Modified, ETag + Last-Modified}; 1..2 files; Files and Pages; both interfaces; "
    "non-trivial = a validator request that follows a modification of the same file, or a list/weak validator form",
    "grid": "exhaustive: every (modification kind or none) x (clock advance before it) x (validator form) x Files/Pages x WSGI/ASGI as a 3-step history; for the date and tag validators also with the file clock starting exactly on, and just before, a whole second",
}
ASSUMPTIONS = [
    "undetectable class: same size and identical mtime - a 304 is tolerated there; for Last-Modified-only validators any change whose "
    "change time stays within one second of the remembered Last-Modified is undetectable by construction of the mechanism",
    "Last-Modified-only revalidation of an unchanged file may be 304 or 200",
    "timestamps are virtual (os.stat wrapped before baize is imported); sizes and contents are real files",
]

T0 = 1_700_000_000.25
FORMS = ["etag", "weak", "list-first", "list-middle", "list-last", "weak-in-list", "weak-first-in-list", "star", "lastmod", "both", "list-nospace", "near-tags"]
_DIR = None


def _reset():
    global _DIR
    _DIR = None


core.AFTER_FORK.append(_reset)


def workdir():
    global _DIR
    if _DIR is None:
        _DIR = tmpfiles.workdir("verif_c14_")
    return _DIR


class World:
    def __init__(self, nfiles, frac=None):
        # the sub-second phase of the file clock matters to truncating comparisons: start on a whole
        # second, just before one, or in between
        self.now = T0 if frac is None else int(T0) + frac
        self.dir = workdir()
        self.files = {}
        vfs.clear_times(self.dir)
        for i in range(nfiles):
            name = ["a.txt", "b.html"][i]
            self.files[name] = {"content": b"", "times": None, "version": 0, "snaps": [], "mods_since": {}}
            self.write(name, f"{name}:v0:".encode() + b"x" * 8, self.now, self.now, self.now)

    def path(self, name):
        return os.path.join(self.dir, name)

    def write(self, name, content, atime, mtime, ctime):
        with open(self.path(name), "wb") as fh:
            fh.write(content)
        f = self.files[name]
        f["content"] = content
        f["times"] = (atime, mtime, ctime)
        vfs.set_times(self.path(name), atime, mtime, ctime)

    def modify(self, name, kind):
        f = self.files[name]
        f["version"] += 1
        v = f["version"]
        a, m, c = f["times"]
        old = f["content"]
        if kind == "rewrite_same":
            body = f"{name}:v{v}:".encode()
            new = (body + b"y" * len(old))[: len(old)]
            if new == old:
                new = bytes([old[0] ^ 1]) + old[1:]
            self.write(name, new, a, self.now, self.now)
        elif kind == "rewrite_other":
            self.write(name, f"{name}:v{v}:".encode() + b"z" * (8 + v), a, self.now, self.now)
        elif kind == "touch":
            self.write(name, old, a, self.now, self.now)
        elif kind == "restore_old":
            body = f"{name}:v{v}:".encode()
            new = (body + b"w" * len(old))[: len(old)]
            if new == old:
                new = bytes([old[0] ^ 1]) + old[1:]
            self.write(name, new, a, T0 - 10.0 - v, self.now)
        else:
            raise core.HarnessError(kind)
        for j in f["mods_since"]:
            f["mods_since"][j].append(kind)


def validators(form, snap):
    etag, lm = snap["etag"], snap["lastmod"]
    bare = etag.strip('"')
    h = {}
    if form == "etag":
        h["If-None-Match"] = etag
    elif form == "weak":
        h["If-None-Match"] = "W/" + etag
    elif form == "list-first":
        h["If-None-Match"] = f'{etag}, "foreign1", "foreign2"'
    elif form == "list-middle":
        h["If-None-Match"] = f'"foreign1", {etag}, "foreign2"'
    elif form == "list-last":
        h["If-None-Match"] = f'"foreign1", "foreign2", {etag}'
    elif form == "list-nospace":
        h["If-None-Match"] = f'"foreign1",{etag}'
    elif form == "weak-in-list":
        h["If-None-Match"] = f'"foreign1", W/{etag}, W/"foreign2"'
    elif form == "weak-first-in-list":
        h["If-None-Match"] = f'W/"foreign1", {etag}'
    elif form == "near-tags":
        # tags of OTHER representations that merely look similar: none of them is the file's tag
        h["If-None-Match"] = f'"{bare[:-1]}", "{bare}x", "x{bare}", W/"{bare[1:]}"'
    elif form == "star":
        h["If-None-Match"] = "*"
    elif form == "lastmod":
        h["If-Modified-Since"] = lm
    elif form == "both":
        h["If-None-Match"] = etag
        h["If-Modified-Since"] = lm
    else:
        raise core.HarnessError(form)
    _ = bare
    return h


def do_request(world, kind, side, name, headers):
    M = W if side == "wsgi" else A
    app = (M.Files if kind == "files" else M.Pages)(world.dir)
    url = "/" + name
    if kind == "pages" and name.endswith(".html") and headers.get("_strip_html"):
        url = "/" + name[:-5]
    rq = gw.areq(path=url, headers=[[k, v] for k, v in headers.items() if not k.startswith("_")])
    return gw.call_wsgi(app, rq) if side == "wsgi" else gw.call_asgi(app, rq)


class _Zone:
    """Process time zone for the duration of one case (HTTP dates are GMT whatever the local zone is)."""

    def __init__(self, tz):
        self.tz = tz

    def __enter__(self):
        import time as _t

        self.old = os.environ.get("TZ")
        if self.tz:
            os.environ["TZ"] = self.tz
            _t.tzset()

    def __exit__(self, *exc):
        import time as _t

        if self.tz:
            if self.old is None:
                os.environ.pop("TZ", None)
            else:
                os.environ["TZ"] = self.old
            _t.tzset()


def oracle(case) -> Result:
    with _Zone(case.get("tz")):
        res = _oracle(case)
    if case.get("tz"):
        res.label(f"tz={case['tz']}")
    return res


def _oracle(case) -> Result:
    r = Result()
    kind = case["kind"]
    world = World(case.get("nfiles", 1), case.get("frac"))
    names = list(world.files)
    nontrivial = False
    try:
        for step, op in enumerate(case["ops"]):
            name = names[op[1] % len(names)] if len(op) > 1 and isinstance(op[1], int) and op[0] != "advance" else None
            if op[0] == "advance":
                world.now += op[1]
                continue
            f = world.files[name]
            if op[0] in ("rewrite_same", "rewrite_other", "touch", "restore_old"):
                world.modify(name, op[0])
                continue
            side = op[2]
            ctx = f"{kind} {side} step {step} {op!r} file {name} (history {case['ops'][:step + 1]!r})"
            if op[0] == "get":
                run = do_request(world, kind, side, name, {"_strip_html": op[3] if len(op) > 3 else False})
                if run.exc is not None or run.status_code != 200:
                    r.fail(f"C14:{side}:plain-request", f"{ctx}: status {run.status_code} exc {run.exc!r}")
                    return r
                if run.body != f["content"]:
                    r.fail(f"C14:{side}:plain-body", f"{ctx}: body {run.body[:30]!r}, file holds {f['content'][:30]!r}")
                etag, lm = run.get("etag"), run.get("last-modified")
                if not etag or not lm:
                    r.fail(f"C14:{side}:validators-missing", f"{ctx}: headers {run.headers!r}")
                    return r
                if lm != formatdate(f["times"][1], usegmt=True):
                    r.fail(f"C14:{side}:last-modified-value", f"{ctx}: Last-Modified {lm!r}, file mtime is {formatdate(f['times'][1], usegmt=True)!r}")
                j = len(f["snaps"])
                f["snaps"].append({"content": f["content"], "size": len(f["content"]), "times": f["times"], "etag": etag, "lastmod": lm})
                f["mods_since"][j] = []
                continue
            if op[0] == "cond":
                if not f["snaps"]:
                    continue
                j = op[3] % len(f["snaps"])
                form = op[4]
                snap = f["snaps"][j]
                hdrs = validators(form, snap)
                run = do_request(world, kind, side, name, hdrs)
                if run.exc is not None:
                    r.fail(f"C14:{side}:raised:{type(run.exc).__name__}", f"{ctx}: {run.exc!r}")
                    return r
                status = run.status_code
                mods = f["mods_since"][j]
                a0, m0, c0 = snap["times"]
                a1, m1, c1 = f["times"]
                size_changed = len(f["content"]) != snap["size"]
                content_changed = f["content"] != snap["content"]
                has_etag = form not in ("lastmod", "star")
                if mods or form not in ("etag", "lastmod", "both", "star"):
                    nontrivial = True
                desc = f"{ctx}: validators {hdrs!r}; since response #{j}: ops {mods!r}, size {snap['size']}->{len(f['content'])}, mtime {m0}->{m1}, ctime {c0}->{c1}; status {status}"
                if status not in (200, 304):
                    r.fail(f"C14:{side}:status", desc)
                    continue
                # (4) shape of a 304
                if status == 304:
                    if run.body != b"":
                        r.fail(f"C14:{side}:304-with-body", f"{desc}: body {run.body[:30]!r}")
                    cl = run.get("content-length")
                    if cl not in (None, "0"):
                        r.fail(f"C14:{side}:304-content-length", f"{desc}: Content-Length {cl!r}")
                if form == "star":
                    if status != 304:
                        r.fail(f"C14:{side}:star-not-304", desc)
                    continue
                if form == "near-tags":
                    # the client holds other representations: a 304 would leave it with a stale one
                    if status != 200 or run.body != f["content"]:
                        r.fail(f"C14:{side}:304-for-foreign-tag", desc)
                    continue
                # (1) no stale 304
                if status == 304 and content_changed:
                    if has_etag:
                        undetectable = (not size_changed) and m1 == m0
                    else:
                        undetectable = c1 - m0 < 1.0  # the change time stays within a second of the remembered Last-Modified
                    if not undetectable:
                        r.fail(f"C14:{side}:stale-304:{form}", desc)
                # (2) fresh after change
                if has_etag:
                    must_200 = size_changed or abs(m1 - m0) >= 1.0
                else:
                    must_200 = c1 - m0 >= 1.0 and bool(mods)
                if must_200:
                    if status != 200:
                        r.fail(f"C14:{side}:not-refreshed:{form}", desc)
                    else:
                        if run.body != f["content"]:
                            r.fail(f"C14:{side}:refreshed-body", f"{desc}: body {run.body[:30]!r}")
                        if has_etag and run.get("etag") == snap["etag"]:
                            r.fail(f"C14:{side}:etag-unchanged-after-change", desc)
                        if run.get("last-modified") != formatdate(m1, usegmt=True):
                            r.fail(f"C14:{side}:refreshed-last-modified", f"{desc}: {run.get('last-modified')!r}")
                # (3) revalidation of an unchanged file
                if not mods and has_etag and status != 304:
                    r.fail(f"C14:{side}:revalidation-failed:{form}", desc)
                if status == 200 and run.body != f["content"]:
                    r.fail(f"C14:{side}:200-body", f"{desc}: body {run.body[:30]!r}")
                continue
            raise core.HarnessError(f"op {op!r}")
    finally:
        vfs.clear_times(world.dir)
    r.nontrivial = nontrivial
    r.label(f"kind={kind}", f"ops={min(len(case['ops']), 15)}")
    for op in case["ops"]:
        if op[0] == "cond":
            r.label(f"form={op[4]}")
        elif op[0] in ("rewrite_same", "rewrite_other", "touch", "restore_old"):
            r.label(op[0])
    return r


SUBS = {"histories": oracle, "grid": oracle}


@st.composite
def history_case(draw):
    side = st.sampled_from(["wsgi", "asgi"])
    fidx = st.integers(0, 1)
    op = st.one_of(
        st.tuples(st.just("advance"), st.sampled_from([0, 0.3, 0.3, 1, 2, 3600, 0.75])),
        st.tuples(st.sampled_from(["rewrite_same", "rewrite_other", "touch", "restore_old"]), fidx),
        st.tuples(st.just("get"), fidx, side, st.booleans()),
        st.tuples(st.just("cond"), fidx, side, st.integers(0, 5), st.sampled_from(FORMS)),
        st.tuples(st.just("cond"), fidx, side, st.integers(0, 5), st.sampled_from(FORMS)),
    ).map(list)
    ops = draw(st.lists(op, min_size=2, max_size=13))
    first = ["get", 0, draw(side), False]
    return {"kind": draw(st.sampled_from(["files", "pages"])), "nfiles": draw(st.sampled_from([1, 1, 2])), "ops": [first] + ops,
            "frac": draw(st.sampled_from([0.0, 0.0, 0.25, 0.5, 0.999])), "tz": draw(st.sampled_from([None, None, "EST5EDT,M3.2.0,M11.1.0", "CST-8", "HST10", "NPT-5:45"]))}


def grid_cases():
    for kind in ("files", "pages"):
        for side in ("wsgi", "asgi"):
            for mod in (None, "rewrite_same", "rewrite_other", "touch", "restore_old"):
                for dt in (0, 0.3, 0.75, 1, 2, 3600):
                    for form in FORMS:
                        for frac in (0.25, 0.0, 0.999):
                            if frac != 0.25 and form not in ("lastmod", "both", "etag"):
                                continue
                            ops = [["get", 0, side, False], ["advance", dt]]
                            if mod:
                                ops.append([mod, 0])
                            ops.append(["cond", 0, side, 0, form])
                            yield {"kind": kind, "nfiles": 1, "ops": ops, "frac": frac}
                            if frac == 0.25 and form in ("lastmod", "both") and dt in (0, 2, 3600):
                                # the same under local zones west and east of Greenwich
                                for tz in ("EST5", "CST-8"):
                                    yield {"kind": kind, "nfiles": 1, "ops": ops, "frac": frac, "tz": tz}


def run(rec, only=None):
    quick = rec.tier == "quick"
    core.drive_cases(rec, "grid", grid_cases(), oracle)
    rec.exhaustive["grid"] = True
    core.drive_hypothesis(rec, "histories", history_case(), oracle, 600 if quick else 15000)
    rec.exhaustive["histories"] = False
