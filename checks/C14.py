"""C14 - Conditional requests never yield a stale 304 and always revalidate a fresh copy."""
from __future__ import annotations

import os
from email.utils import formatdate

from hypothesis import strategies as st

import baize.asgi as A
import baize.wsgi as W

from harness import core, gateways as gw, tmpfiles, vfs
from harness.core import Result

LEVEL = "exploration"
RULES = {
    "histories": "Hypothesis: histories of up to 14 operations over a virtual file clock (wrapped os.stat): advance clock by {0, 0.3, 1, 2, "
    "3600} s; rewrite same size; rewrite other size; touch; restore an older mtime with new content (ctime = now); plain request; "
    "request with the validators of an earlier response in the forms {ETag, W/ETag, ETag as first/middle/last member of a list with "
    "foreign tags, W/ member inside a list, '*', Last-Modified, ETag + Last-Modified}; 1..2 files; Files and Pages; both interfaces; "
    "non-trivial = a validator request that follows a modification of the same file, or a list/weak validator form",
    "grid": "exhaustive: every (modification kind or none) x (clock advance before it) x (validator form) x Files/Pages x WSGI/ASGI as a 3-step history; for the date and tag validators also with the file clock starting exactly on, and just before, a whole second",
    "grid2": "enumerated short histories over the dimensions the first grid holds fixed: (A) ONE application instance serving the whole history "
    "(request - revalidation - modification - revalidation - plain request - revalidation of the second response), also through the extension-less "
    "Pages URL; (B) further validator forms: the tag behind 40 other list members, horizontal tabs as list white space, empty list members, weak "
    "members without blanks, weak tag + date, list + date, '*' + date, the date header in front of the tag header; (C) HEAD for the remembered "
    "response and/or the revalidation; (D) the file deleted (no 304 for any form, '*' included) and re-created; (E) files in sub-directories, "
    "directory URLs served from index.html and extension-less URLs of Pages; (F) every cacheability x max_age 0/600, with and without handle_404; "
    "(G) rewrites that shrink the file by one byte k seconds later, truncation to zero bytes, access-time bumps; (H) chains - the validators of "
    "the 200 that answered a conditional request are replayed in turn; (I) unrelated request headers around the validators; (J) the remembered "
    "response taken after the file's mtime was set back / the file was touched / read, so that atime, mtime and ctime already differ; (K) the "
    "date validator in process time zones with daylight-saving rules (northern, southern, European) in their winter and summer, after a leap "
    "day, after 2038; (L) two files with equal time stamps served and revalidated alternately by one instance while one of them is modified; (M) the "
    "If-None-Match list spread over 2 and 3 header lines (separate pairs on ASGI, joined with ', ' by the WSGI server model): the file's tag - "
    "strong, weak, inside a comma list - on the first / middle / last line, foreign and near-miss tags on the others, If-Modified-Since in "
    "front of / between / behind the lines; only near-miss tags on three lines (200 required)",
    "histories2": "Hypothesis: histories as in `histories` with all of the above drawn freely: one application instance or a fresh one per request, "
    "constructor options, flat or nested layout with pretty URLs, GET/HEAD, delete / shrink / truncate / access operations, all 20 validator "
    "forms and the 20 multi-line forms of grid2 (M) (`histories` draws the multi-line forms as well), unrelated headers, and the 200 answers "
    "to conditional requests remembered as further responses j",
}
ASSUMPTIONS = [
    "undetectable class: same size and identical mtime - a 304 is tolerated there; for Last-Modified-only validators any change whose "
    "change time stays within one second of the remembered Last-Modified is undetectable by construction of the mechanism",
    "Last-Modified-only revalidation of an unchanged file may be 304 or 200",
    "timestamps are virtual (os.stat wrapped before baize is imported); sizes and contents are real files",
    "a HEAD request is a request: it revalidates like GET (304 for an unchanged file) and hands out the same validators; its body is not judged here",
    "a deleted file: only the 304 is judged here (a request with validators for a file that is gone must not be told 'not modified'); the 404 itself is C07's",
]

T0 = 1_700_000_000.25
FORMS = ["etag", "weak", "list-first", "list-middle", "list-last", "weak-in-list", "weak-first-in-list", "star", "lastmod", "both", "list-nospace", "near-tags"]
# further forms (sub-checks grid2 / histories2)
FORMS2 = ["list-long", "list-tabs", "list-empty-members", "weak-list-nospace", "weak-both", "list-both", "both-ims-first", "star-both"]
# the If-None-Match list spread over 2 or 3 header LINES (a list-valued field may arrive on several lines: an ASGI server hands
# them over as separate pairs, a WSGI server joins them with ", "): ml<lines>-<line that carries the file's own tag>[-weak][-list]
# [-imsbefore|-imsmid|-imsafter]; the other lines carry foreign and near-miss tags (one of them is itself a comma list);
# `-list`: the own tag sits in the middle of a comma list on its line; `ims*`: If-Modified-Since in front of / between / behind them
FORMS3 = ["ml2-first", "ml2-last", "ml2-first-weak", "ml2-last-weak", "ml3-first", "ml3-middle", "ml3-last", "ml3-first-weak", "ml3-middle-weak",
          "ml3-last-weak", "ml2-first-list", "ml2-last-list", "ml3-middle-weak-list", "ml2-first-imsbefore", "ml2-first-imsafter",
          "ml2-last-imsbefore", "ml3-first-imsmid", "ml3-last-weak-imsafter", "ml3-middle-list-imsbefore", "ml-near"]
ALL_FORMS = FORMS + FORMS2 + FORMS3
NEAR_FORMS = ("near-tags", "ml-near")  # only tags of other representations
STAR_FORMS = ("star", "star-both")
BASIC_FORMS = ("etag", "lastmod", "both", "star")
MODS = ("rewrite_same", "rewrite_other", "touch", "restore_old", "rewrite_shrink", "truncate")
DEFAULT_NAMES = ["a.txt", "b.html"]
TREE_NAMES = ["index.html", "sub/index.html", "docs/c.html"]
_DIR = None


def _reset():
    global _DIR
    _DIR = None


core.AFTER_FORK.append(_reset)


def workdir():
    global _DIR
    if _DIR is None:
        _DIR = tmpfiles.workdir("verif_c14_")
    return _DIR


class World:
    def __init__(self, nfiles, frac=None, names=None):
        # the sub-second phase of the file clock matters to truncating comparisons: start on a whole
        # second, just before one, or in between
        self.now = T0 if frac is None else int(T0) + frac
        self.dir = workdir()
        self.files = {}
        vfs.clear_times(self.dir)
        for name in (list(names) if names else DEFAULT_NAMES[:nfiles]):
            self.files[name] = {"content": b"", "times": None, "version": 0, "snaps": [], "mods_since": {}, "deleted": False}
            self.write(name, f"{name}:v0:".encode() + b"x" * 8, self.now, self.now, self.now)

    def path(self, name):
        return os.path.join(self.dir, *name.split("/"))

    def write(self, name, content, atime, mtime, ctime):
        os.makedirs(os.path.dirname(self.path(name)), exist_ok=True)
        with open(self.path(name), "wb") as fh:
            fh.write(content)
        f = self.files[name]
        f["content"] = content
        f["times"] = (atime, mtime, ctime)
        f["deleted"] = False
        vfs.set_times(self.path(name), atime, mtime, ctime)

    def delete(self, name):
        f = self.files[name]
        if not f["deleted"]:
            os.remove(self.path(name))
            vfs.CLOCK.pop(os.path.abspath(self.path(name)), None)
            f["deleted"] = True
            for j in f["mods_since"]:
                f["mods_since"][j].append("delete")

    def access(self, name):
        # the file was read: only the access time moves - not a modification
        f = self.files[name]
        if not f["deleted"]:
            a, m, c = f["times"]
            f["times"] = (max(a, self.now), m, c)
            vfs.set_times(self.path(name), *f["times"])

    @staticmethod
    def _differs(new, old):
        # same length, other bytes (an empty file cannot be rewritten to something else of its size)
        if new == old and old:
            new = bytes([old[0] ^ 1]) + old[1:]
        return new

    def modify(self, name, kind):
        f = self.files[name]
        f["version"] += 1
        v = f["version"]
        a, m, c = f["times"]
        if f["deleted"]:
            a = self.now  # a file created anew
        old = f["content"]
        if kind == "rewrite_same":
            body = f"{name}:v{v}:".encode()
            self.write(name, self._differs((body + b"y" * len(old))[: len(old)], old), a, self.now, self.now)
        elif kind == "rewrite_other":
            self.write(name, f"{name}:v{v}:".encode() + b"z" * (8 + v), a, self.now, self.now)
        elif kind == "touch":
            self.write(name, old, a, self.now, self.now)
        elif kind == "restore_old":
            body = f"{name}:v{v}:".encode()
            self.write(name, self._differs((body + b"w" * len(old))[: len(old)], old), a, T0 - 10.0 - v, self.now)
        elif kind == "rewrite_shrink":
            # one byte shorter (an empty or one-byte file grows instead)
            n = len(old) - 1 if len(old) >= 2 else len(old) + 1
            self.write(name, (f"{name}:s{v}:".encode() + b"s" * n)[:n], a, self.now, self.now)
        elif kind == "truncate":
            self.write(name, b"", a, self.now, self.now)
        else:
            raise core.HarnessError(kind)
        for j in f["mods_since"]:
            f["mods_since"][j].append(kind)


def _multiline(form, etag, lm, bare):
    """Header PAIRS (repeated names) for the FORMS3 family."""
    if form == "ml-near":
        return [["If-None-Match", f'"{bare[:-1]}", "foreign1"'], ["If-None-Match", f'W/"{bare}x"'], ["If-None-Match", f'"x{bare}"']]
    parts = form.split("-")
    n = int(parts[0][2:])
    own = ("W/" if "weak" in parts else "") + etag
    if "list" in parts:
        own = f'"foreign0", {own}, W/"foreign9"'
    lines = [f'"{bare[:-1]}", "foreign1"', f'W/"{bare}x"'][: n - 1]
    lines.insert({"first": 0, "middle": 1, "last": n - 1}[parts[1]], own)
    pairs = [["If-None-Match", v] for v in lines]
    if "imsbefore" in parts:
        pairs.insert(0, ["If-Modified-Since", lm])
    elif "imsmid" in parts:
        pairs.insert(1, ["If-Modified-Since", lm])
    elif "imsafter" in parts:
        pairs.append(["If-Modified-Since", lm])
    return pairs


def validators(form, snap):
    """The conditional headers of one request: a dict, or a list of pairs where a name is repeated."""
    etag, lm = snap["etag"], snap["lastmod"]
    bare = etag.strip('"')
    h = {}
    if form in FORMS3:
        return _multiline(form, etag, lm, bare)
    if form == "etag":
        h["If-None-Match"] = etag
    elif form == "weak":
        h["If-None-Match"] = "W/" + etag
    elif form == "list-first":
        h["If-None-Match"] = f'{etag}, "foreign1", "foreign2"'
    elif form == "list-middle":
        h["If-None-Match"] = f'"foreign1", {etag}, "foreign2"'
    elif form == "list-last":
        h["If-None-Match"] = f'"foreign1", "foreign2", {etag}'
    elif form == "list-nospace":
        h["If-None-Match"] = f'"foreign1",{etag}'
    elif form == "weak-in-list":
        h["If-None-Match"] = f'"foreign1", W/{etag}, W/"foreign2"'
    elif form == "weak-first-in-list":
        h["If-None-Match"] = f'W/"foreign1", {etag}'
    elif form == "near-tags":
        # tags of OTHER representations that merely look similar: none of them is the file's tag
        h["If-None-Match"] = f'"{bare[:-1]}", "{bare}x", "x{bare}", W/"{bare[1:]}"'
    elif form == "star":
        h["If-None-Match"] = "*"
    elif form == "lastmod":
        h["If-Modified-Since"] = lm
    elif form == "both":
        h["If-None-Match"] = etag
        h["If-Modified-Since"] = lm
    elif form == "list-long":
        # the file's tag is the last of 41 members (a cache that holds many variants)
        h["If-None-Match"] = ", ".join([f'"foreign{i}"' for i in range(40)] + [etag])
    elif form == "list-tabs":
        # optional white space around list members is SP / HTAB
        h["If-None-Match"] = f'"foreign1",\t{etag}\t,\t"foreign2"'
    elif form == "list-empty-members":
        # empty list elements are legal and ignored (RFC 7230 section 7)
        h["If-None-Match"] = f'"foreign1",, ,{etag},'
    elif form == "weak-list-nospace":
        h["If-None-Match"] = f'W/"foreign1",W/{etag}'
    elif form == "weak-both":
        h["If-None-Match"] = "W/" + etag
        h["If-Modified-Since"] = lm
    elif form == "list-both":
        h["If-None-Match"] = f'"foreign1", {etag}, "foreign2"'
        h["If-Modified-Since"] = lm
    elif form == "both-ims-first":
        # the same two validators, the date header in front (header order is the client's choice)
        h["If-Modified-Since"] = lm
        h["If-None-Match"] = etag
    elif form == "star-both":
        h["If-None-Match"] = "*"
        h["If-Modified-Since"] = lm
    else:
        raise core.HarnessError(form)
    _ = bare
    return h


NOISE_BEFORE = [["Accept-Encoding", "gzip, br"], ["X-If-None-Match", "*"], ["User-Agent", "verif/1"]]
NOISE_AFTER = [["If-None-Match-Id", '"zzz"'], ["X-If-Modified-Since", "Thu, 01 Jan 2099 00:00:00 GMT"], ["Cookie", "a=b"], ["Referer", "http://testserver/"]]


def url_for(kind, name, pretty):
    """URL of a file; `pretty` (Pages only): the extension-less URL of an .html file, the directory URL of an index.html."""
    if kind == "pages" and pretty and name.endswith(".html"):
        if name.rsplit("/", 1)[-1] == "index.html":
            return "/" + name[: -len("index.html")]
        return "/" + name[:-5]
    return "/" + name


def _h404_wsgi(environ, start_response):
    start_response("404 Not Found", [("Content-Type", "text/plain"), ("Content-Length", "10")])
    return [b"custom-404"]


async def _h404_asgi(scope, receive, send):
    await send({"type": "http.response.start", "status": 404, "headers": [(b"content-type", b"text/plain"), (b"content-length", b"10")]})
    await send({"type": "http.response.body", "body": b"custom-404"})


def make_app(world, kind, side, opts=None):
    M = W if side == "wsgi" else A
    kw = {}
    for k, v in (opts or {}).items():
        if k == "handle_404":
            if v:
                kw["handle_404"] = _h404_wsgi if side == "wsgi" else _h404_asgi
        else:
            kw[k] = v
    return (M.Files if kind == "files" else M.Pages)(world.dir, **kw)


def do_request(world, kind, side, name, headers, app=None, method="GET", noise=False):
    if app is None:
        app = make_app(world, kind, side)
    pairs = [list(kv) for kv in (headers.items() if isinstance(headers, dict) else headers)]
    url = url_for(kind, name, any(k == "_strip_html" and v for k, v in pairs))
    hdrs = [[k, v] for k, v in pairs if not k.startswith("_")]
    if noise:
        hdrs = NOISE_BEFORE + hdrs + NOISE_AFTER
    rq = gw.areq(method=method, path=url, headers=hdrs)
    return gw.call_wsgi(app, rq) if side == "wsgi" else gw.call_asgi(app, rq)


class _Zone:
    """Process time zone for the duration of one case (HTTP dates are GMT whatever the local zone is)."""

    def __init__(self, tz):
        self.tz = tz

    def __enter__(self):
        import time as _t

        self.old = os.environ.get("TZ")
        if self.tz:
            os.environ["TZ"] = self.tz
            _t.tzset()

    def __exit__(self, *exc):
        import time as _t

        if self.tz:
            if self.old is None:
                os.environ.pop("TZ", None)
            else:
                os.environ["TZ"] = self.old
            _t.tzset()


def oracle(case) -> Result:
    with _Zone(case.get("tz")):
        res = _oracle(case)
    if case.get("tz"):
        res.label(f"tz={case['tz']}")
    return res


def _oracle(case) -> Result:
    r = Result()
    kind = case["kind"]
    world = World(case.get("nfiles", 1), case.get("frac"), case.get("names"))
    names = list(world.files)
    nontrivial = False
    shared = case.get("app") == "shared"  # one application instance per interface for the whole history
    opts = case.get("opts")
    chain = bool(case.get("chain"))  # 200 answers to conditional requests are remembered as responses j as well
    apps = {}

    def app_for(side):
        if not shared:
            return make_app(world, kind, side, opts)
        if side not in apps:
            apps[side] = make_app(world, kind, side, opts)
        return apps[side]

    def remember(f, run):
        j = len(f["snaps"])
        f["snaps"].append({"content": f["content"], "size": len(f["content"]), "times": f["times"], "etag": run.get("etag"), "lastmod": run.get("last-modified")})
        f["mods_since"][j] = []

    try:
        for step, op in enumerate(case["ops"]):
            name = names[op[1] % len(names)] if len(op) > 1 and isinstance(op[1], int) and op[0] != "advance" else None
            if op[0] == "advance":
                world.now += op[1]
                continue
            f = world.files[name]
            if op[0] in MODS:
                world.modify(name, op[0])
                continue
            if op[0] == "delete":
                world.delete(name)
                continue
            if op[0] == "access":
                world.access(name)
                continue
            side = op[2]
            ctx = f"{kind} {side} step {step} {op!r} file {name} (history {case['ops'][:step + 1]!r})"
            if shared or opts:
                ctx += f" [app {'shared' if shared else 'fresh'}, options {opts!r}]"
            if op[0] == "get":
                ex = op[4] if len(op) > 4 and isinstance(op[4], dict) else {}
                method = ex.get("method", "GET")
                run = do_request(world, kind, side, name, {"_strip_html": op[3] if len(op) > 3 else False}, app_for(side), method, bool(ex.get("noise")))
                if f["deleted"]:
                    if run.exc is not None:
                        r.fail(f"C14:{side}:raised:{type(run.exc).__name__}", f"{ctx}: {run.exc!r}")
                        return r
                    if run.status_code == 304:
                        r.fail(f"C14:{side}:stale-304:deleted", f"{ctx}: the file does not exist any more; status 304")
                    continue
                if run.exc is not None or run.status_code != 200:
                    r.fail(f"C14:{side}:plain-request", f"{ctx}: status {run.status_code} exc {run.exc!r}")
                    return r
                if method != "HEAD" and run.body != f["content"]:
                    r.fail(f"C14:{side}:plain-body", f"{ctx}: body {run.body[:30]!r}, file holds {f['content'][:30]!r}")
                etag, lm = run.get("etag"), run.get("last-modified")
                if not etag or not lm:
                    r.fail(f"C14:{side}:validators-missing", f"{ctx}: headers {run.headers!r}")
                    return r
                if lm != formatdate(f["times"][1], usegmt=True):
                    r.fail(f"C14:{side}:last-modified-value", f"{ctx}: Last-Modified {lm!r}, file mtime is {formatdate(f['times'][1], usegmt=True)!r}")
                remember(f, run)
                continue
            if op[0] == "cond":
                if not f["snaps"]:
                    continue
                j = op[3] % len(f["snaps"])
                form = op[4]
                ex = op[5] if len(op) > 5 and isinstance(op[5], dict) else {}
                method = ex.get("method", "GET")
                snap = f["snaps"][j]
                hdrs = validators(form, snap)
                sent = list(hdrs.items()) if isinstance(hdrs, dict) else list(hdrs)
                if ex.get("pretty"):
                    sent = sent + [["_strip_html", True]]
                run = do_request(world, kind, side, name, sent, app_for(side), method, bool(ex.get("noise")))
                if run.exc is not None:
                    r.fail(f"C14:{side}:raised:{type(run.exc).__name__}", f"{ctx}: {run.exc!r}")
                    return r
                status = run.status_code
                mods = f["mods_since"][j]
                if mods or form not in BASIC_FORMS:
                    nontrivial = True
                if f["deleted"]:
                    # (1) for a file that is gone: nothing is "unchanged since that response", and '*' matches existing files only
                    if status == 304:
                        r.fail(f"C14:{side}:stale-304:deleted", f"{ctx}: validators {hdrs!r}; since response #{j}: ops {mods!r}; the file does not exist any more; status 304")
                    continue
                a0, m0, c0 = snap["times"]
                a1, m1, c1 = f["times"]
                size_changed = len(f["content"]) != snap["size"]
                content_changed = f["content"] != snap["content"]
                has_etag = form not in ("lastmod",) + STAR_FORMS
                desc = f"{ctx}: validators {hdrs!r}; since response #{j}: ops {mods!r}, size {snap['size']}->{len(f['content'])}, mtime {m0}->{m1}, ctime {c0}->{c1}; status {status}"
                if status not in (200, 304):
                    r.fail(f"C14:{side}:status", desc)
                    continue
                body_ok = method == "HEAD" or run.body == f["content"]
                # (4) shape of a 304
                if status == 304:
                    if run.body != b"":
                        r.fail(f"C14:{side}:304-with-body", f"{desc}: body {run.body[:30]!r}")
                    cl = run.get("content-length")
                    if cl not in (None, "0"):
                        r.fail(f"C14:{side}:304-content-length", f"{desc}: Content-Length {cl!r}")
                else:
                    # a full response carries the validators of what it delivers
                    if not run.get("etag") or run.get("last-modified") != formatdate(m1, usegmt=True):
                        r.fail(f"C14:{side}:200-validators", f"{desc}: ETag {run.get('etag')!r}, Last-Modified {run.get('last-modified')!r}, file mtime is {formatdate(m1, usegmt=True)!r}")
                if status == 200 and chain and body_ok and run.get("etag") and run.get("last-modified"):
                    remember(f, run)
                if form in STAR_FORMS:
                    if status != 304:
                        r.fail(f"C14:{side}:star-not-304", desc)
                    continue
                if form in NEAR_FORMS:
                    # the client holds other representations: a 304 would leave it with a stale one
                    if status != 200 or not body_ok:
                        r.fail(f"C14:{side}:304-for-foreign-tag", desc)
                    continue
                # (1) no stale 304
                if status == 304 and content_changed:
                    if has_etag:
                        undetectable = (not size_changed) and m1 == m0
                    else:
                        undetectable = c1 - m0 < 1.0  # the change time stays within a second of the remembered Last-Modified
                    if not undetectable:
                        r.fail(f"C14:{side}:stale-304:{form}", desc)
                # (2) fresh after change
                if has_etag:
                    must_200 = size_changed or abs(m1 - m0) >= 1.0
                else:
                    must_200 = c1 - m0 >= 1.0 and bool(mods)
                if must_200:
                    if status != 200:
                        r.fail(f"C14:{side}:not-refreshed:{form}", desc)
                    else:
                        if not body_ok:
                            r.fail(f"C14:{side}:refreshed-body", f"{desc}: body {run.body[:30]!r}")
                        if has_etag and run.get("etag") == snap["etag"]:
                            r.fail(f"C14:{side}:etag-unchanged-after-change", desc)
                        if run.get("last-modified") != formatdate(m1, usegmt=True):
                            r.fail(f"C14:{side}:refreshed-last-modified", f"{desc}: {run.get('last-modified')!r}")
                # (3) revalidation of an unchanged file
                if not mods and has_etag and status != 304:
                    r.fail(f"C14:{side}:revalidation-failed:{form}", desc)
                if status == 200 and not body_ok:
                    r.fail(f"C14:{side}:200-body", f"{desc}: body {run.body[:30]!r}")
                continue
            raise core.HarnessError(f"op {op!r}")
    finally:
        vfs.clear_times(world.dir)
    r.nontrivial = nontrivial
    r.label(f"kind={kind}", f"ops={min(len(case['ops']), 15)}")
    if shared:
        r.label("app=shared")
    if opts:
        r.label("options")
    if case.get("names"):
        r.label("layout=tree")
    for op in case["ops"]:
        if op[0] == "cond":
            r.label(f"form={op[4]}")
            ex = op[5] if len(op) > 5 and isinstance(op[5], dict) else {}
            for k in sorted(ex):
                if ex[k]:
                    r.label(f"cond:{k}={ex[k]}")
        elif op[0] in MODS or op[0] in ("delete", "access"):
            r.label(op[0])
    return r


SUBS = {"histories": oracle, "grid": oracle, "grid2": oracle, "histories2": oracle}


@st.composite
def history_case(draw):
    side = st.sampled_from(["wsgi", "asgi"])
    fidx = st.integers(0, 1)
    op = st.one_of(
        st.tuples(st.just("advance"), st.sampled_from([0, 0.3, 0.3, 1, 2, 3600, 0.75])),
        st.tuples(st.sampled_from(["rewrite_same", "rewrite_other", "touch", "restore_old"]), fidx),
        st.tuples(st.just("get"), fidx, side, st.booleans()),
        st.tuples(st.just("cond"), fidx, side, st.integers(0, 5), st.sampled_from(FORMS)),
        st.tuples(st.just("cond"), fidx, side, st.integers(0, 5), st.sampled_from(FORMS + FORMS3)),
    ).map(list)
    ops = draw(st.lists(op, min_size=2, max_size=13))
    first = ["get", 0, draw(side), False]
    return {"kind": draw(st.sampled_from(["files", "pages"])), "nfiles": draw(st.sampled_from([1, 1, 2])), "ops": [first] + ops,
            "frac": draw(st.sampled_from([0.0, 0.0, 0.25, 0.5, 0.999])), "tz": draw(st.sampled_from([None, None, "EST5EDT,M3.2.0,M11.1.0", "CST-8", "HST10", "NPT-5:45"]))}


def grid_cases():
    for kind in ("files", "pages"):
        for side in ("wsgi", "asgi"):
            for mod in (None, "rewrite_same", "rewrite_other", "touch", "restore_old"):
                for dt in (0, 0.3, 0.75, 1, 2, 3600):
                    for form in FORMS:
                        for frac in (0.25, 0.0, 0.999):
                            if frac != 0.25 and form not in ("lastmod", "both", "etag"):
                                continue
                            ops = [["get", 0, side, False], ["advance", dt]]
                            if mod:
                                ops.append([mod, 0])
                            ops.append(["cond", 0, side, 0, form])
                            yield {"kind": kind, "nfiles": 1, "ops": ops, "frac": frac}
                            if frac == 0.25 and form in ("lastmod", "both") and dt in (0, 2, 3600):
                                # the same under local zones west and east of Greenwich
                                for tz in ("EST5", "CST-8"):
                                    yield {"kind": kind, "nfiles": 1, "ops": ops, "frac": frac, "tz": tz}


@st.composite
def history2_case(draw):
    """Histories over everything `history_case` holds fixed: application lifetime, constructor options, layout and URL
    spelling, method, further operations and validator forms, chained responses."""
    side = st.sampled_from(["wsgi", "asgi"])
    kind = draw(st.sampled_from(["files", "pages"]))
    tree = draw(st.booleans())
    names = TREE_NAMES if tree else DEFAULT_NAMES
    fidx = st.integers(0, len(names) - 1)
    method = st.sampled_from(["GET", "GET", "GET", "HEAD"])
    pretty = st.booleans() if kind == "pages" else st.just(False)
    noise = st.sampled_from([False, False, True])
    cond_extra = st.fixed_dictionaries({"method": method, "pretty": pretty, "noise": noise})
    get_extra = st.fixed_dictionaries({"method": method, "noise": noise})
    op = st.one_of(
        st.tuples(st.just("advance"), st.sampled_from([0, 0.3, 0.75, 1, 1, 2, 3600, -2, 15_000_000])),
        st.tuples(st.sampled_from(list(MODS) + ["rewrite_other", "rewrite_shrink", "access", "delete"]), fidx),
        st.tuples(st.just("get"), fidx, side, pretty, get_extra),
        st.tuples(st.just("cond"), fidx, side, st.integers(0, 5), st.sampled_from(ALL_FORMS), cond_extra),
        st.tuples(st.just("cond"), fidx, side, st.integers(0, 5), st.sampled_from(ALL_FORMS), cond_extra),
    ).map(list)
    ops = draw(st.lists(op, min_size=2, max_size=13))
    first = [["get", i, draw(side), False, {"method": "GET", "noise": False}] for i in range(draw(st.integers(1, len(names))))]
    opts = draw(st.one_of(st.none(), st.fixed_dictionaries({
        "cacheability": st.sampled_from(["public", "private", "no-cache", "no-store"]),
        "max_age": st.sampled_from([0, 1, 600, 31536000]),
        "handle_404": st.booleans()})))
    case = {"kind": kind, "names": list(names), "ops": first + ops, "app": draw(st.sampled_from(["shared", "shared", "fresh"])), "chain": True,
            "frac": draw(st.sampled_from([0.0, 0.25, 0.25, 0.5, 0.999])), "tz": draw(st.sampled_from([None, None, None, "EST5EDT,M3.2.0,M11.1.0", "CST-8", "NPT-5:45"]))}
    if opts:
        case["opts"] = opts
    return case


def grid2_cases():
    """Enumerated short histories over the dimensions `grid` holds fixed (see RULES['grid2'])."""
    KS = [(kind, side) for kind in ("files", "pages") for side in ("wsgi", "asgi")]
    ALLMODS = (None,) + MODS

    def hist(side, f, pre, dt, mod, post):
        ops = list(pre) + [["advance", dt]]
        if mod:
            ops.append([mod, f])
        return ops + list(post)

    # (A) one application instance for the whole history; the .html file also through its extension-less URL
    for kind, side in KS:
        for f, pretty in ((0, False), (1, True)) if kind == "pages" else ((0, False),):
            ex = {"pretty": True} if pretty else {}
            for mod in ALLMODS:
                for dt in (0, 1, 3600):
                    for form in ("etag", "lastmod", "both", "list-middle"):
                        ops = hist(side, f, [["get", f, side, pretty], ["cond", f, side, 0, form, ex]], dt, mod,
                                   [["cond", f, side, 0, form, ex], ["get", f, side, pretty], ["cond", f, side, 1, "etag", ex]])
                        yield {"kind": kind, "nfiles": 2, "ops": ops, "app": "shared"}
    # the two interfaces side by side on one directory, each with its own long-lived instance
    for kind in ("files", "pages"):
        for mod in ALLMODS:
            for form in ("etag", "both"):
                ops = [["get", 0, "wsgi", False], ["get", 0, "asgi", False], ["advance", 2]] + ([[mod, 0]] if mod else []) + \
                      [["cond", 0, "asgi", 0, form], ["cond", 0, "wsgi", 1, form], ["get", 0, "wsgi", False], ["cond", 0, "asgi", 2, form]]
                yield {"kind": kind, "nfiles": 1, "ops": ops, "app": "shared"}
    # (B) further validator forms
    for kind, side in KS:
        for mod in (None, "rewrite_other", "rewrite_same"):
            for dt in (0, 2):
                for form in FORMS2:
                    yield {"kind": kind, "nfiles": 1, "ops": hist(side, 0, [["get", 0, side, False]], dt, mod, [["cond", 0, side, 0, form]])}
    # (C) HEAD for the remembered response, for the revalidation, for both
    for kind, side in KS:
        for mod in (None, "rewrite_other", "touch"):
            for dt in (0, 2):
                for form in ("etag", "weak", "list-last", "star", "lastmod", "both"):
                    for hg, hc in ((False, True), (True, False), (True, True)):
                        g = ["get", 0, side, False, {"method": "HEAD"}] if hg else ["get", 0, side, False]
                        c = ["cond", 0, side, 0, form, {"method": "HEAD"}] if hc else ["cond", 0, side, 0, form]
                        yield {"kind": kind, "nfiles": 1, "ops": hist(side, 0, [g], dt, mod, [c])}
    # (D) the file is deleted / deleted and created anew
    for kind, side in KS:
        for f, pretty in ((0, False), (1, True)) if kind == "pages" else ((0, False),):
            ex = {"pretty": True} if pretty else {}
            for form in FORMS + FORMS2 + ["ml2-first", "ml3-middle-weak", "ml3-last-weak-imsafter", "ml-near"]:
                yield {"kind": kind, "nfiles": 2, "ops": [["get", f, side, pretty], ["delete", f], ["cond", f, side, 0, form, ex], ["get", f, side, pretty]]}
                yield {"kind": kind, "nfiles": 2, "ops": [["get", f, side, pretty], ["advance", 2], ["delete", f], ["rewrite_other", f], ["cond", f, side, 0, form, ex],
                                                          ["get", f, side, pretty], ["cond", f, side, 1, form, ex]]}
            for app in ("shared", "fresh"):
                yield {"kind": kind, "nfiles": 2, "app": app, "opts": {"handle_404": True},
                       "ops": [["get", f, side, pretty], ["cond", f, side, 0, "star", ex], ["delete", f], ["cond", f, side, 0, "star", ex], ["cond", f, side, 0, "etag", ex],
                               ["cond", f, side, 0, "lastmod", ex], ["advance", 1], ["rewrite_same", f], ["cond", f, side, 0, "star", ex], ["cond", f, side, 0, "etag", ex]]}
    # (E) sub-directories, directory URLs (index.html) and extension-less URLs
    for kind, side in KS:
        for pretty in (False, True) if kind == "pages" else (False,):
            ex = {"pretty": True} if pretty else {}
            for f in range(len(TREE_NAMES)):
                for mod in (None, "rewrite_other", "rewrite_same"):
                    for dt in (0, 2):
                        for form in ("etag", "weak-in-list", "lastmod", "both", "star"):
                            yield {"kind": kind, "names": TREE_NAMES, "ops": hist(side, f, [["get", f, side, pretty]], dt, mod, [["cond", f, side, 0, form, ex]])}
    # (F) constructor options
    for cacheability in ("public", "private", "no-cache", "no-store"):
        for max_age, h404 in ((0, False), (600, False), (0, True)):
            opts = {"cacheability": cacheability, "max_age": max_age, "handle_404": h404}
            for kind, side in KS:
                for mod in (None, "rewrite_other"):
                    for form in ("etag", "lastmod", "both", "star"):
                        yield {"kind": kind, "nfiles": 1, "opts": opts, "ops": hist(side, 0, [["get", 0, side, False]], 0, mod, [["cond", 0, side, 0, form]])}
    # (G) one byte shorter k seconds later, zero bytes, access time only
    for kind, side in KS:
        for form in ("etag", "weak", "list-middle", "lastmod", "both"):
            for dt in (0, 0.3, 1, 2):
                for mod in ("rewrite_shrink", "truncate"):
                    yield {"kind": kind, "nfiles": 1, "ops": hist(side, 0, [["get", 0, side, False]], dt, mod, [["cond", 0, side, 0, form], ["get", 0, side, False], ["cond", 0, side, 1, form]])}
                yield {"kind": kind, "nfiles": 1, "ops": [["get", 0, side, False], ["advance", dt], ["access", 0], ["cond", 0, side, 0, form]]}
            for k in (2, 3):  # k bytes shorter after k seconds, in k steps
                ops = [["get", 0, side, False]]
                for _ in range(k):
                    ops += [["advance", 1], ["rewrite_shrink", 0]]
                yield {"kind": kind, "nfiles": 1, "ops": ops + [["cond", 0, side, 0, form]]}
            # an empty file is rewritten / touched / revalidated like any other
            yield {"kind": kind, "nfiles": 1, "ops": [["truncate", 0], ["get", 0, side, False], ["cond", 0, side, 0, form], ["advance", 2], ["touch", 0], ["cond", 0, side, 0, form],
                                                      ["get", 0, side, False], ["rewrite_other", 0], ["cond", 0, side, 1, form]]}
    # (H) chains: the validators of the 200 that answered a conditional request are replayed
    for kind, side in KS:
        for app in ("fresh", "shared"):
            for mod in ("rewrite_same", "rewrite_other", "touch", "restore_old"):
                for form in ("etag", "both", "lastmod"):
                    ops = [["get", 0, side, False], ["advance", 2], [mod, 0], ["cond", 0, side, 0, form], ["cond", 0, side, 1, form], ["cond", 0, side, 1, "weak"],
                           ["advance", 2], ["rewrite_same", 0], ["cond", 0, side, 1, form], ["cond", 0, side, 2, form], ["cond", 0, side, 0, form]]
                    yield {"kind": kind, "nfiles": 1, "ops": ops, "app": app, "chain": True}
    # (J) the remembered response is taken from a file whose three time stamps already differ (mtime set back, touched, read)
    for kind, side in KS:
        for pre in ("restore_old", "touch", "access"):
            for mod in (None, "rewrite_same", "rewrite_other", "touch"):
                for dt in (0, 2):
                    for form in ("etag", "both", "lastmod", "weak-both"):
                        yield {"kind": kind, "nfiles": 1, "ops": hist(side, 0, [["advance", 5], [pre, 0], ["get", 0, side, False]], dt, mod, [["cond", 0, side, 0, form]])}
    # (K) seasons and zones: the date validator in zones with daylight-saving rules (northern, southern, European), in their
    # winter and in their summer, after a leap day and after 2038; modification seconds or half an hour after the response
    for tz in (None, "EST5EDT,M3.2.0,M11.1.0", "AEST-10AEDT,M10.1.0,M4.1.0/3", "CET-1CEST,M3.5.0,M10.5.0/3"):
        for season in (0, 15_000_000, 1_000_000_000):
            for kind, side in KS:
                for mod in (None, "rewrite_same"):
                    for dt in (2, 1800):
                        for form in ("lastmod", "both"):
                            case = {"kind": kind, "nfiles": 1, "ops": hist(side, 0, [["advance", season], ["touch", 0], ["get", 0, side, False]], dt, mod, [["cond", 0, side, 0, form]])}
                            if tz:
                                case["tz"] = tz
                            yield case
    # (L) two files of different size and equal time stamps behind one instance: what is remembered for one must not answer for the other
    for kind, side in KS:
        for app in ("shared",):
            for mod in (None, "rewrite_same", "rewrite_other", "restore_old"):
                for form in ("etag", "both", "lastmod"):
                    ops = [["get", 0, side, False], ["get", 1, side, False], ["cond", 0, side, 0, form], ["cond", 1, side, 0, form], ["advance", 2]] + ([[mod, 0]] if mod else []) + \
                          [["cond", 1, side, 0, form], ["cond", 0, side, 0, form], ["get", 0, side, False], ["cond", 1, side, 0, "etag"], ["cond", 0, side, 1, "etag"]]
                    yield {"kind": kind, "nfiles": 2, "ops": ops, "app": app}
    # (M) the If-None-Match list on 2 and 3 header lines: own tag (strong / weak / inside a comma list) on the first, middle, last line,
    # with and without If-Modified-Since in front, between, behind; fresh and long-lived instance; also through the pretty URL and with HEAD
    for kind, side in KS:
        for form in FORMS3:
            for mod, dt in ((None, 0), ("rewrite_same", 2), ("rewrite_other", 0)):
                yield {"kind": kind, "nfiles": 1, "ops": hist(side, 0, [["get", 0, side, False]], dt, mod, [["cond", 0, side, 0, form]])}
            yield {"kind": kind, "nfiles": 1, "app": "shared", "chain": True,
                   "ops": [["get", 0, side, False], ["cond", 0, side, 0, form, {"method": "HEAD"}], ["cond", 0, side, 0, form, {"noise": True}], ["advance", 1], ["touch", 0],
                           ["cond", 0, side, 0, form], ["cond", 0, side, 1, form]]}
            if kind == "pages":
                yield {"kind": kind, "nfiles": 2, "ops": [["get", 1, side, True], ["cond", 1, side, 0, form, {"pretty": True}], ["advance", 0], ["rewrite_other", 1],
                                                          ["cond", 1, side, 0, form, {"pretty": True}]]}
    # (I) unrelated headers (some with look-alike names) around the validators
    for kind, side in KS:
        for mod in (None, "rewrite_other"):
            for form in ("etag", "both", "both-ims-first", "lastmod", "star", "near-tags"):
                yield {"kind": kind, "nfiles": 1, "ops": hist(side, 0, [["get", 0, side, False, {"noise": True}]], 0, mod, [["cond", 0, side, 0, form, {"noise": True}]])}


def run(rec, only=None):
    quick = rec.tier == "quick"
    core.drive_cases(rec, "grid", grid_cases(), oracle)
    rec.exhaustive["grid"] = True
    core.drive_cases(rec, "grid2", grid2_cases(), oracle)
    rec.exhaustive["grid2"] = True
    core.drive_hypothesis(rec, "histories", history_case(), oracle, 600 if quick else 60000)
    rec.exhaustive["histories"] = False
    core.drive_hypothesis(rec, "histories2", history2_case(), oracle, 400 if quick else 60000)
    rec.exhaustive["histories2"] = False
