"""C12 - Untrusted input never escapes as a non-HTTP error."""
from __future__ import annotations

import json
import os

from hypothesis import strategies as st

import baize.asgi as A
import baize.wsgi as W
from baize.datastructures import URL, ContentType, MediaType, QueryParams
from baize.exceptions import HTTPException
from baize.multipart import Epilogue, MultipartDecoder, NeedData
from baize.responses import FileResponseMixin
from baize.utils import parse_header

from harness import core, gateways as gw, gen, recipes, tmpfiles
from harness.core import Result
from harness.refs import multipart as mref

LEVEL = "exploration"
RULES = {
    "atheris": "thorough tier: Atheris/libFuzzer coverage-guided campaign; bytes are decoded into the same structured case and judged by the same oracle inside the target (half of the jobs start from an empty corpus, half from two small valid inputs)",
    "request": "Hypothesis: abstract requests whose header values come from per-header grammars (media types with parameters, quoted "
    "strings, HTTP dates in three formats with absurd zones/years, URLs with brackets/ports/userinfo, cookie strings, range sets, entity "
    "tags), mutations of those (truncate, duplicate a delimiter, flip a byte, 5000-digit numbers, deep nesting) and raw Latin-1 "
    "noise; paths/queries over all byte values incl. NUL, %, non-UTF-8; bodies: valid/truncated/bit-flipped JSON, urlencoded, "
    "multipart, invalid UTF-8, unknown charsets. Every accessor of wsgi.Request and asgi.Request is probed; non-trivial = a probed "
    "header is present and is not one of the canonical valid samples, or the path/query/body is non-ASCII or mutated",
    "sweep": "enumerated: every value of the per-header dictionaries (valid and hostile, plus dates at the edges of the representable range with "
    "every kind of zone; EXTRA: non-finite quality values, parameters with '=' in the value, RFC 2231 extended parameters, thousands of parameters, percent "
    "escapes and refused names in cookies, Host with default / empty / edge ports and IPv6 literals, If-Match and If-Unmodified-Since) as the only header "
    "of a request, through every request accessor",
    "body_sweep": "enumerated: every dictionary body (urlencoded incl. 100001 separators, malformed multipart incl. a good part followed by a bad one, more than 324 parts, "
    "header blocks / preambles beyond 64 KB, RFC 5987 parameters; hostile JSON incl. floats with 25-digit exponents) under its matching content type, and every "
    "codec name x bodies that decode to lone surrogates / NUL under escape codecs and UTF-7, whole and in two messages, and every urlencoded one as query string, "
    "through every request accessor",
    "sweep_apps": "enumerated: the same single-header requests aimed at an existing file, a directory and a typed route of the bundled applications (Range values "
    "also at an empty file)",
    "apps": "Hypothesis: the same hostile paths/headers against Router (one route per convertor type), Subpaths, Hosts, Files, Pages, "
    "FileResponse and their composition (Hosts -> Subpaths -> Files / Pages / Router / Subpaths; the views read request.url) on both interfaces",
    "parsers": "Hypothesis: parse_range, URL() and its properties / replace, parse_header, MediaType, ContentType, QueryParams and the event-level "
    "MultipartDecoder fed with hostile text/bytes directly",
    "cuts": "enumerated: a handful of multipart bodies (text and file parts, CRLF / LF / CR line ends, preamble, extended parameters) delivered in two pieces "
    "cut at EVERY offset and in pieces of 1, 2, 3, 5 bytes, once completely and once truncated at every offset (WSGI: input ends early; ASGI: the client "
    "disconnects before the final message), plus truncated JSON / urlencoded bodies, through form / json and close() of both Request classes",
    "pairs": "enumerated: header pairs that are only evaluated together, against an existing file through Files, Pages and FileResponse: Range x If-Range "
    "(every date of the dictionaries, the file's own and near-miss validators; GET and HEAD), If-None-Match (matching, weak, lists with empty members) x "
    "If-Modified-Since, If-Match / If-Unmodified-Since",
    "path_sweep": "enumerated: every dictionary path plus near-misses of each convertor type (several dots, lone dot, 20-digit years, short months, non-ASCII digits, "
    "4300/4301 digits), an empty file, a symbolic-link loop and a dangling link inside the served directory, through every bundled application and every "
    "request accessor; directory URLs without the final slash (the Pages redirect) x every dictionary query string and Host value; every dictionary path "
    "below every mount of the composed application; directories and files with non-ASCII Latin-1 names (with / without index.html, nested) under every byte "
    "spelling of the name (Latin-1 = invalid UTF-8 = the WSGI fallback reading, UTF-8, mixtures) x final slash x query x mounts x Host; WSGI environs without the keys PEP 3333 makes optional (QUERY_STRING absent, SCRIPT_NAME / PATH_INFO / "
    "CONTENT_* absent when empty, no client address)",
}
ASSUMPTIONS = [
    "allowed outcomes: a value, a response, HTTPException with 400 <= status < 500, ClientDisconnect, RuntimeError('Stream consumed')",
    "escapes are bucketed by (exception type, innermost baize frame file:function)",
    "values a WSGI/ASGI server itself provides (REMOTE_PORT, SERVER_PORT, scheme) are not client-controlled and are well-formed",
]

_DIR = None


def _reset():
    global _DIR
    _DIR = None


core.AFTER_FORK.append(_reset)


# Directories and files whose names are non-ASCII but Latin-1 representable.  A WSGI path whose bytes are NOT valid UTF-8 is read as
# Latin-1 by the routing / static-file code (decode_path_info's fallback), so the bytes b"/caf\xe9" name the existing directory "café":
# the only way an invalid-UTF-8 path gets past the 404 and into the redirect / file-response code.  With and without index.html, nested,
# next to files of the same kind of name (and "ü" both as directory and as "ü.html").
LATIN1_TREE = {
    "café/index.html": b"<cafe>", "café/ñ": None, "café/ñ/f.txt": b"n", "café/ö/index.html": b"<o>", "café/é.html": b"e", "café.txt": b"c",
    "ü": None, "ü/ü.txt": b"u", "ü.html": b"<u>", "ý/index.html": b"<y>", "naïve dir/index.html": b"<naive>", "plain ä": None, "plain ä/x.txt": b"x",
    "dir/ß": None, "dir/ß.html": b"<ss>",
}
# files and directories whose names contain control characters (legal on POSIX file systems; a client names them with %0A etc.):
# served as application/octet-stream (Content-Disposition is built from the name) and as known types, as directories with index page
CONTROL_TREE = {
    "line\nbreak": b"lf", "cr\rname.bin": b"cr", "tab\tname": b"tab", "esc\x1bname.zzz": b"esc", "del\x7fname": b"del", "vt\x0bfile.txt": b"vt", "nl\nx.html": b"<nl>",
    "crlf\r\nSet-Cookie: x=1": b"inj", "nl\ndir/index.html": b"<nldir>", "nl\ndir/f\n.bin": b"f", "quo\"te.bin": b"q", "back\\slash.bin": b"b", "semi;colon.bin": b"s",
}
CONTROL_PATHS = [b"/line\nbreak", b"/cr\rname.bin", b"/tab\tname", b"/esc\x1bname.zzz", b"/del\x7fname", b"/vt\x0bfile.txt", b"/nl\nx.html", b"/nl\nx", b"/crlf\r\nSet-Cookie: x=1",
                 b"/nl\ndir", b"/nl\ndir/", b"/nl\ndir/f\n.bin", b"/quo\"te.bin", b"/back\\slash.bin", b"/semi;colon.bin", b"/line\nbreak/", b"/line\nbrea", b"/static/line\nbreak", b"/p/nl\ndir"]
LATIN1_NAMES = ["café", "café/ñ", "café/ö", "café/é.html", "café/é", "café/ñ/f.txt", "café.txt", "ü", "ü/ü.txt", "ü.html", "ý", "naïve dir", "plain ä", "plain ä/x.txt", "dir/ß", "café/index.html", "café/zz", "cafe"]


def latin1_spellings(name: str):
    """Byte spellings of one name: all Latin-1 (invalid UTF-8 -> the fallback reading), all UTF-8, and - for names with two or more
    non-ASCII characters - the mixtures (some characters Latin-1, the others UTF-8: invalid UTF-8 as a whole, so the fallback reads
    the UTF-8 pairs as two Latin-1 characters each)."""
    idx = [i for i, ch in enumerate(name) if ord(ch) > 127]
    out = []
    for mask in range(1 << len(idx)) if len(idx) <= 3 else (0, (1 << len(idx)) - 1):
        b = b"".join(ch.encode("utf-8" if (i in idx and mask >> idx.index(i) & 1) else "latin-1") for i, ch in enumerate(name))
        if b not in out:
            out.append(b)
    return out


def static_dir():
    global _DIR
    if _DIR is None:
        tree = {"index.html": b"<html>", "file.txt": b"hello world", "dir/index.html": b"<dir>", "dir/a.html": b"a", "é.txt": b"e", "empty.txt": b""}
        tree.update(LATIN1_TREE)
        tree.update(CONTROL_TREE)
        _DIR = recipes.materialise(tree)
        # entries a deployed directory may contain and a client may name: a symbolic-link loop (stat -> ELOOP) and a dangling link
        for name, target in (("loop", "loop"), ("dangling", "nowhere"), ("dir/up", "../dir/up")):
            link = os.path.join(_DIR, *name.split("/"))
            if not os.path.lexists(link):
                os.symlink(target, link)
    return _DIR


def allowed(exc: BaseException) -> bool:
    if isinstance(exc, HTTPException):
        return 400 <= exc.status_code < 500
    if isinstance(exc, A.ClientDisconnect):
        return True
    if isinstance(exc, RuntimeError) and "Stream consumed" in str(exc):
        return True
    return False


def escape(r: Result, entry: str, exc: BaseException, ctx: str) -> None:
    if isinstance(exc, core.HarnessError):
        raise exc
    if allowed(exc):
        r.label("outcome=allowed-exception")
        return
    if core.baize_frame(exc) is None and not isinstance(exc, (RecursionError, MemoryError)):
        # raised entirely outside baize (by the harness itself): not a verdict
        raise core.HarnessError(f"exception outside baize in {entry}: {exc!r}") from exc
    r.fail(f"C12:escape:{core.exc_bucket(exc)}", f"{entry}: {type(exc).__name__}: {str(exc)[:200]} -- {ctx[:1200]}")
    r.label("outcome=escape")


# ------------------------------------------------------------------------------------------
# probes


def probe_url_value(v) -> None:
    """What a view or a log line does with request.referrer: read its components, print it.  (Editing such a URL with
    replace() is application logic on text the client chose, not a request accessor: `URL("////[x]/").replace(...)` raising
    ValueError is urllib's refusal of the text, like URL(text) itself - not probed.)"""
    for p in ("scheme", "netloc", "path", "query", "fragment", "hostname", "port", "username", "password"):
        getattr(v, p)
    str(v), v == "x", repr(v)


def make_environ(rq, omit=()):
    """The server model's environ; `omit` lists keys PEP 3333 lets a server leave out (QUERY_STRING when there is no query; SCRIPT_NAME and
    PATH_INFO are only ever dropped when empty)."""
    env = gw.make_environ(rq)
    for key in omit or ():
        if key in ("REMOTE_ADDR", "REMOTE_PORT") or (key in ("QUERY_STRING", "SCRIPT_NAME", "PATH_INFO", "CONTENT_TYPE", "CONTENT_LENGTH") and not env.get(key)):
            env.pop(key, None)
    return env


def probe_wsgi_request(r, rq, ctx, omit=()):
    env = make_environ(rq, omit)
    req = W.Request(env)
    for name in ("method", "url", "headers", "query_params", "cookies", "content_type", "content_length", "accepted_types", "date", "referrer", "client", "path_params"):
        try:
            v = getattr(req, name)
            if name == "url":
                for p in ("scheme", "netloc", "path", "query", "fragment", "username", "password", "hostname", "port"):
                    getattr(v, p)
                str(v), repr(v)
            if name == "referrer" and v is not None:
                probe_url_value(v)
            if name == "accepted_types":
                [str(t) for t in v]
                req.accepts("text/html")
                req.accepts("application/json; q=1")
            if name == "content_type":
                str(v), v == "x"
            if name == "query_params":
                v.multi_items(), str(v)
        except Exception as exc:  # noqa: BLE001
            escape(r, f"wsgi.Request.{name}", exc, ctx)
    for order in (("json", "form", "body"), ("form", "body", "json")):
        env = make_environ(rq, omit)
        req = W.Request(env)
        for name in order:
            try:
                v = getattr(req, name)
                if name == "form":
                    for _, item in v.multi_items():
                        if not isinstance(item, str):
                            item.read()
            except Exception as exc:  # noqa: BLE001
                escape(r, f"wsgi.Request.{name}", exc, ctx)
        try:
            req.close()
        except Exception as exc:  # noqa: BLE001
            escape(r, "wsgi.Request.close", exc, ctx)
    env = make_environ(rq, omit)
    try:
        list(W.Request(env).stream())
    except Exception as exc:  # noqa: BLE001
        escape(r, "wsgi.Request.stream", exc, ctx)


def probe_asgi_request(r, rq, ctx):
    async def go():
        scope = gw.make_scope(rq)
        req = A.Request(scope)
        for name in ("method", "url", "headers", "query_params", "cookies", "content_type", "content_length", "accepted_types", "date", "referrer", "client", "path_params"):
            try:
                v = getattr(req, name)
                if name == "url":
                    for p in ("scheme", "netloc", "path", "query", "fragment", "username", "password", "hostname", "port"):
                        getattr(v, p)
                    str(v), repr(v)
                if name == "referrer" and v is not None:
                    probe_url_value(v)
                if name == "accepted_types":
                    [str(t) for t in v]
                    req.accepts("text/html")
                if name == "query_params":
                    v.multi_items(), str(v)
            except Exception as exc:  # noqa: BLE001
                escape(r, f"asgi.Request.{name}", exc, ctx)
        for order in (("json", "form", "body"), ("form", "body", "json"), ("stream",)):
            chunks = list(rq.get("body") or [b""])
            script = [{"type": "http.request", "body": c, "more_body": i < len(chunks) - 1} for i, c in enumerate(chunks)]
            it = iter(script)

            async def receive():
                try:
                    return dict(next(it))
                except StopIteration:
                    return {"type": "http.disconnect"}

            req = A.Request(gw.make_scope(rq), receive)
            for name in order:
                try:
                    if name == "stream":
                        [c async for c in req.stream()]
                    else:
                        v = await getattr(req, name)
                        if name == "form":
                            for _, item in v.multi_items():
                                if not isinstance(item, str):
                                    await item.aread()
                except Exception as exc:  # noqa: BLE001
                    escape(r, f"asgi.Request.{name}", exc, ctx)
            try:
                await req.close()
            except Exception as exc:  # noqa: BLE001
                escape(r, "asgi.Request.close", exc, ctx)

    gw.run_sync(go())


class _Ctx:
    """Description of the request for failure messages, rendered only when a failure is reported (bodies can be 100 KB)."""

    def __init__(self, rq) -> None:
        self.rq = rq

    def __str__(self) -> str:
        return f"request {core.to_jsonable(self.rq)!r}"

    def __getitem__(self, sl):
        return str(self)[sl]


def oracle_request(case) -> Result:
    r = Result()
    rq = case["request"]
    ctx = _Ctx(rq)
    r.nontrivial = bool(case.get("hostile"))
    for lab in case.get("labels", []):
        r.label(lab)
    probe_wsgi_request(r, rq, ctx, case.get("omit_environ"))
    probe_asgi_request(r, rq, ctx)
    if not r.failures:
        r.label("outcome=clean")
    r.weight = 2
    return r


def _ok_app(side):
    if side == "wsgi":

        def app(environ, start_response):
            req = W.Request(environ)
            _ = req.path_params
            _ = req.url, req.query_params  # what a view behind a router / mount typically looks at first
            start_response("200 OK", [])
            return [b"ok"]

        return app

    async def app(scope, receive, send):
        req = A.Request(scope, receive, send)
        _ = req.path_params
        _ = req.url, req.query_params
        await send({"type": "http.response.start", "status": 200, "headers": []})
        await send({"type": "http.response.body", "body": b"ok"})

    return app


def build_apps(side):
    M = W if side == "wsgi" else A
    ok = _ok_app(side)
    d = static_dir()
    return {
        "router": M.Router(("/s/{p}", ok), ("/i/{p:int}", ok), ("/d/{p:decimal}", ok), ("/u/{p:uuid}", ok), ("/t/{p:date}", ok), ("/a/{p:any}", ok),
                           ("/{a:int}-{b:date}.{c:decimal}", ok), ("/", ok)),
        "subpaths": M.Subpaths(("/s", ok), ("/é", ok), ("", ok)),
        "hosts": M.Hosts((r"(www\.)?example\.com", ok), (r".*\.example\.org(:\d+)?", ok)),
        "files": M.Files(d),
        "pages": M.Pages(d),
        "fileresponse": lambda: M.FileResponse(os.path.join(d, "file.txt"), chunk_size=4),
        # the same applications composed the way they are deployed: host dispatch -> mounts -> static files / pages / typed routes / a mount in a mount
        "nested": M.Hosts((r".*", M.Subpaths(
            ("/static", M.Files(d)), ("/p", M.Pages(d)),
            ("/r", M.Router(("/i/{p:int}", ok), ("/d/{p:decimal}", ok), ("/t/{p:date}", ok), ("/u/{p:uuid}", ok), ("/s/{p}", ok), ("/a/{p:any}", ok), ("/", ok))),
            ("/\xe9", M.Subpaths(("/x", M.Pages(d)), ("", ok))), ("", ok)))),
    }


def oracle_apps(case) -> Result:
    r = Result()
    rq = case["request"]
    ctx = _Ctx(rq)
    r.nontrivial = bool(case.get("hostile"))
    for lab in case.get("labels", []):
        r.label(lab)
    for side in ("wsgi", "asgi"):
        apps = build_apps(side)
        for name, app in apps.items():
            if case.get("apps") and name not in case["apps"]:
                continue
            if name == "fileresponse":
                try:
                    app = app()
                except Exception as exc:  # noqa: BLE001
                    escape(r, f"{side}.FileResponse()", exc, ctx)
                    continue
            run = gw.run_wsgi(app, make_environ(rq, case.get("omit_environ"))) if side == "wsgi" else gw.call_asgi(app, rq)
            if run.exc is not None:
                escape(r, f"{side}.{name}", run.exc, ctx)
            elif run.status_code is not None and run.status_code >= 500:
                r.fail(f"C12:{side}:{name}:answered-{run.status_code}", ctx)
    if not r.failures:
        r.label("outcome=clean")
    r.weight = 2 * len(case["apps"]) if case.get("apps") else 14
    return r


def oracle_parsers(case) -> Result:
    r = Result()
    kind, text = case["kind"], case["text"]
    ctx = f"{kind}({text!r})"
    r.nontrivial = True
    r.label(f"kind={kind}")
    try:
        if kind == "range":
            FileResponseMixin.parse_range(text, case.get("size", 100))
        elif kind == "url":
            try:
                u = URL(text)
            except ValueError:
                # urlsplit's documented contract for text that is not a URL; the application called
                # URL() on a string of its own choice - not one of the request accessors
                r.label("outcome=url-ctor-valueerror")
                return r
            try:
                u.port
            except ValueError:
                # same contract, parsed lazily: urlsplit reports an unusable port only when it is read; repr() / replace() of such
                # a URL read it.  For text the application passes itself that is allowed (request.referrer must not hand it out).
                r.label("outcome=url-port-valueerror")
                return r
            for p in ("scheme", "netloc", "path", "query", "fragment", "username", "password", "hostname"):
                getattr(u, p)
            str(u), u == text, repr(u)
        elif kind == "parse_header":
            parse_header(text)
            MediaType(text).match("text/html")
            str(MediaType(text)), str(ContentType(text)), repr(ContentType(text))
        elif kind == "query":
            q = QueryParams(text)
            str(q), q.multi_items(), repr(q)
            QueryParams(text.encode("latin-1", "replace"))
        elif kind == "multipart":
            data = text.encode("latin-1", "replace") if isinstance(text, str) else text
            dec = MultipartDecoder(case.get("boundary", "b").encode("latin-1", "replace"), case.get("charset", "utf-8"))
            step = max(case.get("chunk", 7), len(data) // 200)  # at most 200 chunks: the preamble scan is quadratic in the chunk count
            for i in range(0, len(data), step):
                dec.receive_data(data[i:i + step])
                while True:
                    ev = dec.next_event()
                    if isinstance(ev, (NeedData, Epilogue)):
                        break
            dec.receive_data(None)
            for _ in range(1000):
                ev = dec.next_event()
                if isinstance(ev, Epilogue):
                    break
        else:
            raise core.HarnessError(kind)
        r.label("outcome=value")
    except Exception as exc:  # noqa: BLE001
        escape(r, kind, exc, ctx)
    return r


def oracle_cuts(case) -> Result:
    """One body, one partition, one accessor (form / json) on both Request classes.  `truncated`: the body ends
    early - the WSGI input simply runs dry, the ASGI client disconnects before the final message (the documented
    ClientDisconnect is then an allowed outcome, like everywhere else)."""
    r = Result()
    chunks = [bytes(c) for c in case["chunks"]]
    accessor = case.get("accessor", "form")
    truncated = bool(case.get("truncated"))
    rq = gw.areq(method="POST", headers=[["Content-Type", case["ctype"]]], body=chunks, query=b"", path_bytes=b"/", path="/")
    ctx = f"{accessor} of {core.to_jsonable(chunks)!r} under {case['ctype']!r}" + (" then EOF / disconnect" if truncated else "")
    r.nontrivial = True
    for lab in case.get("labels", []):
        r.label(lab)

    req = W.Request(gw.make_environ(rq))
    try:
        v = getattr(req, accessor)
        if accessor == "form":
            for _, item in v.multi_items():
                if not isinstance(item, str):
                    item.read()
    except Exception as exc:  # noqa: BLE001
        escape(r, f"wsgi.Request.{accessor}", exc, ctx)
    try:
        req.close()
    except Exception as exc:  # noqa: BLE001
        escape(r, "wsgi.Request.close", exc, ctx)

    async def go():
        parts = chunks or [b""]
        script = [{"type": "http.request", "body": c, "more_body": truncated or i < len(parts) - 1} for i, c in enumerate(parts)]
        it = iter(script)

        async def receive():
            try:
                return dict(next(it))
            except StopIteration:
                return {"type": "http.disconnect"}

        areq_ = A.Request(gw.make_scope(rq), receive)
        try:
            v = await getattr(areq_, accessor)
            if accessor == "form":
                for _, item in v.multi_items():
                    if not isinstance(item, str):
                        await item.aread()
        except Exception as exc:  # noqa: BLE001
            escape(r, f"asgi.Request.{accessor}", exc, ctx)
        try:
            await areq_.close()
        except Exception as exc:  # noqa: BLE001
            escape(r, "asgi.Request.close", exc, ctx)

    gw.run_sync(go())
    if not r.failures:
        r.label("outcome=clean")
    r.weight = 2
    return r


def oracle_both(case) -> Result:
    """The bundled applications and the request accessors for the same request (path sweep)."""
    r = oracle_apps(case)
    if case.get("apps_only"):
        return r
    r2 = oracle_request(case)
    r.failures.extend(r2.failures)
    r.labels.extend(lab for lab in r2.labels if lab.startswith("outcome="))
    r.weight += r2.weight
    return r


SUBS = {"request": oracle_request, "apps": oracle_apps, "parsers": oracle_parsers, "sweep": oracle_request, "sweep_apps": oracle_apps, "body_sweep": oracle_request,
        "cuts": oracle_cuts, "pairs": oracle_apps, "path_sweep": oracle_both}

# ------------------------------------------------------------------------------------------
# generators

_noise = st.text(alphabet=st.characters(min_codepoint=0, max_codepoint=255), max_size=12)
_digits = st.sampled_from(["0", "1", "10", "-1", "9" * 30, "9" * 5000, "١٢", "1e5", "0x10", " 5", "5 ", ""])

VALID = {
    "Accept": ["*/*", "text/html,application/xhtml+xml;q=0.9,*/*;q=0.8", "application/json"],
    "Content-Type": ["application/json", "application/x-www-form-urlencoded", 'multipart/form-data; boundary="b"', "text/plain; charset=utf-8"],
    "Content-Length": ["0", "12"],
    "Cookie": ["a=1; b=2", 'k="quoted value"; x=y'],
    "Date": ["Wed, 21 Oct 2015 07:28:00 GMT", "Sunday, 06-Nov-94 08:49:37 GMT", "Sun Nov  6 08:49:37 1994"],
    "Referer": ["https://example.org/a?b=1", "/relative/path"],
    "Host": ["example.com", "example.com:8080", "[::1]:8000"],
    "Range": ["bytes=0-4", "bytes=-5", "bytes=0-1,3-4"],
    "If-Range": ['"abc"', "Wed, 21 Oct 2015 07:28:00 GMT"],
    "If-None-Match": ['"abc"', 'W/"abc", "def"', "*"],
    "If-Modified-Since": ["Wed, 21 Oct 2015 07:28:00 GMT"],
    "Transfer-Encoding": ["chunked"],
}

HOSTILE = {
    "Accept": ["", ",", ";", "text/html;q=", "a/b;c=\"", "*/*;" + "q=1;" * 200, "/", "text", "text/;q=x", "\xff/\xff", "a" * 3000],
    "Content-Type": ["", ";", "application/json; charset=", "application/json; charset=nope", "application/json; charset=utf-16", "application/json;charset=\"",
                     "multipart/form-data", "multipart/form-data; boundary=", 'multipart/form-data; boundary="', "multipart/form-data; boundary=\xff; charset=nope",
                     "application/x-www-form-urlencoded; charset=nope", "application/x-www-form-urlencoded; charset=utf-8", "application/x-www-form-urlencoded;charset=utf-16",
                     "multipart/form-data; boundary=b; charset=utf-16", "application/json; charset=idna", "application/json; charset=unicode_escape",
                     "application/x-www-form-urlencoded; charset=undefined", "application/json; charset=zlib", "multipart/form-data; boundary=b; charset=hex"],
    "Content-Length": ["-1", "abc", "9" * 5000, "1.5", "١٢", "", " ", "0x10", "1e3", "٣",
                       # announced lengths that are integers but fit no machine word / no buffer: what a reader is asked for must stay sane
                       str(2**63 - 1), str(2**63), str(2**64), "1" + "0" * 19, "9" * 30, "9" * 4300, "0" * 40 + "5", "+5", "5_0", "00"],
    "Cookie": ["", ";", "=", "a", "a=\"", "a=\\", "a=\"\\", "a=\"\\07", "a=\"\\9\"", "=;=;", ";" * 300, "a=\xff", "a=" + "\\" * 99, 'a="\\"', "a=1; " * 1500, ";" * 3000, "=" * 3000, "a=" + "\\" * 2001, 'a="' + "\\0" * 1500 + '"'],
    "Date": ["Wed, 21 Oct 2015 07:28:00 -0000", "Wed, 21 Oct 2015 07:28:00", "Wed, 21 Oct 2015 07:28:00 XYZ", "", "x", "Wed, 21 Oct 2015 07:28:00 +9999999999", "Wed, 21 Oct 99999 07:28:00 GMT", "Wed, 32 Oct 2015 07:28:00 GMT", "0", "Wed, 21 Oct 2015 25:61:61 GMT",
             "Wed, 21 Oct 2015 07:28:00 -" + "9" * 50, "21 Oct 0000 00:00:00 GMT", "Wed, 21 Oct 2015 07:28:00 GMT" * 10, "1 Jan 1 0:0:0 +9999", "Thu, 01 Jan 1970 00:00:00 -2400",
             "Mon, 01 Jan 0001 00:00:00 +0100", "Fri, 31 Dec 9999 23:59:59 -0100", "\x00", "Wed, 21 Oct 2015 07:28:00 " + "9" * 400],
    "Referer": ["http://a:b@/", "http://a:b@@/x", "http://:@:/", "http://u@:80/", "http://[", "http://[::1", "http://]", "//[x]/", "http://a:b/", "http://a:99999999/", "http://[::1]:x/", "\x00", "http://\xff/", "http://a@b@c:d/", "http://[v1.x]/", "http://[::1]x/"],
    "Host": ["[", "]", "[::1", "a:b", "a:99999999999", ":", "", "a b", "\xff", "[::1]x", "a" * 3000, "a:-1", "[v1.x]", "a/b?c#d", "a@b", "http://x"],
    "Range": ["bytes=", "bytes=a-b", "bytes=" + "9" * 5000 + "-", "bytes=-" + "9" * 5000, "bytes=٣-٥", "=", "bytes", "bytes=0-" + "1" * 5000, "bytes=--1", "bytes=1-2-3", "bytes=" + "0-0," * 3000 + "0-0"],
    "If-Range": ["", "x", "\xff", '"', "W/"],
    "If-None-Match": ["", ",", '"', "W/", "W/W/", ",,,", "\xff", "*,*"],
    "If-Modified-Since": ["Wed, 21 Oct 2015 07:28:00 -0000", "Wed, 21 Oct 2015 07:28:00", "Wed, 21 Oct 2015 07:28:00 XYZ", "21 Oct 2015 07:28 -00", "Wed, 21 Oct 2015 07:28:00 UT",
                          "Wednesday, 21-Oct-15 07:28:00 GMT", "Wed Oct 21 07:28:00 2015", "", "x", "Wed, 21 Oct 2015 07:28:00 +9999999999", "Wed, 21 Oct 99999 07:28:00 GMT", "1 Jan 1 0:0:0 -9999", "Mon, 01 Jan 0001 00:00:00 +0100",
                          "Fri, 31 Dec 9999 23:59:59 -0100", "Wed, 21 Oct 2015 07:28:00 " + "9" * 400, "Thu, 01 Jan 1970 00:00:00 GMT", "Wed, 31 Dec 1969 00:00:00 GMT"],
    "Transfer-Encoding": ["", "Chunked", "gzip, chunked"],
}


# quoted cookie values with every kind of backslash escape a client can type: octal-looking digits that are not octal
# (8, 9), values above \\377, short and long digit runs, escapes of escapes
import itertools as _it

HOSTILE["Cookie"] += ['a="\\%s"' % "".join(t) for t in _it.product("0389", repeat=3)] + [
    'a="\\8"', 'a="\\18"', 'a="x\\189y"', 'id="price\\099"; b="\\800"', 'a="\\\\\\189"', 'a="\\477"', 'a="\\777"', 'a="\\0000"', 'a="\\1234567890"', 'a="\\x41"', 'a="\\u0041"',
    'a="\\"; b="\\999"', 'a="\\\xff"', 'a="\\12\xe9"', "a=\\189", 'a="\\٣٣٣"'.encode("utf-8").decode("latin-1"), 'a="\\²³¹"'.encode("latin-1").decode("latin-1")]


CODEC_NAMES = ["undefined", "punycode", "idna", "hex", "hex_codec", "base64", "zlib", "bz2", "rot13", "quopri", "uu", "unicode_escape", "raw_unicode_escape", "utf-16", "utf-32", "utf-7",
               "utf-8-sig", "cp037", "mbcs", "oem", "nope", "", " ", "utf-8\x00", "\x00", "latin-1", "ascii", "charmap", "palmos", "big5", "shift_jis", "iso2022_jp", "hz", "unicode_internal", "string_escape",
               "a" * 300, "utf_8;x", "\xe9"]


# Further dictionary values.  They live apart from VALID / HOSTILE because the Atheris target (fuzz/targets.py) indexes those two
# tables when it decodes stored inputs: their keys and list lengths must stay as they are for the committed replays to keep their meaning.
# EXTRA values are swept exhaustively (sweep / sweep_apps) and drawn by the random requests like the HOSTILE ones.
EXTRA = {
    # quality values that are numbers but not finite / not small, parameters whose value contains '=', thousands of (empty) parameters
    # and members (an 8 KB header line is what common servers accept)
    "Accept": ["text/html;q=inf", "text/html;q=1e999", "text/html;q=-inf", "text/html;q=nan", "text/html;q=-1", "text/html;q=1e-999", "*/*;q=٣", "text/html;q=Infinity, */*;q=0.1",
               'text/html;q="0.5"', "text/html; q = 0.5", "text/html;q=0x1p3", "text/html;q=1_0", ";" * 8000, "," * 8000, "a/b" + ";c=d" * 2000, 'a/b;c="d=e"', "a/b;c=d=e", "a/b;c==",
               "a/b;=", "a/b/c", "a/b;c", 'a/b;c="' + ";" * 4000, "*/*, " * 1500 + "a/b", "text/html;q*=utf-8''0.5", "text/html;q*0=0;q*1=.5", "text/html;level*=nope'x'%ff"],
    "Content-Type": ['multipart/form-data; boundary="a=b"', "multipart/form-data; boundary=----x==", "multipart/form-data; boundary=b=", "application/json; charset=utf-8=x",
                     "application/json; charset==", ";" * 8000, "application/json" + ";a=b" * 2000, "application/x-www-form-urlencoded" + ";" * 8000, 'multipart/form-data; boundary=b' + ";x" * 4000,
                     'application/json; charset="utf-8"', 'application/json; charset=" utf-8"', "Application/JSON", "application/json ;charset=utf-8", "application/json;charset",
                     'multipart/form-data; boundary=b; boundary=c', "multipart/form-data; BOUNDARY=b", 'multipart/form-data; boundary="b\\"', "multipart/form-data; boundary=" + "b" * 3000,
                     "application/x-www-form-urlencoded; charset=utf-8; charset=nope", "application/json; charset=utf-8-sig", "application/json; charset=utf_8", "application/json; charset=UTF8",
                     # RFC 2231 extended / continued parameters (stdlib header parsers hand these out as tuples)
                     "multipart/form-data; boundary*=utf-8''b", "multipart/form-data; boundary*0=b; boundary*1=c", "multipart/form-data; boundary=b; charset*=utf-8''utf-8", "application/json; charset*=utf-8''utf-8",
                     "application/json; charset*=nope''%ff", "application/x-www-form-urlencoded; charset*0*=utf-8''utf; charset*1=-8", "multipart/form-data; boundary*=''", "multipart/form-data; boundary*=x"],
    # percent escapes, names the stdlib cookie jar refuses, reserved attribute names, values with '=', two headers joined by the server
    "Cookie": ["a=%ff", "a=%", "a=%zz", "a=%E4%B8", "%ff=1", "a=%00", "a=%u00e9", 'a="%ff"', "a=%25ff", "a(b=1", "a,b=1", "a/b=1", "a@b=1", "\xe9=1", "a b=1", "a[0]=1", "a{b}=1", "a:b=1", "a\\b=1",
               "$Version=1; a=1; $Path=/", "path=/; a=1", "expires=x; max-age=y; a=1", "domain=; secure; httponly", "a=b=c", "a==", "a=1;;b=2", 'a="b;c"', "a=1, b=2", "a=1,b=2; c", "a=\t1", "=a", "a=1; a=2; A=3",
               "a=" + "%ff" * 1000, 'a="\\\\\\""', "a=\x7f", "a=\x00"],
    # the scheme's default port, empty port, IPv6 literals with and without port / zone, ports at the edges, upper case, trailing dot
    "Host": ["[::1]:80", "example.com:80", "[::1]:443", "[::1]:", "example.com:", "EXAMPLE.COM:080", "[::ffff:1.2.3.4]:80", "example.com:0", "example.com:65535", "example.com:65536", "[fe80::1%25eth0]:80",
             "[fe80::1%eth0]", "[::1]", "[::]:80", "example.com.:80", "example.com:00080", "example.com:80:80", "[::1]:80x", "[::1]80", "[:80", "1.2.3.4:80", "xn--nxasmq6b.example:80", "\xe9.example:80",
             "example.com:\u0663".encode("utf-8").decode("latin-1"), "example.com, example.org", "example.com:80, example.com:80"],
    "Range": ["bytes=5-4", "bytes=-0", "bytes=0-0", "bytes=10-", "bytes=11-", "bytes=0-10", "bytes=0-11", "bytes= 0-4", "bytes=0 - 4", "BYTES=0-4", "bytes=0-4,", "bytes=,", "bytes=0-4;q=1", "bytes=\xb2-\xb3",
              "bytes=0-1,3-4,6-7,9-10", "bytes=9-10,0-1", "bytes=0-0,-1", "bytes==0-4", "bytes=0-4=", "items=0-4"],
    "If-None-Match": ['""', '" "', "W/\"\"", "w/\"abc\"", '"abc', 'abc"', '"a","b"' * 500, "*" * 3000, "W/" * 1500, '"\\""', "W/*", " , ,", '"abc"; x'],
    "Referer": ["http://a:b@[::1]x/", "http://u@[::]y/", "//a:b@[::1]x", "http://a:b@[::1]x:80/", "////[x]/", "////[", "x:////a:b/", "http://a:b@h:80/", "http://a:b@[::1]:80/", "http://a:b@h:/", "http://:b@h/", "http://a:@h/", "http://a%40b:c%3Ad@h/", "http://a:b:c@h/", "//a:b@h", "a:b@h", "http://a:" + "b" * 3000 + "@h/",
                "http://\xe9:\xe9@\xe9/", "http://a:b@h/?x=y#z", "http://a:b@H:080/",
                # user info together with a port urlsplit cannot convert (repaired by 285eec6: such a Referer is no URL; regression reg-referer-unusable-port)
                "http://a:b@h:99999/", "http://a:b@h:x/", "http://a:b@h:-1/", "http://a:b@[::1]:65536/", "http://:x@b@c:d/", "http://u@h:99999/", "http://h:99999/", "//a:b@h:65536", "http://a:b@h:\xb2/",
                "http://a:b@h: 80/", "http://a:b@h:80 /", "http://a:b@h:+80/", "http://a:b@h:8_0/"],
}
# conditional headers no baize code looks at today; an application in front of the files may well (and a change that starts to must be seen)
EXTRA_NAMES = {
    "If-Match": ["", " ", "*", '"abc"', "x", ",", 'W/"abc"', "\xff", '"a", "b"', "* , *"],
    "If-Unmodified-Since": ["", " ", "x", "Wed, 21 Oct 2015 07:28:00 GMT", "Wed, 21 Oct 2015 07:28:00 -" + "9" * 50, "Fri, 31 Dec 9999 23:59:59 -0100", "Wed, 21 Oct 2015 07:28:00", "0"],
}


_LONG_EXTRA = {v for vs in EXTRA.values() for v in vs if len(v) > 1000}


def pool(name: str, valid: bool = True):
    """All dictionary values of one header name."""
    if name in EXTRA_NAMES:
        return list(EXTRA_NAMES[name])
    return (list(VALID[name]) if valid else []) + list(HOSTILE[name]) + list(EXTRA.get(name, []))


def mutate(draw, s: str) -> str:
    kind = draw(st.integers(0, 7))
    if not s:
        return draw(_noise)
    i = draw(st.integers(0, len(s) - 1))
    if kind == 0:
        return s[:i]
    if kind == 1:
        return s[:i] + s[i] * 3 + s[i + 1:]
    if kind == 2:
        return s[:i] + chr((ord(s[i]) ^ (1 << draw(st.integers(0, 7)))) & 0xFF) + s[i + 1:]
    if kind == 3:
        return s[:i] + draw(_digits) + s[i:]
    if kind == 4:
        return s + draw(st.sampled_from([";", ",", "=", '"', "\\", " ", "\t", "\x00", "%", "[", "]", ":"]))
    if kind == 5:
        return s[:i] + draw(_noise) + s[i:]
    if kind == 6:
        # (EXTRA values that are already an 8 KB header line are only doubled: servers refuse header lines far below 400 KB, and
        # `_parseparam` copies the rest of the line once per parameter - a cost issue, not this property)
        return s * (draw(st.sampled_from([2, 50])) if s not in _LONG_EXTRA else 2)
    return draw(st.sampled_from(["(" * 1000, "[" * 100000, "9" * 5000]))


PATHS = [b"/", b"", b"/file.txt", b"/dir/", b"/dir", b"/\xff", b"/\xc3", b"/\xe4\xb8", b"/\x00", b"/a\x00b", b"/" + b"a" * 300, b"/" + b"a/" * 200, b"/%", b"/%zz", b"/..",
                     b"/../../etc/passwd", b"/file.txt/x", b"/file.txt/", b"/i/" + b"9" * 5000, b"/i/\xd9\xa3", b"/t/2021-13-45", b"/t/0000-00-00", b"/d/1x2", b"/d/1.", b"/d/" + b"9" * 400 + b"." + b"9" * 400,
                     b"/u/00000000-0000-0000-0000-000000000000", b"/u/" + b"g" * 36, b"/1-2021-02-30.5", b"/s/\xff", b"/a/\n", b"/\xc3\xa9.txt", b"/\xc3\xa9", b"/s", b"//", b"/a?b#c", b"*", b"http://x/y",
                     b"/dir/\xff.html", b"/index.html/", b"/." * 100, b"/\\..\\", b"/C:\\x"]
# near-misses of every convertor type, deployment oddities of the served directory, directory URLs without the final slash
PATHS_EXTRA = [
    b"/d/1.2.3", b"/d/.", b"/d/..", b"/d/1..2", b"/d/.5", b"/d/5.", b"/d/1.5.", b"/d/" + b"9" * 5000 + b".5", b"/d/0." + b"0" * 5000, b"/d/1e5", b"/d/1E+5", b"/d/-1.5", b"/d/+1.5", b"/d/1,5", b"/d/1_0.5",
    b"/d/\xd9\xa3.\xd9\xa3", b"/d/NaN", b"/d/Infinity", b"/d/1.5/", b"/d/" + b"." * 300,
    # number spellings a convertor might start to accept: scientific notation with exponents beyond what Decimal / float / int take
    b"/d/1e1000000000000000000", b"/d/10e999999999999999999", b"/d/1e-99999999999999999999999999", b"/d/0.0e" + b"9" * 5000, b"/d/1E" + b"9" * 30, b"/d/1e+" + b"9" * 25,
    b"/d/1.5e400", b"/d/1e309", b"/d/-0e" + b"9" * 40, b"/d/sNaN123", b"/d/inf", b"/d/-Infinity", b"/d/0x1p5", b"/d/1__0", b"/d/\xef\xbc\x91.5",
    b"/i/1e5", b"/i/1e" + b"9" * 30, b"/i/0x" + b"f" * 5000, b"/i/0b1", b"/i/1_000", b"/i/+" + b"9" * 5000, b"/i/-0", b"/i/\xe0\xa5\xa7",
    *CONTROL_PATHS,
    b"/t/2021-02-30", b"/t/+2021-03-07", b"/t/2021-W10-1", b"/t/20210307", b"/t/2021-03-07T00:00", b"/t/10000-01-01", b"/t/" + b"9" * 30 + b"-01-01",
    b"/i/-1", b"/i/+1", b"/i/1_0", b"/i/ 1", b"/i/1 ", b"/i/0x10", b"/i/" + b"9" * 4300, b"/i/" + b"9" * 4301, b"/i/" + b"0" * 5000, b"/i/1.0", b"/i/\xc2\xb2", b"/i/\xef\xbc\x91", b"/i/1\n", b"/i/",
    b"/t/" + b"9" * 20 + b"-01-01", b"/t/99999-01-01", b"/t/10000-01-01", b"/t/2021-1-1", b"/t/2021-01-1", b"/t/2021-02-30", b"/t/2021-02-29", b"/t/2020-02-29", b"/t/9999-12-31", b"/t/0001-01-01", b"/t/2021-00-10",
    b"/t/2021-10-00", b"/t/2021-99-99", b"/t/\xd9\xa2\xd9\xa0\xd9\xa2\xd9\xa1-\xd9\xa0\xd9\xa3-\xd9\xa0\xd9\xa7", b"/t/2021-03-07T00:00", b"/t/2021-03-07\n", b"/t/2021-" + b"9" * 30 + b"-07", b"/t/2021-03-" + b"9" * 30,
    b"/t/20210307", b"/t/2021/03/07", b"/t/-2021-03-07", b"/t/2021--3-07",
    b"/u/00000000-0000-0000-0000-00000000000G", b"/u/00000000-0000-0000-0000-00000000000", b"/u/0000000000000000000000000000000000000", b"/u/" + b"-" * 36, b"/u/{00000000-0000-0000-0000-000000000000}",
    b"/u/urn:uuid:00000000-0000-0000-0000-000000000000", b"/u/ABCDEF00-0000-0000-0000-000000000000", b"/u/00000000-0000-0000-0000-000000000000\n", b"/u/" + b"f" * 5000,
    b"/1-2021-02-03.1.2.3", b"/1-2021-02-03.", b"/" + b"9" * 5000 + b"-2021-02-03.5", b"/1-" + b"9" * 20 + b"-02-03.5", b"/1-2021-02-03.5.", b"/-2021-02-03.5", b"/1-2021-02-03", b"/1--.", b"/1-2021-2-3.4",
    b"/a/" + b"x" * 5000, b"/s/" + b"x" * 5000, b"/s/a/b", b"/s/", b"/a/", b"/a", b"/s/%", b"/s/?", b"/s/#",
    b"/loop", b"/loop/", b"/loop/x", b"/loop.html", b"/dangling", b"/dangling/", b"/dangling/x", b"/dir/up", b"/dir/up/x", b"/dir/up/", b"/empty.txt", b"/empty.txt/", b"/empty",
    b"/dir/.", b"/dir/..", b"/dir//", b"//dir", b"/dir/../dir", b"/dir/./", b"/./dir", b"/dir/index.html", b"/dir/index.html/", b"/dir/index", b"/dir/a", b"/dir/a.html", b"/dir/a.html.html", b"/index", b"/index.html.html",
    b"/\xc3\xa9/x", b"/\xc3\xa9/", b"/s/\xc3\xa9", b"/\xc3\xa9.txt/", b"/\xe9.txt", b"/e\xcc\x81.txt", b"/file.txt\x00", b"/file.txt\x00.html", b"/file.TXT", b"/file.txt.", b"/file.txt ", b"/ file.txt",
    b"/s/\xe4\xb8\xad", b"/\xc3\xa9/\xe4\xb8\xad", b"/a/\xf0\x9f\x98\x80", b"/dir/\xe4\xb8\xad", b"/\xe4\xb8\xad", b"/\xe4\xb8\xad/", b"/s/\xed\xa0\x80", b"/s/\xc0\xaf", b"/\xef\xbb\xbfdir/",
    b"/" + b"\xc3\xa9" * 128, b"/" + b"a" * 251, b"/" + b"a" * 255, b"/" + b"a" * 256, b"/" + b"a/" * 2100, b"/dir/" + b"a" * 250, b"/" + b"../" * 50 + b"etc/passwd", b"/%2e%2e/", b"/..%2f", b"/~", b"/~root",
]
_paths = st.one_of(
    st.sampled_from(PATHS),
    st.sampled_from(PATHS_EXTRA),
    st.binary(max_size=20).map(lambda b: b"/" + b),
)
_queries = st.one_of(
    st.sampled_from([b"&" * 1500, b"a=1&" * 1200, b";" * 1500, b"", b"a=1", b"a=1&a=2", b"\xff", b"a=\xff&\xc3=1", b"%", b"%zz=%", b"=", b"&&&", b"a=" + b"9" * 5000, b"a" * 3000, b"\x00", b"a=b;c=d", b"?", b"#", b"a[]=1&a[]=2",
                     b"a=%ff", b"\xc3\xa9=\xc3\xa9", b"//x", b"%00", b"a=%u00e9", b"\xe9"]),
    st.binary(max_size=20),
)


URLENC_BODIES = [b"a=1&b=2", b"a=%ff&%zz", b"\xff=\xfe", b"a=" + b"x" * 500, b"&", b"a=1;b=2", b"=%", b"a=%E4%B8",
    # very many fields / separators (standard-library parsers have field-count limits that raise ValueError)
    b"&" * 1500, b"a=1&" * 1200, b";" * 1500, b"a&" * 5000, b"=&" * 1001, b"k=v&" * 999 + b"k=v", b"%26" * 2000]
MULTIPART_BAD_BODIES = [
    b"--b\r\nno-colon-header\r\n\r\nx\r\n--b--", b"--b\r\nContent-Type: text/plain\r\n\r\nx\r\n--b--", b"--b\r\nContent-Disposition: form-data\r\n\r\nx\r\n--b--",
    b"--b\r\nContent-Disposition: form-data; name=\"a\"\r\n\r\n", b"--b\r\n", b"--b", b"--b--", b"--b\r\n\r\n\r\n--b--", b"--b\r\n: x\r\n\r\ny\r\n--b--",
    b"--b\r\nContent-Disposition: form-data; name=\"\xff\"; filename=\"\xfe\"\r\n\r\n\xfd\r\n--b--", b"--b\r\nContent-Disposition\r\n\r\nx\r\n--b--",
    b"--b\r\nContent-Disposition: form-data; name=a; filename\r\n\r\nx\r\n--b--", b"--b\r\nContent-Disposition: ; =; ==\"\r\n\r\nx\r\n--b--", b"--b\r\n\xff\xfe: \xfd\r\n\r\nx\r\n--b--",
    b"--b\r\nContent-Disposition: form-data; name=\"a\"\r\n \r\n\tx\r\n\r\ny\r\n--b--", b"--b\r\nA:1\r\n" * 300 + b"\r\nx\r\n--b--", b"\r\n--b--\r\n--b\r\n",
]
JSON_BAD_BODIES = [b"", b"{", b"[" * 100000, b"9" * 5000, b'{"a": 1e999999}', b"\xff\xfe", b'"\\ud800"', b"nul", b"[1,]", b'{"a":' * 2000 + b"1" + b"}" * 2000, b"-" + b"9" * 4301, b"NaN", b"\xef\xbb\xbf{}", b'"\\u00"', b"{} x"]
# floats at and beyond what float() / Decimal() represent (exponents of 20+ digits, thousands of fraction digits), non-finite constants
JSON_BAD_BODIES += [b"1e" + b"9" * 25, b"-1E-" + b"9" * 25, b"[1.5e+9999999999999999999999]", b'{"a": 1E400, "b": -1e-400}', b"1." + b"0" * 5000 + b"1", b"0." + b"9" * 5000, b"1e+", b"1e", b"-", b"-0", b"Infinity",
                    b"-Infinity", b'{"a": NaN}', b"[1e400, -1e400]", b"1" + b"0" * 400 + b".5", b"0e" + b"0" * 5000, b"1E" + b"0" * 4000 + b"5", b'{"a": {"a": 1e99999999999999999999}}', b"\xff\xfe1\x00", b"\x00"]
_CD = b"--b\r\nContent-Disposition: form-data; "
MULTIPART_BAD_BODIES += [
    # a complete part followed by a malformed one (whatever ran for the first must cope with the failure of the second)
    _CD + b'name="a"\r\n\r\n1\r\n--b\r\nno-colon-header\r\n\r\nx\r\n--b--',
    _CD + b'name="a"\r\n\r\n1\r\n--b\r\nContent-Type: text/plain\r\n\r\nx\r\n--b--',
    _CD + b'name="f"; filename="f.txt"\r\n\r\ndata\r\n--b\r\nno-colon-header\r\n\r\nx\r\n--b--',
    _CD + b'name="a"\r\n\r\n1\r\n' + _CD + b'name="f"; filename="f.txt"\r\n\r\ndata\r\n--b\r\n: \r\n\r\nx\r\n--b--',
    _CD + b'name="a"\r\n\r\n1\r\n' + _CD + b'name="b"\r\n\r\n2\r\n--b\r\nContent-Disposition\r\n\r\n3\r\n--b--',
    # RFC 5987 / 2231 extended parameters, well-formed and not
    _CD + b"name=\"f\"; filename*=utf-8''a%cc%81.txt\r\n\r\nx\r\n--b--",
    _CD + b'name="f"; filename*=x\r\n\r\nx\r\n--b--',
    _CD + b"name=\"f\"; filename*=nope''a%41\r\n\r\nx\r\n--b--",
    _CD + b"name=\"f\"; filename*=utf-8'en'%ff%fe\r\n\r\nx\r\n--b--",
    _CD + b"name=\"f\"; filename*=''\r\n\r\nx\r\n--b--",
    _CD + b"name=\"f\"; filename*='\r\n\r\nx\r\n--b--",
    _CD + b"name=\"f\"; filename*=utf-8'" + b"''%41\r\n\r\nx\r\n--b--",
    _CD + b"name=\"f\"; filename=\"a.txt\"; filename*=\"utf-8''b.txt\"\r\n\r\nx\r\n--b--",
    _CD + b"name*=utf-8''n%ff; filename*0=a; filename*1=b\r\n\r\nx\r\n--b--",
    _CD + b"name=\"f\"; filename*=undefined''%41\r\n\r\nx\r\n--b--",
    # parameter values with '=', header names in other cases, the header twice, transfer encodings, nested multipart, bare LF / CR
    _CD + b'name="a=b"; filename="c=d=e"\r\n\r\nx\r\n--b--',
    b"--b\r\ncontent-disposition: form-data; name=a=b\r\n\r\nx\r\n--b--",
    b'--b\r\nCONTENT-DISPOSITION: form-data; name="a"\r\nContent-Disposition: form-data; name="b"\r\n\r\nx\r\n--b--',
    _CD + b'name="a"\r\nContent-Transfer-Encoding: base64\r\nContent-Type: text/plain; charset=nope\r\n\r\n=====\r\n--b--',
    _CD + b'name="_charset_"\r\n\r\nnope\r\n' + _CD + b'name="a"\r\n\r\n\xff\r\n--b--',
    _CD + b'name="a"\r\nContent-Type: multipart/mixed; boundary=b\r\n\r\n--b\r\n\r\n--b--\r\n--b--',
    b'--b\nContent-Disposition: form-data; name="a"\n\n1\n--b\nContent-Disposition: form-data; name="f"; filename="f"\n\n2\n--b--\n',
    b'--b\rContent-Disposition: form-data; name="a"\r\r1\r--b--\r',
    _CD + b'name="a"\r\n\r\n1\r\n--b--\r\n' + _CD + b'name="late"\r\n\r\n2\r\n--b--',
    b'--b  \t\r\nContent-Disposition: form-data; name="a"\r\n\r\n1\r\n--b--  \t',
    b"--b\r\nContent-Disposition:\r\n\r\nx\r\n--b--", b"--b\r\nContent-Disposition: \x00\r\n\r\nx\r\n--b--", _CD + b'name="a"\x0b\x0c\x1c\x85\r\n\r\nx\r\n--b--',
]
# bodies that are swept but not drawn by the random requests (cost): more separators than any field limit a parser may have, more parts
# than the default `max_form_parts` (the documented 413) as text fields and as files, one very large field next to a file full of near-delimiters
BIG_URLENC_BODIES = [b"&" * 100001, b"a&" * 12000, b"a=1;" * 11000]
BIG_MULTIPART_BODIES = [
    b"".join(_CD + b'name="f%d"\r\n\r\n%d\r\n' % (i, i) for i in range(330)) + b"--b--\r\n",
    b"".join(_CD + b'name="f%d"; filename="%d.txt"\r\n\r\n%d\r\n' % (i, i, i) for i in range(330)) + b"--b--\r\n",
    _CD + b'name="a"\r\n\r\n' + b"x" * 70000 + b"\r\n" + _CD + b'name="f"; filename="f"\r\n\r\n' + b"\r\n--" * 20000 + b"\r\n--b--",
    # more than 64 KB where a parser may have a limit: one header line, many header lines (no blank line ever comes), a parameter, the
    # preamble (no delimiter ever comes), an unterminated delimiter line
    b"--b\r\nX-A: " + b"a" * 100000, b"--b\r\n" + b"X-A: a\r\n" * 12000, _CD + b'name="' + b"n" * 100000 + b'"\r\n\r\nx\r\n--b--', b"p" * 100000, b"\r\n" * 50000, b"--b" + b" " * 100000,
    _CD + b'name="a"\r\n\r\n' + b"\r" * 100000,
]


def _bodies(draw, ctype: str):
    kind = draw(st.integers(0, 9))
    if "multipart" in ctype and draw(st.integers(0, 2)) > 0:
        kind = draw(st.sampled_from([3, 3, 4]))
    elif "urlencoded" in ctype and draw(st.integers(0, 2)) > 0:
        kind = 2
    elif "json" in ctype and draw(st.integers(0, 2)) > 0:
        kind = draw(st.sampled_from([0, 5, 7]))
    if kind <= 1:
        raw = json.dumps(draw(gen.json_values), ensure_ascii=draw(st.booleans())).encode("utf-8")
    elif kind == 2:
        raw = draw(st.sampled_from(URLENC_BODIES))
    elif kind == 3:
        form = draw(gen.forms(max_parts=3, max_pieces=3))
        form["boundary"] = "b"
        for p in form["parts"]:
            while b"--b" in p["content"]:
                p["content"] = p["content"].replace(b"--b", b"")
        raw = mref.encode(form)
    elif kind == 4:
        raw = draw(st.sampled_from(MULTIPART_BAD_BODIES))
    elif kind == 5:
        raw = draw(st.sampled_from(JSON_BAD_BODIES))
    elif kind == 6:
        raw = draw(st.binary(max_size=60))
    else:
        base = json.dumps({"k": [1, 2, 3], "s": "é"}).encode("utf-8")
        i = draw(st.integers(0, len(base) - 1))
        raw = draw(st.sampled_from([base[:i], base[:i] + bytes([base[i] ^ 0x80]) + base[i + 1:], base + base]))
    cuts = draw(st.lists(st.integers(0, max(len(raw), 1)), max_size=3))
    return mref.chunks_from_cuts(raw, cuts)


@st.composite
def request_case(draw, for_apps=False):
    labels = []
    hostile = False
    headers = []
    names = draw(st.lists(st.sampled_from(sorted(VALID) + sorted(EXTRA_NAMES)), min_size=0, max_size=5, unique=True))
    for n in names:
        mode = draw(st.integers(0, 9))
        if mode <= 1 and n in VALID:
            v = draw(st.sampled_from(VALID[n]))
        elif mode <= 5:
            v = draw(st.sampled_from(pool(n, valid=False)))
            hostile = True
        elif mode <= 8:
            v = mutate(draw, draw(st.sampled_from(pool(n))))
            hostile = True
        else:
            v = draw(_noise)
            hostile = True
        v = v.replace("\r", "").replace("\n", "")  # a server never passes line breaks inside a header value
        try:
            v.encode("latin-1")
        except UnicodeEncodeError:
            v = v.encode("utf-8").decode("latin-1")
        headers.append([n, v.strip(" \t")])
        labels.append(f"hdr={n}")
    # the charset parameter is client-controlled for all three body kinds: combine every media type with odd codec names
    if draw(st.integers(0, 2)) == 0:
        media = draw(st.sampled_from(["application/json", "application/x-www-form-urlencoded", 'multipart/form-data; boundary="b"', "multipart/form-data; boundary=b"]))
        cs = draw(st.sampled_from(CODEC_NAMES))
        headers = [h for h in headers if h[0] != "Content-Type"] + [["Content-Type", f"{media}; charset={cs}"]]
        labels.append("odd-charset")
        hostile = True
    path = draw(_paths)
    if for_apps and draw(st.booleans()):
        # reach the file / route handlers: an existing target plus hostile validators
        path = draw(st.sampled_from([b"/file.txt", b"/index.html", b"/dir/", b"/dir/a", b"/\xc3\xa9.txt", b"/", b"/i/42", b"/t/2021-03-07", b"/s/x", b"/a/b/c", b"/dir", b"", b"/empty.txt", b"/d/1.5", b"/static/file.txt", b"/p/dir", b"/p/dir/", b"/r/i/42", b"/\xc3\xa9/x/file.txt", b"/static/\xe4\xb8\xad",
                                     b"/caf\xe9", b"/caf\xc3\xa9", b"/caf\xe9/", b"/caf\xe9/\xf1", b"/\xfc", b"/p/caf\xe9", b"/static/caf\xe9/\xf1/f.txt", b"/na\xefve dir", b"/caf\xe9.txt"]))
        for name in draw(st.lists(st.sampled_from(["If-Modified-Since", "If-None-Match", "Range", "If-Range", "Host", "If-Match", "If-Unmodified-Since"]), min_size=1, max_size=3, unique=True)):
            v = draw(st.sampled_from(pool(name) + (DATES if name == "If-Range" else [])))
            if draw(st.integers(0, 4)) == 0:
                v = mutate(draw, v)
            v = v.replace("\r", "").replace("\n", "").strip(" \t")
            try:
                v.encode("latin-1")
            except UnicodeEncodeError:
                v = v.encode("utf-8").decode("latin-1")
            headers = [h for h in headers if h[0] != name] + [[name, v]]
        hostile = True
        labels.append("targeted-app-request")
    query = draw(_queries)
    ctype = next((v for k, v in headers if k == "Content-Type"), "")
    body = _bodies(draw, ctype)
    if any(b > 127 or b < 32 for b in path + query) or len(path) > 100:
        hostile = True
        labels.append("hostile-path-or-query")
    rq = gw.areq(method=draw(st.sampled_from(["GET", "POST", "HEAD", "PUT"])), headers=headers, body=body, query=query, path_bytes=path, path="/")
    return {"request": rq, "hostile": hostile or any(any(c > 127 for c in ch) for ch in body), "labels": labels}


_ptext = st.one_of(
    st.sampled_from([v for vs in HOSTILE.values() for v in vs] + [v for vs in VALID.values() for v in vs] + [v for vs in EXTRA.values() for v in vs if len(v) < 200]),  # the long EXTRA values are swept, not drawn here (cost)
    _noise,
    st.text(max_size=10),
)


@st.composite
def parser_case(draw):
    kind = draw(st.sampled_from(["range", "url", "url", "parse_header", "query", "multipart"]))
    text = draw(_ptext)
    if draw(st.integers(0, 2)) == 0:
        text = mutate(draw, text)
    case = {"kind": kind, "text": text}
    if kind == "range":
        case["size"] = draw(st.sampled_from([0, 1, 100, 10**12]))
        if draw(st.booleans()):
            case["text"] = "bytes=" + text
    if kind == "multipart":
        case["boundary"] = draw(st.sampled_from(["b", "", "-", "\xff", "a b", "(", "[", "\\", "*", "." * 80]))
        case["charset"] = draw(st.sampled_from(["utf-8", "latin-1"] + CODEC_NAMES))
        case["chunk"] = draw(st.sampled_from([1, 7, 1000]))
        if draw(st.booleans()):
            case["text"] = b"".join(_bodies(draw, "")).decode("latin-1")
    if kind == "url":
        case["text"] = draw(st.sampled_from(["", "http://", "//", "http://["]) ) + text if draw(st.booleans()) else text
    return case



def oracle_atheris(case) -> Result:
    """Replay / triage oracle for inputs found by the Atheris campaign: decode the bytes like the fuzz target does."""
    from fuzz import targets

    inner = targets.CASES["C12"](case["data"])
    res = oracle_request(inner)
    if not res.failures:
        res = oracle_apps(inner)
    res.label("atheris")
    return res


SUBS["atheris"] = oracle_atheris

def _clean(v: str) -> str:
    v = v.replace("\r", "").replace("\n", "").strip(" \t")
    try:
        v.encode("latin-1")
    except UnicodeEncodeError:
        v = v.encode("utf-8").decode("latin-1")
    return v


EXTRA_DATES = [
    "Fri, 31 Dec 9999 23:59:59 -0030", "Fri, 31 Dec 9999 23:59:59 PST", "Fri, 31 Dec 9999 23:59:59 -2359", "Mon, 01 Jan 0001 00:00:00 +0001",
    "Mon, 01 Jan 0001 00:00:00 +2359", "Mon, 01 Jan 0001 00:00:00 EST", "Fri, 31 Dec 9999 23:59:59 GMT", "Mon, 01 Jan 0001 00:00:00 GMT",
    "Thu, 01 Jan 1970 00:00:00 +2400", "Sat, 29 Feb 2021 00:00:00 GMT", "Wed, 21 Oct 2015 07:28:60 GMT", "Wed, 21 Oct 2015 24:00:00 GMT",
]
# every date spelling of the dictionaries (used where a header may hold a date: If-Range next to Range, If-Unmodified-Since)
DATES = list(dict.fromkeys(VALID["Date"] + HOSTILE["Date"] + HOSTILE["If-Modified-Since"] + EXTRA_DATES + [
    "Fri, 31 Dec 9999 23:59:59 -0000", "Fri, 31 Dec 9999 23:59:59", "1 Jan 100 0:0:0", "1 Jan 100 0:0:0 +0000", "Thu, 01 Jan 1970 00:00:00 -0000", "Wed, 21 Oct 2015 07:28:00 +2359", "Wed, 21 Oct 2015 07:28:00 -2359",
    "Wed, 21 Oct 2015 07:28:00 +0060", "Wed, 21 Oct 2015 07:28:00 +" + "0" * 400, "Wed, 21 Oct 2015 07:28:00 (comment) GMT", "Wed, 21 Oct 2015 07:28:00.5 GMT", "Wed, 21 Oct 2015 07:28 GMT", "2015-10-21T07:28:00Z",
    "1445412480", "Wed, 21 Oct 15 07:28:00 GMT", "Wed, 21 Oct 68 07:28:00 GMT", "Wed, 21 Oct 69 07:28:00 GMT", "Wed, 21 Okt 2015 07:28:00 GMT", "Wed,21Oct2015 07:28:00GMT"]))


def sweep_cases(for_apps: bool):
    """Every dictionary value of every header name on its own (the random sub-checks combine them; this
    makes sure each single value is met at every seed).  For the application sweep the request names an
    existing file / route so that validators and ranges are actually evaluated."""
    for name in sorted(VALID) + sorted(EXTRA_NAMES):
        values = pool(name)
        if name in ("Date", "If-Modified-Since", "If-Range"):
            values += EXTRA_DATES
        for v in values:
            paths = [b"/"] if not for_apps else [b"/file.txt", b"/dir/", b"/i/42"]
            if for_apps and name == "Range":
                paths = paths + [b"/empty.txt"]  # size 0: every arithmetic on the size of the file meets its edge
            for path in paths:
                rq = gw.areq(method="GET", headers=[[name, _clean(v)]], body=[b""], query=b"", path_bytes=path, path="/")
                yield {"request": rq, "hostile": True, "labels": [f"sweep={name}"]}


CHARSET_MULTIPART = (_CD + b'name="\\ud800"\r\n\r\n+2AA- \\udfff \\x00 \xff\xfe\r\n' + _CD + b'name="f+2AA-"; filename="\\udfff+2AA-\xff.txt"\r\nContent-Type: text/plain; charset=\\ud800\r\n\r\n\\ud800\r\n'
                     + _CD + b'name="+AGE-"; filename="\\N{BOGUS}\\"\r\n\r\nx\r\n--b--')


def body_sweep_cases():
    """Every dictionary body under its matching content type (and the urlencoded ones also as query string)."""
    urlenc = URLENC_BODIES + BIG_URLENC_BODIES
    pairs = [("application/x-www-form-urlencoded", b) for b in urlenc] + [("application/x-www-form-urlencoded; charset=utf-8", b) for b in urlenc]
    pairs += [('multipart/form-data; boundary="b"', b) for b in MULTIPART_BAD_BODIES + BIG_MULTIPART_BODIES] + [("application/json", b) for b in JSON_BAD_BODIES]
    # the same hostile numbers / part headers under a declared charset (the decoding step in front of the parser differs)
    pairs += [("application/json; charset=utf-8", b) for b in JSON_BAD_BODIES[15:]] + [("application/json; charset=latin-1", b) for b in JSON_BAD_BODIES[15:]]
    pairs += [("multipart/form-data; boundary=b; charset=ascii", b) for b in MULTIPART_BAD_BODIES[17:]]
    # every codec name with bodies whose text decodes, under some of them, to lone surrogates / NUL / nothing at all (escape codecs, UTF-7)
    for cs in CODEC_NAMES + ["unicode-escape", "raw-unicode-escape", "UTF-7", "utf-16-le", "utf-16-be", "utf-32-be", "utf-8-sig", "cp65001", "iso-2022-jp", "euc-kr", "gb18030", "cp1252", "koi8-r", "mac-roman", "U8", "L1", "646"]:
        pairs += [(f"multipart/form-data; boundary=b; charset={cs}", CHARSET_MULTIPART), (f"application/json; charset={cs}", b'{"\\udfff": "\\ud800 +2AA- \\x00 \xff"}'), (f"application/json; charset={cs}", b"+ACIAIg-"),
                  (f"application/x-www-form-urlencoded; charset={cs}", b"a=%ff&+2AA-=+2AA-&\\ud800=\\udfff&\xff=\xfe&c=+AGE")]
    # every codec the interpreter ships (module names of the encodings package, which are accepted as charset names) with bodies that are
    # plain ASCII - so that the body passes a strict decode under most of them and the later steps (percent-decoding in the declared
    # charset, JSON parsing, part-header decoding) run under that codec
    import encodings
    import pkgutil

    shipped = sorted(m.name for m in pkgutil.iter_modules(encodings.__path__) if m.name != "aliases")
    ascii_mp = _CD + b'name="a"\r\n\r\nv%41\r\n' + _CD + b'name="f"; filename="f%41.txt"\r\nContent-Type: text/plain\r\n\r\nDATA\r\n--b--'
    for cs in shipped + ["IDNA", "Punycode", "rot-13", "utf-16-le"]:
        pairs += [(f"application/x-www-form-urlencoded; charset={cs}", b"a=%41"), (f"application/x-www-form-urlencoded; charset={cs}", b"a=%ff&b=c+d&%E4%B8%AD=%80&x"),
                  (f"application/x-www-form-urlencoded; charset={cs}", b"plain=ascii&b=2"), (f"application/json; charset={cs}", b'{"a": ["b", 1]}'),
                  (f"multipart/form-data; boundary=b; charset={cs}", ascii_mp)]
    for ctype, body in pairs:
        for chunks in ([body], [body[: len(body) // 2], body[len(body) // 2:]]):
            rq = gw.areq(method="POST", headers=[["Content-Type", ctype]], body=chunks, query=b"", path_bytes=b"/", path="/")
            yield {"request": rq, "hostile": True, "labels": ["body-sweep"]}
    for q in urlenc:
        rq = gw.areq(method="GET", headers=[], body=[b""], query=q, path_bytes=b"/", path="/")
        yield {"request": rq, "hostile": True, "labels": ["query-sweep"]}


_F = b"--b\r\nContent-Disposition: form-data; "
CUT_BODIES = [
    ("field+file", _F + b'name="a"\r\n\r\nv1\r\n' + _F + b'name="f"; filename="f.txt"\r\nContent-Type: text/plain\r\n\r\nDATA\r\n--b--\r\n'),
    ("empty-values", _F + b'name="a"\r\n\r\n\r\n' + _F + b'name="f"; filename=""\r\n\r\n\r\n--b--'),
    ("preamble-lf", b'pre\n--b\nContent-Disposition: form-data; name="a"\n\nv\n--b\nContent-Disposition: form-data; name="f"; filename="x"\n\nd\n--b--\nepi'),
    ("cr-only", b'--b\rContent-Disposition: form-data; name="a"\r\rv\r--b--\r'),
    ("near-delimiters", _F + b'name="a"\r\n\r\n\r\n--\r\n--b-\r\n-\r\n--bx\r\n' + _F + b'name="f"; filename="x"\r\n\r\n--b\r--b\n\r\n--b--'),
    ("extended+bad-tail", _F + b"name=\"f\"; filename*=utf-8''a%cc%81.txt\r\n\r\nx\r\n" + _F + b'name="a"\r\n \tfolded\r\n\r\n1\r\n--b\r\nno-colon\r\n\r\ny\r\n--b--'),
    ("latin1-names", _F + b'name="\xe9"; filename="\xff\xfe"\r\nContent-Type: \xe9/\xe9\r\n\r\n\xfd\r\n' + _F + b'name="\xc3\xa9"\r\n\r\n\xc3\xa9\xc3\r\n--b--'),
]


def cuts_cases(quick: bool):
    """Chunk alignment is part of the input: the same bytes cut at every offset (a piece may end exactly after a header block, inside
    the delimiter, between CR and LF, in front of the first byte), small fixed pieces, and the body ending early at every offset."""
    mp = 'multipart/form-data; boundary="b"'
    for tag, body in CUT_BODIES:
        for ctype in (mp,) if quick else (mp, "multipart/form-data; boundary=b; charset=utf-16", "multipart/form-data; boundary=b; charset=nope"):
            for i in range(len(body) + 1):
                yield {"ctype": ctype, "chunks": [body[:i], body[i:]], "labels": [f"cut:{tag}"]}
                yield {"ctype": ctype, "chunks": [body[:i]], "truncated": True, "labels": [f"truncated:{tag}"]}
            for n in (1, 2, 3, 5):
                yield {"ctype": ctype, "chunks": [body[k:k + n] for k in range(0, len(body), n)], "labels": [f"pieces:{tag}"]}
                yield {"ctype": ctype, "chunks": [body[k:k + n] for k in range(0, len(body) * 2 // 3, n)], "truncated": True, "labels": [f"truncated-pieces:{tag}"]}
            # empty messages between the pieces (ASGI servers may deliver them)
            third = max(1, len(body) // 3)
            yield {"ctype": ctype, "chunks": [b"", body[:third], b"", b"", body[third:], b""], "labels": [f"empty-messages:{tag}"]}
    for ctype, accessor, body in (("application/json", "json", b'{"k": [1, 2.5, "\xc3\xa9"], "n": null}'), ("application/json; charset=utf-16", "json", '{"k": "é"}'.encode("utf-16")),
                                  ("application/x-www-form-urlencoded", "form", b"a=1&b=%C3%A9&c=\xc3\xa9&d"), ("application/x-www-form-urlencoded; charset=utf-8", "form", b"a=1&b=%C3%A9&c=\xc3\xa9&d")):
        for i in range(len(body) + 1):
            yield {"ctype": ctype, "accessor": accessor, "chunks": [body[:i]], "truncated": True, "labels": [f"truncated:{accessor}"]}
            yield {"ctype": ctype, "accessor": accessor, "chunks": [body[:i], body[i:]], "labels": [f"cut:{accessor}"]}


def _own_validators():
    """The validators of the served file.txt, computed from the file system (not asked from baize): entity tag per the documented
    recipe (SHA-1 of "<mtime>-<size>"), Last-Modified as an HTTP date.  If the recipe ever differs they are merely near-misses."""
    import hashlib
    from email.utils import formatdate

    st_ = os.stat(os.path.join(static_dir(), "file.txt"))
    etag = hashlib.sha1(f"{st_.st_mtime}-{st_.st_size}".encode("ascii")).hexdigest()
    return etag, formatdate(st_.st_mtime, usegmt=True), st_.st_mtime


def pairs_cases():
    """Headers that are only looked at in combination.  If-Range is ignored without Range; If-Modified-Since is ignored when
    If-None-Match is present (also when it is present and empty?  that is for the code to decide - it must not raise)."""
    from email.utils import formatdate

    etag, lastmod, mtime = _own_validators()
    file_apps = ["files", "pages", "fileresponse"]
    if_ranges = pool("If-Range") + DATES + [
        f'"{etag}"', f'W/"{etag}"', etag, f'"{etag}', f'{etag}"', f'"{etag}" ', f'"{etag}", "x"', f'"{etag.upper()}"', lastmod, lastmod.lower(), lastmod.replace("GMT", "+0000"), lastmod.replace("GMT", "UTC"),
        lastmod + " junk", lastmod[5:], lastmod.replace(" GMT", ""), formatdate(mtime + 1, usegmt=True), formatdate(mtime - 1, usegmt=True), formatdate(mtime + 86400 * 365 * 3000, usegmt=True),
        formatdate(mtime, localtime=False), lastmod.replace(",", ""), "\t" + lastmod]
    ranges = ["bytes=0-4", "bytes=-5", "bytes=0-1,3-4", "bytes=0-", "bytes=5-4", "bytes=a-b", "bytes=99-", "bytes=" + "9" * 5000 + "-"]
    short = [ir for ir in if_ranges if len(ir) < 40][::6] + [f'"{etag}"', lastmod]
    for rng in ranges:
        # the comparison of If-Range happens before the Range header is parsed: the full list with two ranges, a selection with the others
        for ir in if_ranges if rng in ranges[:2] else short:
            for method in ("GET", "HEAD") if rng in ranges[:3] else ("GET",):
                for path in (b"/file.txt", b"/empty.txt") if rng == ranges[0] and method == "GET" else (b"/file.txt",):
                    rq = gw.areq(method=method, headers=[["Range", rng], ["If-Range", _clean(ir)]], body=[b""], query=b"", path_bytes=path, path="/")
                    yield {"request": rq, "hostile": True, "labels": ["pair=Range+If-Range"], "apps": file_apps}
    inms = ["", f'"{etag}"', f'W/"{etag}"', etag, f'"x", "{etag}"', f',,"{etag}"', f'"{etag}",', f'W/"{etag}', f"W/{etag}", '"x"', "*", " ", ",", f'"{etag}" , W/', f'W/W/"{etag}"', f'"{etag}"' * 300, "\xff"]
    imss = [lastmod, formatdate(mtime + 1, usegmt=True), formatdate(mtime - 1, usegmt=True), "", "x", "Wed, 21 Oct 2015 07:28:00 -" + "9" * 50, "Fri, 31 Dec 9999 23:59:59 -0100", "1 Jan 100 0:0:0", lastmod.replace(" GMT", ""),
            "Wed, 21 Oct 2015 07:28:00 +9999999999", "Thu, 01 Jan 1970 00:00:00 GMT", "Wed, 31 Dec 1969 23:59:59 -0000"]
    for inm in inms:
        for ims in imss:
            for method in ("GET", "HEAD"):
                rq = gw.areq(method=method, headers=[["If-None-Match", _clean(inm)], ["If-Modified-Since", _clean(ims)]], body=[b""], query=b"", path_bytes=b"/file.txt", path="/")
                yield {"request": rq, "hostile": True, "labels": ["pair=If-None-Match+If-Modified-Since"], "apps": file_apps}
        # the matching validator next to a range request (304 vs 206 vs 416 is not this property's business - no exception is)
        for rng in ranges:
            rq = gw.areq(method="GET", headers=[["If-None-Match", _clean(inm)], ["Range", rng], ["If-Range", f'"{etag}"']], body=[b""], query=b"", path_bytes=b"/file.txt", path="/")
            yield {"request": rq, "hostile": True, "labels": ["pair=If-None-Match+Range"], "apps": file_apps}
    for name in sorted(EXTRA_NAMES):
        for v in pool(name) + ([f'"{etag}"', f'W/"{etag}"'] if name == "If-Match" else DATES + [lastmod]):
            for other in (["If-None-Match", f'"{etag}"'], ["If-Modified-Since", lastmod], ["Range", "bytes=0-4"]):
                rq = gw.areq(method="GET", headers=[[name, _clean(v)], other], body=[b""], query=b"", path_bytes=b"/file.txt", path="/")
                yield {"request": rq, "hostile": True, "labels": [f"pair={name}+{other[0]}"], "apps": file_apps}


QUERIES = [b"&" * 1500, b"a=1&" * 1200, b";" * 1500, b"", b"a=1", b"a=1&a=2", b"\xff", b"a=\xff&\xc3=1", b"%", b"%zz=%", b"=", b"&&&", b"a=" + b"9" * 5000, b"a" * 3000, b"\x00", b"a=b;c=d", b"?", b"#", b"a[]=1&a[]=2",
           b"a=%ff", b"\xc3\xa9=\xc3\xa9", b"//x", b"http://x/?y", b"%00", b"a=%u00e9", b"\xe9"]


def path_sweep_cases():
    """Every dictionary path on its own, and the directory URLs without the final slash (the Pages redirect rebuilds the URL from the
    path, the query string and the Host header) with every dictionary query string and Host value."""
    for path in PATHS + PATHS_EXTRA:
        rq = gw.areq(method="GET", headers=[], body=[b""], query=b"", path_bytes=path, path="/")
        yield {"request": rq, "hostile": True, "labels": ["path-sweep"]}
    # request targets without a leading slash ("*" of OPTIONS, an absolute URI, junk) x the server's own address (default and
    # other ports, IPv6, no address at all on ASGI) x Host present / absent: request.url must be readable whatever the combination
    for path in (b"*", b"x", b"x/y", b"http://other/y", b"@evil/", b":1/", b"?q", b"#f", b".", b".."):
        for server in (["testserver", 80], ["srv", 8080], ["::1", 8000], ["srv", 443], None):
            for scheme in ("http", "https"):
                for host in (None, "h:81", "[::1]"):
                    rq = gw.areq(method="OPTIONS" if path == b"*" else "GET", headers=[["Host", host]] if host else [], body=[b""], query=b"", path_bytes=path, path="/",
                                 server=server or ["testserver", 80], scheme=scheme)
                    if server is None:
                        rq["server"] = None  # ASGI scope without a server address (the WSGI environ always has one)
                    yield {"request": rq, "hostile": True, "labels": ["odd request target x server x Host"]}
    for path in (b"/dir", b"", b"/dir/../dir", b"/dir/up"):
        for q in QUERIES:
            rq = gw.areq(method="GET", headers=[], body=[b""], query=q, path_bytes=path, path="/")
            yield {"request": rq, "hostile": True, "labels": ["dir-redirect x query"], "apps": ["pages", "files", "subpaths"]}
        for host in pool("Host"):
            for q in (b"", b"a=\xff"):
                rq = gw.areq(method="GET", headers=[["Host", _clean(host)]], body=[b""], query=q, path_bytes=path, path="/")
                yield {"request": rq, "hostile": True, "labels": ["dir-redirect x Host"], "apps": ["pages", "files", "hosts"]}
    # the composed application: every dictionary path below every mount, the redirecting directory URLs below the mounts
    for prefix in (b"/static", b"/p", b"/r", b"/\xc3\xa9/x"):
        for path in PATHS + PATHS_EXTRA:
            if path.startswith(b"/"):
                rq = gw.areq(method="GET", headers=[], body=[b""], query=b"", path_bytes=prefix + path, path="/")
                yield {"request": rq, "hostile": True, "labels": ["nested x path"], "apps": ["nested"]}
    for path in (b"/p/dir", b"/p", b"/\xc3\xa9/x/dir", b"/\xc3\xa9/x", b"/static/dir", b"/r"):
        for q in QUERIES:
            for host in (None, "[::1]:80"):
                rq = gw.areq(method="GET", headers=[["Host", host]] if host else [], body=[b""], query=q, path_bytes=path, path="/")
                yield {"request": rq, "hostile": True, "labels": ["nested redirect x query x Host"], "apps": ["nested"]}
    # non-ASCII directories and files reached through every byte spelling of their names (Latin-1 = invalid UTF-8 = the WSGI fallback
    # reading; UTF-8; mixtures), with and without the final slash, with a query, unmounted (Files / Pages / the others) and below the mounts
    first = True
    for name in LATIN1_NAMES:
        for spelled in latin1_spellings(name):
            for slash in (b"", b"/"):
                for q in (b"", b"a=\xff&b=%ff", b"x=1"):
                    for prefix, apps in ((b"", None if first else ["files", "pages", "subpaths"]), (b"/static", ["nested"]), (b"/p", ["nested"]), (b"/\xc3\xa9/x", ["nested"]), (b"/\xe9/x", ["nested"])):
                        if prefix and q == b"x=1":
                            continue  # (cost) below the mounts: no query and the hostile query
                        rq = gw.areq(method="GET", headers=[], body=[b""], query=q, path_bytes=prefix + b"/" + spelled + slash, path="/")
                        case = {"request": rq, "hostile": True, "labels": ["latin-1 names"], "apps_only": not (first and not prefix)}
                        if apps:
                            case["apps"] = apps
                        yield case
            first = False
    for path in (b"/caf\xe9", b"/\xfc", b"/caf\xe9/\xf1", b"/na\xefve dir", b"/p/caf\xe9", b"/\xe9/x/caf\xe9"):
        for host in pool("Host")[::4] + ["caf\xe9.example"]:
            for method in ("GET", "HEAD"):
                rq = gw.areq(method=method, headers=[["Host", _clean(host)], ["Referer", "http://x/caf\xe9"]], body=[b""], query=b"q=\xe9", path_bytes=path, path="/", root_path="")
                yield {"request": rq, "hostile": True, "labels": ["latin-1 names x Host"], "apps": ["pages", "files", "nested"], "apps_only": True}
    # environ keys a server may leave out (PEP 3333: QUERY_STRING "may be empty or absent"; SCRIPT_NAME / PATH_INFO when empty; no client address)
    omits = (["QUERY_STRING"], ["QUERY_STRING", "SCRIPT_NAME"], ["QUERY_STRING", "SCRIPT_NAME", "PATH_INFO"], ["SCRIPT_NAME", "PATH_INFO"], ["REMOTE_ADDR", "REMOTE_PORT"],
             ["QUERY_STRING", "SCRIPT_NAME", "PATH_INFO", "CONTENT_TYPE", "CONTENT_LENGTH", "REMOTE_ADDR", "REMOTE_PORT"])
    for omit in omits:
        for path in (b"/", b"", b"/file.txt", b"/dir", b"/dir/", b"/i/42", b"/s/x", b"/p/dir", b"/\xc3\xa9/x", b"/static/file.txt", b"*"):
            for headers in ([], [["Host", "example.com:8080"], ["Referer", "/x"], ["Cookie", "a=1"]], [["Content-Type", ""], ["Content-Length", ""]]):
                for q in (b"", b"a=1"):
                    rq = gw.areq(method="GET", headers=headers, body=[b""], query=q, path_bytes=path, path="/")
                    yield {"request": rq, "hostile": True, "labels": ["environ without optional keys"], "omit_environ": omit}
    # the typed routes and mounts with a hostile query / Host next to a matching path
    for path in (b"/i/42", b"/d/1.5", b"/t/2021-03-07", b"/u/00000000-0000-0000-0000-000000000000", b"/1-2021-02-03.5", b"/s/x", b"/\xc3\xa9/x", b"/file.txt"):
        for q in QUERIES[:19:3] + QUERIES[19:]:
            rq = gw.areq(method="GET", headers=[["Host", "[::1]:80"]], body=[b""], query=q, path_bytes=path, path="/")
            yield {"request": rq, "hostile": True, "labels": ["route x query"]}


def run(rec, only=None):
    quick = rec.tier == "quick"
    mb = 2 if quick else 12
    core.drive_cases(rec, "body_sweep", body_sweep_cases(), oracle_request)
    rec.exhaustive["body_sweep"] = True
    core.drive_cases(rec, "sweep", sweep_cases(False), oracle_request)
    core.drive_cases(rec, "sweep_apps", sweep_cases(True), oracle_apps)
    rec.exhaustive["sweep"] = rec.exhaustive["sweep_apps"] = True
    core.drive_cases(rec, "cuts", cuts_cases(quick), oracle_cuts, sample=False)
    core.drive_cases(rec, "pairs", pairs_cases(), oracle_apps)
    core.drive_cases(rec, "path_sweep", path_sweep_cases(), oracle_both)
    rec.exhaustive["cuts"] = rec.exhaustive["pairs"] = rec.exhaustive["path_sweep"] = True
    core.drive_hypothesis(rec, "request", request_case(), oracle_request, 2000 if quick else 60000, max_buckets=mb)
    core.drive_hypothesis(rec, "apps", request_case(True), oracle_apps, 1000 if quick else 30000, seed_offset=1, max_buckets=mb)
    core.drive_hypothesis(rec, "parsers", parser_case(), oracle_parsers, 2000 if quick else 60000, seed_offset=2, max_buckets=mb)
    for k in SUBS:
        rec.exhaustive[k] = False
    if not quick:
        # coverage-guided second engine (Atheris / libFuzzer), same oracle inside the target
        from fuzz import driver

        driver.campaign(rec, "C12", oracle_atheris, runs=60000, seeds=[b'\x02\x00\x00\x03\x01\x00\x04/a?b', b''], max_total_time=420, jobs=8)
