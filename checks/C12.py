"""C12 - Untrusted input never escapes as a non-HTTP error."""
from __future__ import annotations

import json
import os

from hypothesis import strategies as st

import baize.asgi as A
import baize.wsgi as W
from baize.datastructures import URL, ContentType, MediaType, QueryParams
from baize.exceptions import HTTPException
from baize.multipart import Epilogue, MultipartDecoder, NeedData
from baize.responses import FileResponseMixin
from baize.utils import parse_header

from harness import core, gateways as gw, gen, recipes, tmpfiles
from harness.core import Result
from harness.refs import multipart as mref

LEVEL = "exploration"
RULES = {
    "atheris": "thorough tier: Atheris/libFuzzer coverage-guided campaign; bytes are decoded into the same structured case and judged by the same oracle inside the target (half of the jobs start from an empty corpus, half from two small valid inputs)",
    "request": "Hypothesis: abstract requests whose header values come from per-header grammars (media types with parameters, quoted "
    "strings, HTTP dates in three formats with absurd zones/years, URLs with brackets/ports/userinfo, cookie strings, range sets, entity "
    "tags), mutations of those (truncate, duplicate a delimiter, flip a byte, 5000-digit numbers, deep nesting) and raw Latin-1 "
    "noise; paths/queries over all byte values incl. NUL, %, non-UTF-8; bodies: valid/truncated/bit-flipped JSON, urlencoded, "
    "multipart, invalid UTF-8, unknown charsets. Every accessor of wsgi.Request and asgi.Request is probed; non-trivial = a probed "
    "header is present and is not one of the canonical valid samples, or the path/query/body is non-ASCII or mutated",
    "sweep": "enumerated: every value of the per-header dictionaries (valid and hostile, plus dates at the edges of the representable range with "
    "every kind of zone) as the only header of a request, through every request accessor",
    "body_sweep": "enumerated: every dictionary body (urlencoded incl. thousands of fields, malformed multipart, hostile JSON) under its matching content type, whole and in two "
    "messages, and every urlencoded one as query string, through every request accessor",
    "sweep_apps": "enumerated: the same single-header requests aimed at an existing file, a directory and a typed route of the bundled applications",
    "apps": "Hypothesis: the same hostile paths/headers against Router (one route per convertor type), Subpaths, Hosts, Files, Pages and "
    "FileResponse on both interfaces",
    "parsers": "Hypothesis: parse_range, URL() and its properties / replace, parse_header, MediaType, ContentType, QueryParams and the event-level "
    "MultipartDecoder fed with hostile text/bytes directly",
}
ASSUMPTIONS = [
    "allowed outcomes: a value, a response, HTTPException with 400 <= status < 500, ClientDisconnect, RuntimeError('Stream consumed')",
    "escapes are bucketed by (exception type, innermost baize frame file:function)",
    "values a WSGI/ASGI server itself provides (REMOTE_PORT, SERVER_PORT, scheme) are not client-controlled and are well-formed",
]

_DIR = None


def _reset():
    global _DIR
    _DIR = None


core.AFTER_FORK.append(_reset)


def static_dir():
    global _DIR
    if _DIR is None:
        _DIR = recipes.materialise({"index.html": b"<html>", "file.txt": b"hello world", "dir/index.html": b"<dir>", "dir/a.html": b"a", "é.txt": b"e"})
    return _DIR


def allowed(exc: BaseException) -> bool:
    if isinstance(exc, HTTPException):
        return 400 <= exc.status_code < 500
    if isinstance(exc, A.ClientDisconnect):
        return True
    if isinstance(exc, RuntimeError) and "Stream consumed" in str(exc):
        return True
    return False


def escape(r: Result, entry: str, exc: BaseException, ctx: str) -> None:
    if isinstance(exc, core.HarnessError):
        raise exc
    if allowed(exc):
        r.label("outcome=allowed-exception")
        return
    if core.baize_frame(exc) is None and not isinstance(exc, (RecursionError, MemoryError)):
        # raised entirely outside baize (by the harness itself): not a verdict
        raise core.HarnessError(f"exception outside baize in {entry}: {exc!r}") from exc
    r.fail(f"C12:escape:{core.exc_bucket(exc)}", f"{entry}: {type(exc).__name__}: {str(exc)[:200]} -- {ctx[:1200]}")
    r.label("outcome=escape")


# ------------------------------------------------------------------------------------------
# probes


def probe_wsgi_request(r, rq, ctx):
    env = gw.make_environ(rq)
    req = W.Request(env)
    for name in ("method", "url", "headers", "query_params", "cookies", "content_type", "content_length", "accepted_types", "date", "referrer", "client", "path_params"):
        try:
            v = getattr(req, name)
            if name == "url":
                for p in ("scheme", "netloc", "path", "query", "fragment", "username", "password", "hostname", "port"):
                    getattr(v, p)
                str(v), repr(v)
            if name == "referrer" and v is not None:
                for p in ("scheme", "netloc", "path", "hostname"):
                    getattr(v, p)
                repr(v)
            if name == "accepted_types":
                [str(t) for t in v]
                req.accepts("text/html")
                req.accepts("application/json; q=1")
            if name == "content_type":
                str(v), v == "x"
            if name == "query_params":
                v.multi_items(), str(v)
        except Exception as exc:  # noqa: BLE001
            escape(r, f"wsgi.Request.{name}", exc, ctx)
    for order in (("json", "form", "body"), ("form", "body", "json")):
        env = gw.make_environ(rq)
        req = W.Request(env)
        for name in order:
            try:
                v = getattr(req, name)
                if name == "form":
                    for _, item in v.multi_items():
                        if not isinstance(item, str):
                            item.read()
            except Exception as exc:  # noqa: BLE001
                escape(r, f"wsgi.Request.{name}", exc, ctx)
        try:
            req.close()
        except Exception as exc:  # noqa: BLE001
            escape(r, "wsgi.Request.close", exc, ctx)
    env = gw.make_environ(rq)
    try:
        list(W.Request(env).stream())
    except Exception as exc:  # noqa: BLE001
        escape(r, "wsgi.Request.stream", exc, ctx)


def probe_asgi_request(r, rq, ctx):
    async def go():
        scope = gw.make_scope(rq)
        req = A.Request(scope)
        for name in ("method", "url", "headers", "query_params", "cookies", "content_type", "content_length", "accepted_types", "date", "referrer", "client", "path_params"):
            try:
                v = getattr(req, name)
                if name == "url":
                    for p in ("scheme", "netloc", "path", "query", "fragment", "username", "password", "hostname", "port"):
                        getattr(v, p)
                    str(v), repr(v)
                if name == "referrer" and v is not None:
                    for p in ("scheme", "netloc", "path", "hostname"):
                        getattr(v, p)
                    repr(v)
                if name == "accepted_types":
                    [str(t) for t in v]
                    req.accepts("text/html")
                if name == "query_params":
                    v.multi_items(), str(v)
            except Exception as exc:  # noqa: BLE001
                escape(r, f"asgi.Request.{name}", exc, ctx)
        for order in (("json", "form", "body"), ("form", "body", "json"), ("stream",)):
            chunks = list(rq.get("body") or [b""])
            script = [{"type": "http.request", "body": c, "more_body": i < len(chunks) - 1} for i, c in enumerate(chunks)]
            it = iter(script)

            async def receive():
                try:
                    return dict(next(it))
                except StopIteration:
                    return {"type": "http.disconnect"}

            req = A.Request(gw.make_scope(rq), receive)
            for name in order:
                try:
                    if name == "stream":
                        [c async for c in req.stream()]
                    else:
                        v = await getattr(req, name)
                        if name == "form":
                            for _, item in v.multi_items():
                                if not isinstance(item, str):
                                    await item.aread()
                except Exception as exc:  # noqa: BLE001
                    escape(r, f"asgi.Request.{name}", exc, ctx)
            try:
                await req.close()
            except Exception as exc:  # noqa: BLE001
                escape(r, "asgi.Request.close", exc, ctx)

    gw.run_sync(go())


def oracle_request(case) -> Result:
    r = Result()
    rq = case["request"]
    ctx = f"request {core.to_jsonable(rq)!r}"
    r.nontrivial = bool(case.get("hostile"))
    for lab in case.get("labels", []):
        r.label(lab)
    probe_wsgi_request(r, rq, ctx)
    probe_asgi_request(r, rq, ctx)
    if not r.failures:
        r.label("outcome=clean")
    r.weight = 2
    return r


def _ok_app(side):
    if side == "wsgi":

        def app(environ, start_response):
            req = W.Request(environ)
            _ = req.path_params
            start_response("200 OK", [])
            return [b"ok"]

        return app

    async def app(scope, receive, send):
        req = A.Request(scope, receive, send)
        _ = req.path_params
        await send({"type": "http.response.start", "status": 200, "headers": []})
        await send({"type": "http.response.body", "body": b"ok"})

    return app


def build_apps(side):
    M = W if side == "wsgi" else A
    ok = _ok_app(side)
    d = static_dir()
    return {
        "router": M.Router(("/s/{p}", ok), ("/i/{p:int}", ok), ("/d/{p:decimal}", ok), ("/u/{p:uuid}", ok), ("/t/{p:date}", ok), ("/a/{p:any}", ok),
                           ("/{a:int}-{b:date}.{c:decimal}", ok), ("/", ok)),
        "subpaths": M.Subpaths(("/s", ok), ("/é", ok), ("", ok)),
        "hosts": M.Hosts((r"(www\.)?example\.com", ok), (r".*\.example\.org(:\d+)?", ok)),
        "files": M.Files(d),
        "pages": M.Pages(d),
        "fileresponse": lambda: M.FileResponse(os.path.join(d, "file.txt"), chunk_size=4),
    }


def oracle_apps(case) -> Result:
    r = Result()
    rq = case["request"]
    ctx = f"request {core.to_jsonable(rq)!r}"
    r.nontrivial = bool(case.get("hostile"))
    for lab in case.get("labels", []):
        r.label(lab)
    for side in ("wsgi", "asgi"):
        apps = build_apps(side)
        for name, app in apps.items():
            if name == "fileresponse":
                try:
                    app = app()
                except Exception as exc:  # noqa: BLE001
                    escape(r, f"{side}.FileResponse()", exc, ctx)
                    continue
            run = gw.call_wsgi(app, rq) if side == "wsgi" else gw.call_asgi(app, rq)
            if run.exc is not None:
                escape(r, f"{side}.{name}", run.exc, ctx)
            elif run.status_code is not None and run.status_code >= 500:
                r.fail(f"C12:{side}:{name}:answered-{run.status_code}", ctx)
    if not r.failures:
        r.label("outcome=clean")
    r.weight = 12
    return r


def oracle_parsers(case) -> Result:
    r = Result()
    kind, text = case["kind"], case["text"]
    ctx = f"{kind}({text!r})"
    r.nontrivial = True
    r.label(f"kind={kind}")
    try:
        if kind == "range":
            FileResponseMixin.parse_range(text, case.get("size", 100))
        elif kind == "url":
            try:
                u = URL(text)
            except ValueError:
                # urlsplit's documented contract for text that is not a URL; the application called
                # URL() on a string of its own choice - not one of the request accessors
                r.label("outcome=url-ctor-valueerror")
                return r
            for p in ("scheme", "netloc", "path", "query", "fragment", "username", "password", "hostname"):
                getattr(u, p)
            str(u), repr(u), u == text
        elif kind == "parse_header":
            parse_header(text)
            MediaType(text).match("text/html")
            str(MediaType(text)), str(ContentType(text)), repr(ContentType(text))
        elif kind == "query":
            q = QueryParams(text)
            str(q), q.multi_items(), repr(q)
            QueryParams(text.encode("latin-1", "replace"))
        elif kind == "multipart":
            data = text.encode("latin-1", "replace") if isinstance(text, str) else text
            dec = MultipartDecoder(case.get("boundary", "b").encode("latin-1", "replace"), case.get("charset", "utf-8"))
            step = max(case.get("chunk", 7), len(data) // 200)  # at most 200 chunks: the preamble scan is quadratic in the chunk count
            for i in range(0, len(data), step):
                dec.receive_data(data[i:i + step])
                while True:
                    ev = dec.next_event()
                    if isinstance(ev, (NeedData, Epilogue)):
                        break
            dec.receive_data(None)
            for _ in range(1000):
                ev = dec.next_event()
                if isinstance(ev, Epilogue):
                    break
        else:
            raise core.HarnessError(kind)
        r.label("outcome=value")
    except Exception as exc:  # noqa: BLE001
        escape(r, kind, exc, ctx)
    return r


SUBS = {"request": oracle_request, "apps": oracle_apps, "parsers": oracle_parsers, "sweep": oracle_request, "sweep_apps": oracle_apps, "body_sweep": oracle_request}

# ------------------------------------------------------------------------------------------
# generators

_noise = st.text(alphabet=st.characters(min_codepoint=0, max_codepoint=255), max_size=12)
_digits = st.sampled_from(["0", "1", "10", "-1", "9" * 30, "9" * 5000, "١٢", "1e5", "0x10", " 5", "5 ", ""])

VALID = {
    "Accept": ["*/*", "text/html,application/xhtml+xml;q=0.9,*/*;q=0.8", "application/json"],
    "Content-Type": ["application/json", "application/x-www-form-urlencoded", 'multipart/form-data; boundary="b"', "text/plain; charset=utf-8"],
    "Content-Length": ["0", "12"],
    "Cookie": ["a=1; b=2", 'k="quoted value"; x=y'],
    "Date": ["Wed, 21 Oct 2015 07:28:00 GMT", "Sunday, 06-Nov-94 08:49:37 GMT", "Sun Nov  6 08:49:37 1994"],
    "Referer": ["https://example.org/a?b=1", "/relative/path"],
    "Host": ["example.com", "example.com:8080", "[::1]:8000"],
    "Range": ["bytes=0-4", "bytes=-5", "bytes=0-1,3-4"],
    "If-Range": ['"abc"', "Wed, 21 Oct 2015 07:28:00 GMT"],
    "If-None-Match": ['"abc"', 'W/"abc", "def"', "*"],
    "If-Modified-Since": ["Wed, 21 Oct 2015 07:28:00 GMT"],
    "Transfer-Encoding": ["chunked"],
}

HOSTILE = {
    "Accept": ["", ",", ";", "text/html;q=", "a/b;c=\"", "*/*;" + "q=1;" * 200, "/", "text", "text/;q=x", "\xff/\xff", "a" * 3000],
    "Content-Type": ["", ";", "application/json; charset=", "application/json; charset=nope", "application/json; charset=utf-16", "application/json;charset=\"",
                     "multipart/form-data", "multipart/form-data; boundary=", 'multipart/form-data; boundary="', "multipart/form-data; boundary=\xff; charset=nope",
                     "application/x-www-form-urlencoded; charset=nope", "application/x-www-form-urlencoded; charset=utf-8", "application/x-www-form-urlencoded;charset=utf-16",
                     "multipart/form-data; boundary=b; charset=utf-16", "application/json; charset=idna", "application/json; charset=unicode_escape",
                     "application/x-www-form-urlencoded; charset=undefined", "application/json; charset=zlib", "multipart/form-data; boundary=b; charset=hex"],
    "Content-Length": ["-1", "abc", "9" * 5000, "1.5", "١٢", "", " ", "0x10", "1e3", "٣"],
    "Cookie": ["", ";", "=", "a", "a=\"", "a=\\", "a=\"\\", "a=\"\\07", "a=\"\\9\"", "=;=;", ";" * 300, "a=\xff", "a=" + "\\" * 99, 'a="\\"', "a=1; " * 1500, ";" * 3000, "=" * 3000, "a=" + "\\" * 2001, 'a="' + "\\0" * 1500 + '"'],
    "Date": ["Wed, 21 Oct 2015 07:28:00 -0000", "Wed, 21 Oct 2015 07:28:00", "Wed, 21 Oct 2015 07:28:00 XYZ", "", "x", "Wed, 21 Oct 2015 07:28:00 +9999999999", "Wed, 21 Oct 99999 07:28:00 GMT", "Wed, 32 Oct 2015 07:28:00 GMT", "0", "Wed, 21 Oct 2015 25:61:61 GMT",
             "Wed, 21 Oct 2015 07:28:00 -" + "9" * 50, "21 Oct 0000 00:00:00 GMT", "Wed, 21 Oct 2015 07:28:00 GMT" * 10, "1 Jan 1 0:0:0 +9999", "Thu, 01 Jan 1970 00:00:00 -2400",
             "Mon, 01 Jan 0001 00:00:00 +0100", "Fri, 31 Dec 9999 23:59:59 -0100", "\x00", "Wed, 21 Oct 2015 07:28:00 " + "9" * 400],
    "Referer": ["http://a:b@/", "http://a:b@@/x", "http://:@:/", "http://u@:80/", "http://[", "http://[::1", "http://]", "//[x]/", "http://a:b/", "http://a:99999999/", "http://[::1]:x/", "\x00", "http://\xff/", "http://a@b@c:d/", "http://[v1.x]/", "http://[::1]x/"],
    "Host": ["[", "]", "[::1", "a:b", "a:99999999999", ":", "", "a b", "\xff", "[::1]x", "a" * 3000, "a:-1", "[v1.x]", "a/b?c#d", "a@b", "http://x"],
    "Range": ["bytes=", "bytes=a-b", "bytes=" + "9" * 5000 + "-", "bytes=-" + "9" * 5000, "bytes=٣-٥", "=", "bytes", "bytes=0-" + "1" * 5000, "bytes=--1", "bytes=1-2-3", "bytes=" + "0-0," * 3000 + "0-0"],
    "If-Range": ["", "x", "\xff", '"', "W/"],
    "If-None-Match": ["", ",", '"', "W/", "W/W/", ",,,", "\xff", "*,*"],
    "If-Modified-Since": ["Wed, 21 Oct 2015 07:28:00 -0000", "Wed, 21 Oct 2015 07:28:00", "Wed, 21 Oct 2015 07:28:00 XYZ", "21 Oct 2015 07:28 -00", "Wed, 21 Oct 2015 07:28:00 UT",
                          "Wednesday, 21-Oct-15 07:28:00 GMT", "Wed Oct 21 07:28:00 2015", "", "x", "Wed, 21 Oct 2015 07:28:00 +9999999999", "Wed, 21 Oct 99999 07:28:00 GMT", "1 Jan 1 0:0:0 -9999", "Mon, 01 Jan 0001 00:00:00 +0100",
                          "Fri, 31 Dec 9999 23:59:59 -0100", "Wed, 21 Oct 2015 07:28:00 " + "9" * 400, "Thu, 01 Jan 1970 00:00:00 GMT", "Wed, 31 Dec 1969 00:00:00 GMT"],
    "Transfer-Encoding": ["", "Chunked", "gzip, chunked"],
}


# quoted cookie values with every kind of backslash escape a client can type: octal-looking digits that are not octal
# (8, 9), values above \\377, short and long digit runs, escapes of escapes
import itertools as _it

HOSTILE["Cookie"] += ['a="\\%s"' % "".join(t) for t in _it.product("0389", repeat=3)] + [
    'a="\\8"', 'a="\\18"', 'a="x\\189y"', 'id="price\\099"; b="\\800"', 'a="\\\\\\189"', 'a="\\477"', 'a="\\777"', 'a="\\0000"', 'a="\\1234567890"', 'a="\\x41"', 'a="\\u0041"',
    'a="\\"; b="\\999"', 'a="\\\xff"', 'a="\\12\xe9"', "a=\\189", 'a="\\٣٣٣"'.encode("utf-8").decode("latin-1"), 'a="\\²³¹"'.encode("latin-1").decode("latin-1")]


CODEC_NAMES = ["undefined", "punycode", "idna", "hex", "hex_codec", "base64", "zlib", "bz2", "rot13", "quopri", "uu", "unicode_escape", "raw_unicode_escape", "utf-16", "utf-32", "utf-7",
               "utf-8-sig", "cp037", "mbcs", "oem", "nope", "", " ", "utf-8\x00", "\x00", "latin-1", "ascii", "charmap", "palmos", "big5", "shift_jis", "iso2022_jp", "hz", "unicode_internal", "string_escape",
               "a" * 300, "utf_8;x", "\xe9"]


def mutate(draw, s: str) -> str:
    kind = draw(st.integers(0, 7))
    if not s:
        return draw(_noise)
    i = draw(st.integers(0, len(s) - 1))
    if kind == 0:
        return s[:i]
    if kind == 1:
        return s[:i] + s[i] * 3 + s[i + 1:]
    if kind == 2:
        return s[:i] + chr((ord(s[i]) ^ (1 << draw(st.integers(0, 7)))) & 0xFF) + s[i + 1:]
    if kind == 3:
        return s[:i] + draw(_digits) + s[i:]
    if kind == 4:
        return s + draw(st.sampled_from([";", ",", "=", '"', "\\", " ", "\t", "\x00", "%", "[", "]", ":"]))
    if kind == 5:
        return s[:i] + draw(_noise) + s[i:]
    if kind == 6:
        return s * draw(st.sampled_from([2, 50]))
    return draw(st.sampled_from(["(" * 1000, "[" * 100000, "9" * 5000]))


_paths = st.one_of(
    st.sampled_from([b"/", b"", b"/file.txt", b"/dir/", b"/dir", b"/\xff", b"/\xc3", b"/\xe4\xb8", b"/\x00", b"/a\x00b", b"/" + b"a" * 300, b"/" + b"a/" * 200, b"/%", b"/%zz", b"/..",
                     b"/../../etc/passwd", b"/file.txt/x", b"/file.txt/", b"/i/" + b"9" * 5000, b"/i/\xd9\xa3", b"/t/2021-13-45", b"/t/0000-00-00", b"/d/1x2", b"/d/1.", b"/d/" + b"9" * 400 + b"." + b"9" * 400,
                     b"/u/00000000-0000-0000-0000-000000000000", b"/u/" + b"g" * 36, b"/1-2021-02-30.5", b"/s/\xff", b"/a/\n", b"/\xc3\xa9.txt", b"/\xc3\xa9", b"/s", b"//", b"/a?b#c", b"*", b"http://x/y",
                     b"/dir/\xff.html", b"/index.html/", b"/." * 100, b"/\\..\\", b"/C:\\x"]),
    st.binary(max_size=20).map(lambda b: b"/" + b),
)
_queries = st.one_of(
    st.sampled_from([b"&" * 1500, b"a=1&" * 1200, b";" * 1500, b"", b"a=1", b"a=1&a=2", b"\xff", b"a=\xff&\xc3=1", b"%", b"%zz=%", b"=", b"&&&", b"a=" + b"9" * 5000, b"a" * 3000, b"\x00", b"a=b;c=d", b"?", b"#", b"a[]=1&a[]=2"]),
    st.binary(max_size=20),
)


URLENC_BODIES = [b"a=1&b=2", b"a=%ff&%zz", b"\xff=\xfe", b"a=" + b"x" * 500, b"&", b"a=1;b=2", b"=%", b"a=%E4%B8",
    # very many fields / separators (standard-library parsers have field-count limits that raise ValueError)
    b"&" * 1500, b"a=1&" * 1200, b";" * 1500, b"a&" * 5000, b"=&" * 1001, b"k=v&" * 999 + b"k=v", b"%26" * 2000]
MULTIPART_BAD_BODIES = [
    b"--b\r\nno-colon-header\r\n\r\nx\r\n--b--", b"--b\r\nContent-Type: text/plain\r\n\r\nx\r\n--b--", b"--b\r\nContent-Disposition: form-data\r\n\r\nx\r\n--b--",
    b"--b\r\nContent-Disposition: form-data; name=\"a\"\r\n\r\n", b"--b\r\n", b"--b", b"--b--", b"--b\r\n\r\n\r\n--b--", b"--b\r\n: x\r\n\r\ny\r\n--b--",
    b"--b\r\nContent-Disposition: form-data; name=\"\xff\"; filename=\"\xfe\"\r\n\r\n\xfd\r\n--b--", b"--b\r\nContent-Disposition\r\n\r\nx\r\n--b--",
    b"--b\r\nContent-Disposition: form-data; name=a; filename\r\n\r\nx\r\n--b--", b"--b\r\nContent-Disposition: ; =; ==\"\r\n\r\nx\r\n--b--", b"--b\r\n\xff\xfe: \xfd\r\n\r\nx\r\n--b--",
    b"--b\r\nContent-Disposition: form-data; name=\"a\"\r\n \r\n\tx\r\n\r\ny\r\n--b--", b"--b\r\nA:1\r\n" * 300 + b"\r\nx\r\n--b--", b"\r\n--b--\r\n--b\r\n",
]
JSON_BAD_BODIES = [b"", b"{", b"[" * 100000, b"9" * 5000, b'{"a": 1e999999}', b"\xff\xfe", b'"\\ud800"', b"nul", b"[1,]", b'{"a":' * 2000 + b"1" + b"}" * 2000, b"-" + b"9" * 4301, b"NaN", b"\xef\xbb\xbf{}", b'"\\u00"', b"{} x"]


def _bodies(draw, ctype: str):
    kind = draw(st.integers(0, 9))
    if "multipart" in ctype and draw(st.integers(0, 2)) > 0:
        kind = draw(st.sampled_from([3, 3, 4]))
    elif "urlencoded" in ctype and draw(st.integers(0, 2)) > 0:
        kind = 2
    elif "json" in ctype and draw(st.integers(0, 2)) > 0:
        kind = draw(st.sampled_from([0, 5, 7]))
    if kind <= 1:
        raw = json.dumps(draw(gen.json_values), ensure_ascii=draw(st.booleans())).encode("utf-8")
    elif kind == 2:
        raw = draw(st.sampled_from(URLENC_BODIES))
    elif kind == 3:
        form = draw(gen.forms(max_parts=3, max_pieces=3))
        form["boundary"] = "b"
        for p in form["parts"]:
            while b"--b" in p["content"]:
                p["content"] = p["content"].replace(b"--b", b"")
        raw = mref.encode(form)
    elif kind == 4:
        raw = draw(st.sampled_from(MULTIPART_BAD_BODIES))
    elif kind == 5:
        raw = draw(st.sampled_from(JSON_BAD_BODIES))
    elif kind == 6:
        raw = draw(st.binary(max_size=60))
    else:
        base = json.dumps({"k": [1, 2, 3], "s": "é"}).encode("utf-8")
        i = draw(st.integers(0, len(base) - 1))
        raw = draw(st.sampled_from([base[:i], base[:i] + bytes([base[i] ^ 0x80]) + base[i + 1:], base + base]))
    cuts = draw(st.lists(st.integers(0, max(len(raw), 1)), max_size=3))
    return mref.chunks_from_cuts(raw, cuts)


@st.composite
def request_case(draw, for_apps=False):
    labels = []
    hostile = False
    headers = []
    names = draw(st.lists(st.sampled_from(sorted(VALID)), min_size=0, max_size=5, unique=True))
    for n in names:
        mode = draw(st.integers(0, 9))
        if mode <= 1:
            v = draw(st.sampled_from(VALID[n]))
        elif mode <= 5:
            v = draw(st.sampled_from(HOSTILE[n]))
            hostile = True
        elif mode <= 8:
            v = mutate(draw, draw(st.sampled_from(VALID[n] + HOSTILE[n])))
            hostile = True
        else:
            v = draw(_noise)
            hostile = True
        v = v.replace("\r", "").replace("\n", "")  # a server never passes line breaks inside a header value
        try:
            v.encode("latin-1")
        except UnicodeEncodeError:
            v = v.encode("utf-8").decode("latin-1")
        headers.append([n, v.strip(" \t")])
        labels.append(f"hdr={n}")
    # the charset parameter is client-controlled for all three body kinds: combine every media type with odd codec names
    if draw(st.integers(0, 2)) == 0:
        media = draw(st.sampled_from(["application/json", "application/x-www-form-urlencoded", 'multipart/form-data; boundary="b"', "multipart/form-data; boundary=b"]))
        cs = draw(st.sampled_from(CODEC_NAMES))
        headers = [h for h in headers if h[0] != "Content-Type"] + [["Content-Type", f"{media}; charset={cs}"]]
        labels.append("odd-charset")
        hostile = True
    path = draw(_paths)
    if for_apps and draw(st.booleans()):
        # reach the file / route handlers: an existing target plus hostile validators
        path = draw(st.sampled_from([b"/file.txt", b"/index.html", b"/dir/", b"/dir/a", b"/\xc3\xa9.txt", b"/", b"/i/42", b"/t/2021-03-07", b"/s/x", b"/a/b/c"]))
        for name in draw(st.lists(st.sampled_from(["If-Modified-Since", "If-None-Match", "Range", "If-Range", "Host"]), min_size=1, max_size=3, unique=True)):
            v = draw(st.sampled_from(HOSTILE[name] + VALID[name]))
            if draw(st.integers(0, 4)) == 0:
                v = mutate(draw, v)
            v = v.replace("\r", "").replace("\n", "").strip(" \t")
            try:
                v.encode("latin-1")
            except UnicodeEncodeError:
                v = v.encode("utf-8").decode("latin-1")
            headers = [h for h in headers if h[0] != name] + [[name, v]]
        hostile = True
        labels.append("targeted-app-request")
    query = draw(_queries)
    ctype = next((v for k, v in headers if k == "Content-Type"), "")
    body = _bodies(draw, ctype)
    if any(b > 127 or b < 32 for b in path + query) or len(path) > 100:
        hostile = True
        labels.append("hostile-path-or-query")
    rq = gw.areq(method=draw(st.sampled_from(["GET", "POST", "HEAD", "PUT"])), headers=headers, body=body, query=query, path_bytes=path, path="/")
    return {"request": rq, "hostile": hostile or any(any(c > 127 for c in ch) for ch in body), "labels": labels}


_ptext = st.one_of(
    st.sampled_from([v for vs in HOSTILE.values() for v in vs] + [v for vs in VALID.values() for v in vs]),
    _noise,
    st.text(max_size=10),
)


@st.composite
def parser_case(draw):
    kind = draw(st.sampled_from(["range", "url", "url", "parse_header", "query", "multipart"]))
    text = draw(_ptext)
    if draw(st.integers(0, 2)) == 0:
        text = mutate(draw, text)
    case = {"kind": kind, "text": text}
    if kind == "range":
        case["size"] = draw(st.sampled_from([0, 1, 100, 10**12]))
        if draw(st.booleans()):
            case["text"] = "bytes=" + text
    if kind == "multipart":
        case["boundary"] = draw(st.sampled_from(["b", "", "-", "\xff", "a b", "(", "[", "\\", "*", "." * 80]))
        case["charset"] = draw(st.sampled_from(["utf-8", "latin-1"] + CODEC_NAMES))
        case["chunk"] = draw(st.sampled_from([1, 7, 1000]))
        if draw(st.booleans()):
            case["text"] = b"".join(_bodies(draw, "")).decode("latin-1")
    if kind == "url":
        case["text"] = draw(st.sampled_from(["", "http://", "//", "http://["]) ) + text if draw(st.booleans()) else text
    return case



def oracle_atheris(case) -> Result:
    """Replay / triage oracle for inputs found by the Atheris campaign: decode the bytes like the fuzz target does."""
    from fuzz import targets

    inner = targets.CASES["C12"](case["data"])
    res = oracle_request(inner)
    if not res.failures:
        res = oracle_apps(inner)
    res.label("atheris")
    return res


SUBS["atheris"] = oracle_atheris

def _clean(v: str) -> str:
    v = v.replace("\r", "").replace("\n", "").strip(" \t")
    try:
        v.encode("latin-1")
    except UnicodeEncodeError:
        v = v.encode("utf-8").decode("latin-1")
    return v


def sweep_cases(for_apps: bool):
    """Every dictionary value of every header name on its own (the random sub-checks combine them; this
    makes sure each single value is met at every seed).  For the application sweep the request names an
    existing file / route so that validators and ranges are actually evaluated."""
    extra_dates = [
        "Fri, 31 Dec 9999 23:59:59 -0030", "Fri, 31 Dec 9999 23:59:59 PST", "Fri, 31 Dec 9999 23:59:59 -2359", "Mon, 01 Jan 0001 00:00:00 +0001",
        "Mon, 01 Jan 0001 00:00:00 +2359", "Mon, 01 Jan 0001 00:00:00 EST", "Fri, 31 Dec 9999 23:59:59 GMT", "Mon, 01 Jan 0001 00:00:00 GMT",
        "Thu, 01 Jan 1970 00:00:00 +2400", "Sat, 29 Feb 2021 00:00:00 GMT", "Wed, 21 Oct 2015 07:28:60 GMT", "Wed, 21 Oct 2015 24:00:00 GMT",
    ]
    for name in sorted(VALID):
        values = list(VALID[name]) + list(HOSTILE[name])
        if name in ("Date", "If-Modified-Since", "If-Range"):
            values += extra_dates
        for v in values:
            paths = [b"/"] if not for_apps else [b"/file.txt", b"/dir/", b"/i/42"]
            for path in paths:
                rq = gw.areq(method="GET", headers=[[name, _clean(v)]], body=[b""], query=b"", path_bytes=path, path="/")
                yield {"request": rq, "hostile": True, "labels": [f"sweep={name}"]}


def body_sweep_cases():
    """Every dictionary body under its matching content type (and the urlencoded ones also as query string)."""
    pairs = [("application/x-www-form-urlencoded", b) for b in URLENC_BODIES] + [("application/x-www-form-urlencoded; charset=utf-8", b) for b in URLENC_BODIES]
    pairs += [('multipart/form-data; boundary="b"', b) for b in MULTIPART_BAD_BODIES] + [("application/json", b) for b in JSON_BAD_BODIES]
    for ctype, body in pairs:
        for chunks in ([body], [body[: len(body) // 2], body[len(body) // 2:]]):
            rq = gw.areq(method="POST", headers=[["Content-Type", ctype]], body=chunks, query=b"", path_bytes=b"/", path="/")
            yield {"request": rq, "hostile": True, "labels": ["body-sweep"]}
    for q in URLENC_BODIES:
        rq = gw.areq(method="GET", headers=[], body=[b""], query=q, path_bytes=b"/", path="/")
        yield {"request": rq, "hostile": True, "labels": ["query-sweep"]}


def run(rec, only=None):
    quick = rec.tier == "quick"
    mb = 2 if quick else 12
    core.drive_cases(rec, "body_sweep", body_sweep_cases(), oracle_request)
    rec.exhaustive["body_sweep"] = True
    core.drive_cases(rec, "sweep", sweep_cases(False), oracle_request)
    core.drive_cases(rec, "sweep_apps", sweep_cases(True), oracle_apps)
    rec.exhaustive["sweep"] = rec.exhaustive["sweep_apps"] = True
    core.drive_hypothesis(rec, "request", request_case(), oracle_request, 3000 if quick else 60000, max_buckets=mb)
    core.drive_hypothesis(rec, "apps", request_case(True), oracle_apps, 1500 if quick else 30000, seed_offset=1, max_buckets=mb)
    core.drive_hypothesis(rec, "parsers", parser_case(), oracle_parsers, 3000 if quick else 60000, seed_offset=2, max_buckets=mb)
    for k in SUBS:
        rec.exhaustive[k] = False
    if not quick:
        # coverage-guided second engine (Atheris / libFuzzer), same oracle inside the target
        from fuzz import driver

        driver.campaign(rec, "C12", oracle_atheris, runs=60000, seeds=[b'\x02\x00\x00\x03\x01\x00\x04/a?b', b''], max_total_time=420, jobs=8)
