"""C17 - Multi-value mappings stay consistent under any operation sequence."""
from __future__ import annotations

import itertools

from hypothesis import strategies as st

from baize.datastructures import FormData, MultiMapping, MutableMultiMapping, QueryParams

from harness import core
from harness.core import Result

LEVEL = "exploration"
RULES = {
    "exh": "exhaustive: every operation sequence of length <= n over keys {a,b}, values {1,2} and ~40 concrete operations "
    "(assign, delete, append, setlist, poplist, pop, pop-default, popitem, setdefault, update x3 forms, clear, view-mutation, "
    "snapshot) from every initial pair list of length <= 2 in 4 constructor forms; non-trivial = some key has >= 2 values at "
    "some point and a later operation touches that key",
    "long": "Hypothesis: sequences up to 50 operations over 4 keys / 4 values; same non-trivial rule",
    "query": "Hypothesis: QueryParams / FormData built from arbitrary text pairs expose the list-of-pairs views; "
    "QueryParams(str(q)) == q and has the same multi_items; non-trivial = a repeated key or a character that needs percent-encoding",
}
ASSUMPTIONS = [
    "popitem may remove any present key (returns it with its last value)",
    "update(mapping) assigns, per distinct key of the argument in first-occurrence order, the argument's value for it "
    "(last value for a multi-mapping argument), as collections.abc.MutableMapping.update does",
]

_MISSING = "<missing>"


# ------------------------------------------------------------------------------------------
# model: plain ordered list of pairs


def m_assign(model, k, v):
    for i, (kk, _) in enumerate(model):
        if kk == k:
            model[i] = (k, v)
            model[i + 1:] = [(a, b) for a, b in model[i + 1:] if a != k]
            return
    model.append((k, v))


def m_remove(model, k):
    model[:] = [(a, b) for a, b in model if a != k]


def m_values(model, k):
    return [b for a, b in model if a == k]


def m_keys(model):
    out = []
    for a, _ in model:
        if a not in out:
            out.append(a)
    return out


def build(form, pairs):
    """-> (real mapping, model list)"""
    pairs = [tuple(p) for p in pairs]
    if form == "none":
        return MutableMultiMapping(), []
    if form == "pairs":
        src = list(pairs)
        m = MutableMultiMapping(src)
        src.append(("zz", 99))  # the constructor must have copied
        return m, list(pairs)
    if form == "iter":
        return MutableMultiMapping(iter(pairs)), list(pairs)
    if form == "dict":
        d = dict(pairs)
        return MutableMultiMapping(d), list(d.items())
    if form == "multi":
        return MutableMultiMapping(MultiMapping(pairs)), list(pairs)
    raise core.HarnessError(form)


def call(fn):
    try:
        return ("ok", fn())
    except KeyError:
        return ("KeyError", None)


def views_problems(m, model, keys):
    probs = []
    if m.multi_items() != model:
        probs.append(("multi_items", f"{m.multi_items()!r} != {model!r}"))
    distinct = m_keys(model)
    for k in keys:
        vals = m_values(model, k)
        if m.getlist(k) != vals:
            probs.append(("getlist", f"getlist({k!r}) = {m.getlist(k)!r}, model {vals!r}"))
        got = call(lambda: m[k])
        want = ("ok", vals[-1]) if vals else ("KeyError", None)
        if got != want:
            probs.append(("getitem", f"m[{k!r}] -> {got!r}, model {want!r}"))
        if (k in m) != bool(vals):
            probs.append(("contains", f"{k!r} in m = {k in m}, model {bool(vals)}"))
        if m.get(k, _MISSING) != (vals[-1] if vals else _MISSING):
            probs.append(("get", f"get({k!r}) = {m.get(k, _MISSING)!r}"))
    ks = list(m.keys())
    if len(ks) != len(set(ks)) or set(ks) != set(distinct):
        probs.append(("keys", f"keys() = {ks!r}, model distinct keys {distinct!r}"))
    if list(iter(m)) != ks:
        probs.append(("keys", f"iter() {list(iter(m))!r} != keys() {ks!r}"))
    if len(m) != len(distinct):
        probs.append(("len", f"len = {len(m)}, model {len(distinct)}"))
    if dict(m.items()) != {k: m_values(model, k)[-1] for k in distinct}:
        probs.append(("items", f"items() = {list(m.items())!r}"))
    if sorted(map(repr, m.values())) != sorted(repr(m_values(model, k)[-1]) for k in distinct):
        probs.append(("values", f"values() = {list(m.values())!r}"))
    fresh = MutableMultiMapping(list(model))
    if not (m == fresh) or not (fresh == m):
        probs.append(("eq", f"mapping != fresh mapping built from {model!r}"))
    other = MutableMultiMapping(list(model) + [("__extra__", 0)])
    if m == other:
        probs.append(("eq", "mapping == a mapping with an extra pair"))
    return probs


def apply_op(m, model, op):
    """Apply op to both; return (name, real outcome, model outcome)."""
    name = op[0]
    if name == "set":
        _, k, v = op
        real = call(lambda: m.__setitem__(k, v))
        m_assign(model, k, v)
        return name, real, ("ok", None)
    if name == "del":
        _, k = op
        want = ("ok", None) if m_values(model, k) else ("KeyError", None)
        real = call(lambda: m.__delitem__(k))
        m_remove(model, k)
        return name, real, want
    if name == "append":
        _, k, v = op
        real = call(lambda: m.append(k, v))
        model.append((k, v))
        return name, real, ("ok", None)
    if name == "setlist":
        _, k, vals = op
        vals = list(vals)
        real = call(lambda: m.setlist(k, vals))
        m_remove(model, k)
        model.extend((k, v) for v in vals)
        return name, real, ("ok", None)
    if name == "poplist":
        _, k = op
        want = ("ok", m_values(model, k))
        real = call(lambda: m.poplist(k))
        m_remove(model, k)
        return name, real, want
    if name == "pop":
        _, k = op
        vals = m_values(model, k)
        want = ("ok", vals[-1]) if vals else ("KeyError", None)
        real = call(lambda: m.pop(k))
        m_remove(model, k)
        return name, real, want
    if name == "popd":
        _, k = op
        vals = m_values(model, k)
        want = ("ok", vals[-1] if vals else "dflt")
        real = call(lambda: m.pop(k, "dflt"))
        m_remove(model, k)
        return name, real, want
    if name == "popitem":
        real = call(lambda: m.popitem())
        if not model:
            return name, real, ("KeyError", None)
        if real[0] == "ok" and isinstance(real[1], tuple) and len(real[1]) == 2 and m_values(model, real[1][0]):
            k = real[1][0]
            want = ("ok", (k, m_values(model, k)[-1]))
            m_remove(model, k)
            return name, real, want
        return name, real, ("ok", "<some present key with its last value>")
    if name == "setdefault":
        _, k, v = op
        vals = m_values(model, k)
        want = ("ok", vals[-1] if vals else v)
        real = call(lambda: m.setdefault(k, v))
        if not vals:
            model.append((k, v))
        return name, real, want
    if name == "update_dict":
        _, pairs = op
        d = dict(tuple(p) for p in pairs)
        real = call(lambda: m.update(d))
        for k, v in d.items():
            m_assign(model, k, v)
        return name, real, ("ok", None)
    if name == "update_pairs":
        _, pairs = op
        pairs = [tuple(p) for p in pairs]
        real = call(lambda: m.update(pairs))
        for k, v in pairs:
            m_assign(model, k, v)
        return name, real, ("ok", None)
    if name == "update_kw":
        _, pairs = op
        d = {str(k): v for k, v in pairs}
        real = call(lambda: m.update(**d))
        for k, v in d.items():
            m_assign(model, k, v)
        return name, real, ("ok", None)
    if name == "update_multi":
        _, pairs = op
        pairs = [tuple(p) for p in pairs]
        real = call(lambda: m.update(MultiMapping(pairs)))
        for k in m_keys(pairs):
            m_assign(model, k, m_values(pairs, k)[-1])
        return name, real, ("ok", None)
    if name == "clear":
        real = call(lambda: m.clear())
        del model[:]
        return name, real, ("ok", None)
    if name == "mutate_view":
        v = m.multi_items()
        v.append(("view", 0))
        if v:
            v.pop(0)
        g = m.getlist(op[1])
        g.append(77)
        return name, ("ok", None), ("ok", None)
    raise core.HarnessError(f"unknown op {op!r}")


def _touched_key(op):
    if op[0] in ("set", "del", "append", "setlist", "poplist", "pop", "popd", "setdefault", "mutate_view"):
        return {op[1]}
    if op[0] in ("update_dict", "update_pairs", "update_multi", "update_kw"):
        return {str(p[0]) if op[0] == "update_kw" else p[0] for p in op[1]}
    return None  # popitem / clear / snapshot: touches everything


def oracle(case) -> Result:
    r = Result()
    form, init, ops, keys = case["form"], case["init"], case["ops"], case["keys"]
    m, model = build(form, init)
    snapshots = []
    multi_seen = False
    for k, p in views_problems(m, model, keys):
        r.fail(f"C17:init-{form}:{k}", f"after construction ({form}) from {init!r}: {p}")
    for i, op in enumerate(ops):
        had_multi = {k for k in m_keys(model) if len(m_values(model, k)) >= 2}
        if op[0] == "snapshot":
            snapshots.append((MutableMultiMapping(m), list(model)))
            continue
        name, real, want = apply_op(m, model, op)
        tk = _touched_key(op)
        if had_multi and (tk is None or (tk & had_multi)):
            multi_seen = True
        if want[1] == "<some present key with its last value>":
            r.fail("C17:ret:popitem", f"step {i} popitem returned {real!r} from non-empty mapping")
        elif real != want:
            r.fail(f"C17:ret:{name}", f"step {i} {op!r}: returned {real!r}, model {want!r}; history {ops[:i + 1]!r} from {form}:{init!r}")
        for k, p in views_problems(m, model, keys):
            r.fail(f"C17:view:{k}:after-{name}", f"step {i} {op!r}: {p}; history {ops[:i + 1]!r} from {form}:{init!r}")
        if r.failures:
            break
    for snap, smodel in snapshots:
        if snap.multi_items() != smodel:
            r.fail("C17:snapshot-aliasing", f"copy taken earlier changed: {snap.multi_items()!r} != {smodel!r}")
    r.nontrivial = multi_seen
    n = len(ops)
    r.label("len=" + (str(n) if n <= 3 else "4-8" if n <= 8 else "9-20" if n <= 20 else "21-50"), f"form={form}")
    if multi_seen:
        r.label("multi-key-touched")
    return r


# ------------------------------------------------------------------------------------------
# QueryParams / FormData


def oracle_query(case) -> Result:
    from urllib.parse import quote_plus

    r = Result()
    pairs = [tuple(p) for p in case["pairs"]]
    keys = m_keys(pairs) + ["__absent__"]
    for cls in (QueryParams, FormData, MultiMapping):
        m = cls(list(pairs))
        if m.multi_items() != pairs:
            r.fail(f"C17:{cls.__name__}:multi_items", f"{m.multi_items()!r} != {pairs!r}")
        for k in keys:
            vals = m_values(pairs, k)
            if m.getlist(k) != vals:
                r.fail(f"C17:{cls.__name__}:getlist", f"getlist({k!r}) {m.getlist(k)!r} != {vals!r}")
            got = call(lambda: m[k])
            if got != (("ok", vals[-1]) if vals else ("KeyError", None)):
                r.fail(f"C17:{cls.__name__}:getitem", f"m[{k!r}] -> {got!r}, values {vals!r}")
            if (k in m) != bool(vals):
                r.fail(f"C17:{cls.__name__}:contains", f"{k!r} in m")
        if set(m.keys()) != set(m_keys(pairs)) or len(m) != len(m_keys(pairs)):
            r.fail(f"C17:{cls.__name__}:keys", f"keys {list(m.keys())!r} len {len(m)} for {pairs!r}")
        if not (m == cls(list(pairs))):
            r.fail(f"C17:{cls.__name__}:eq", f"not equal to a twin built from {pairs!r}")
    q = QueryParams(list(pairs))
    s = str(q)
    back = QueryParams(s)
    if not (back == q) or not (q == back):
        r.fail("C17:query-roundtrip:eq", f"QueryParams(str(q)) != q for {pairs!r}; str = {s!r}")
    if back.multi_items() != pairs:
        r.fail("C17:query-roundtrip:items", f"QueryParams({s!r}).multi_items() = {back.multi_items()!r}, original {pairs!r}")
    try:
        sb = s.encode("latin-1")
    except UnicodeEncodeError:
        r.fail("C17:query-str-not-ascii", f"str(q) = {s!r}")
    else:
        if QueryParams(sb).multi_items() != pairs:
            r.fail("C17:query-roundtrip:bytes", f"QueryParams({sb!r}).multi_items() differs from {pairs!r}")
    if QueryParams(q).multi_items() != pairs or QueryParams(dict(pairs)).multi_items() != list(dict(pairs).items()):
        r.fail("C17:query-ctor", f"constructor forms disagree for {pairs!r}")
    special = any(quote_plus(k) != k or quote_plus(v) != v for k, v in pairs)
    repeated = len(m_keys(pairs)) < len(pairs)
    r.nontrivial = special or repeated
    if special:
        r.label("needs-encoding")
    if repeated:
        r.label("repeated-key")
    r.label(f"pairs={min(len(pairs), 5)}")
    return r


SUBS = {"exh": oracle, "long": oracle, "query": oracle_query}

# ------------------------------------------------------------------------------------------
# enumeration / generation

K2, V2 = ["a", "b"], [1, 2]


def concrete_ops(keys, vals):
    ops = []
    for k in keys:
        for v in vals:
            ops.append(["set", k, v])
            ops.append(["append", k, v])
            ops.append(["setdefault", k, v])
        ops.append(["del", k])
        ops.append(["poplist", k])
        ops.append(["pop", k])
        ops.append(["popd", k])
        for lst in ([], [vals[0]], [vals[1]], [vals[0], vals[1]], [vals[1], vals[1]]):
            ops.append(["setlist", k, lst])
    ops.append(["popitem"])
    ops.append(["clear"])
    ops.append(["mutate_view", keys[0]])
    ops.append(["snapshot"])
    a, b = keys[0], keys[1]
    v, w = vals[0], vals[1]
    for d in ([[a, v]], [[b, w]], [[a, w], [b, v]]):
        ops.append(["update_dict", d])
    for p in ([[a, v], [a, w]], [[b, v], [a, w]], [[b, w], [b, v], [a, v]]):
        ops.append(["update_pairs", p])
        ops.append(["update_multi", p])
    ops.append(["update_kw", [[a, w]]])
    return ops


def initial_lists(keys, vals, maxlen):
    pairs = [[k, v] for k in keys for v in vals]
    for n in range(maxlen + 1):
        for combo in itertools.product(pairs, repeat=n):
            yield [list(p) for p in combo]


def exh_shard(rec, k, nshards, maxlen):
    ops = concrete_ops(K2, V2)
    inits = list(initial_lists(K2, V2, 2))
    g = core.guarded(oracle)
    i = 0
    for n in range(0, maxlen + 1):
        for seq in itertools.product(ops, repeat=n):
            i += 1
            if i % nshards != k:
                continue
            for init in inits:
                forms = ["pairs", "multi"] if init else ["none", "pairs"]
                if init and i % 3 == 0:
                    forms.append("dict")
                if i % 5 == 0:
                    forms.append("iter")
                for form in forms:
                    case = {"form": form, "init": init, "ops": list(seq), "keys": K2 + ["c"]}
                    res = g(case)
                    res.key = (form, repr(init), repr(seq))
                    rec.count("exh", case, res)
                    new, old = rec.split(res)
                    rec.note_known(old)
                    for f in new:
                        rec.add_violation("exh", f, case)
                        rec.skip.add(f.bucket)


K4 = ["a", "b", "c", "d"]
V4 = [0, 1, "x", ""]


def long_case():
    key = st.sampled_from(K4)
    val = st.sampled_from(V4)
    pair = st.tuples(key, val).map(list)
    op = st.one_of(
        st.tuples(st.just("set"), key, val),
        st.tuples(st.just("append"), key, val),
        st.tuples(st.just("append"), key, val),
        st.tuples(st.just("setdefault"), key, val),
        st.tuples(st.just("del"), key),
        st.tuples(st.just("poplist"), key),
        st.tuples(st.just("pop"), key),
        st.tuples(st.just("popd"), key),
        st.tuples(st.just("setlist"), key, st.lists(val, max_size=3)),
        st.tuples(st.just("popitem")),
        st.tuples(st.just("clear")),
        st.tuples(st.just("snapshot")),
        st.tuples(st.just("mutate_view"), key),
        st.tuples(st.just("update_dict"), st.lists(pair, max_size=3)),
        st.tuples(st.just("update_pairs"), st.lists(pair, max_size=4)),
        st.tuples(st.just("update_multi"), st.lists(pair, max_size=4)),
        st.tuples(st.just("update_kw"), st.lists(pair, max_size=2)),
    ).map(list)
    return st.fixed_dictionaries(
        {
            "form": st.sampled_from(["none", "pairs", "iter", "dict", "multi"]),
            "init": st.lists(pair, max_size=6),
            "ops": st.one_of(st.lists(op, max_size=8), st.lists(op, min_size=12, max_size=50)),
            "keys": st.just(K4 + ["zz"]),
        }
    ).map(lambda c: {**c, "init": [] if c["form"] == "none" else c["init"]})


_qtext = st.one_of(
    st.sampled_from(["", "a", "b", "k", " ", "&", "=", "+", "%", "%26", ";", "#", "?", "/", "é", "中文", "\x00", "\n", "a b", "a&b=c", "\U0001f600"]),
    st.text(alphabet=st.characters(exclude_categories=["Cs"]), max_size=6),
)


def query_case():
    return st.fixed_dictionaries({"pairs": st.lists(st.tuples(_qtext, _qtext).map(list), max_size=8)})


def run(rec, only=None):
    quick = rec.tier == "quick"
    if quick:
        core.run_sharded(rec, exh_shard, 8, min(8, core.ncpu()), (2,))
    else:
        core.run_sharded(rec, exh_shard, 64, core.ncpu(), (3,))
    rec.exhaustive["exh"] = True
    core.drive_hypothesis(rec, "long", long_case(), oracle, 1500 if quick else 30000)
    core.drive_hypothesis(rec, "query", query_case(), oracle_query, 1500 if quick else 30000, seed_offset=3)
    rec.exhaustive["long"] = rec.exhaustive["query"] = False
