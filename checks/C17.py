"""C17 - Multi-value mappings stay consistent under any operation sequence."""
from __future__ import annotations

import collections
import itertools
import types

from hypothesis import strategies as st

from baize.datastructures import FormData, MultiMapping, MutableMultiMapping, QueryParams

from harness import core
from harness.core import Result

LEVEL = "exploration"
RULES = {
    "exh": "exhaustive: every operation sequence of length <= n over keys {a,b}, values {1,2} and ~40 concrete operations "
    "(assign, delete, append, setlist, poplist, pop, pop-default, popitem, setdefault, update x3 forms, clear, view-mutation, "
    "snapshot) from every initial pair list of length <= 2 in 4 constructor forms; non-trivial = some key has >= 2 values at "
    "some point and a later operation touches that key",
    "long": "Hypothesis: sequences up to 50 operations over 4 keys / 4 values; same non-trivial rule",
    "query": "Hypothesis: QueryParams / FormData built from arbitrary text pairs expose the list-of-pairs views; "
    "QueryParams(str(q)) == q and has the same multi_items; non-trivial = a repeated key or a character that needs percent-encoding",
    "alph": "exhaustive: every operation sequence of length <= 2 (the ~40 operations of `exh` plus pop(k, None), setdefault(k), "
    "update(dict, **kw), update(iterator), update(self), update(), update(other=..), setlist(tuple)) over 10 two-key / two-value "
    "alphabets - keys that are equal to but never the same object as the stored key (strings built at run time, large ints), "
    "1 / 1.0, '' / None, tuples; values None, 0, '', False, lists, dicts (unhashable), identity-only objects, 1 / '1' (unorderable) - "
    "length <= 1 from every initial pair list of length <= 2 and nine of length 3 (thorough: every list of length <= 3), length 2 "
    "from one initial list for six of the alphabets (thorough: five lists, every alphabet), in 10 constructor forms "
    "(adds MappingProxyType, UserDict, QueryParams, FormData, MutableMultiMapping sources; every source is looked at again "
    "at the end and must be as it was); same non-trivial rule",
    "deep": "exhaustive: every initial pair list over keys {a,b} of length 3..5 (6 in thorough; values all different, or all equal) "
    "x every single operation (thorough: every pair of operations for length 3): keys with 3+ values that are not adjacent; "
    "same non-trivial rule",
    "qexh": "exhaustive: the `query` oracle on every single code point U+0000..U+017F and a few beyond as key / value / both, every "
    "pair over 18 special strings, every list of <= 2 pairs over 6 of them, every list of 3 pairs over {'', 'a'}; plus identity-only "
    "objects (upload files) as form values; same non-trivial rule as `query`",
    "qbulk": "fixed: query / form / plain mappings of 1001 and 2000 (thorough: up to 5000) pairs (all keys different, 7 keys, one key): views at sampled keys, "
    "QueryParams(str(q)) has the same item list and equals q; non-trivial always",
    "qraw": "fixed list + Hypothesis: a query mapping born from an arbitrary raw query string (blank segments, bare keys, stray "
    "'=', '%', ';', '#', '+', broken escapes, 8-bit text): its views agree with its own item list, and parsed from its own string "
    "form it has the same item list and equals itself (also through the bytes form); non-trivial = the string is not its own canonical form",
}
ASSUMPTIONS = [
    "popitem may remove any present key (returns it with its last value)",
    "update(mapping) assigns, per distinct key of the argument in first-occurrence order, the argument's value for it "
    "(last value for a multi-mapping argument), as collections.abc.MutableMapping.update does",
    "update(mapping, **kw) assigns the keyword arguments after the mapping's keys; update(self) assigns every key its own last value",
    "setdefault(k) without a default stores None, pop(k, None) of an absent key returns None (collections.abc.MutableMapping)",
    "any hashable object is a legitimate key and any object a legitimate value (the classes are generic); keys are compared with ==",
    "equality is only ever demanded between mappings holding the same pair list, and refused only for a mapping with one extra key",
]

_MISSING = "<missing>"



# ------------------------------------------------------------------------------------------
# case data -> keys and values
#
# Cases are plain JSON-able data.  A key spec is a str / int / float / bool / None, or a list (-> tuple key).
# A value spec is any JSON value; a list or dict stays a list / dict (an unhashable, unorderable value), and
# {"$obj": n} stands for the n-th of a few module-level objects that have identity equality only (what an
# upload file is to a form mapping).  `dk` builds a NEW key object on every call wherever Python allows it
# (strings of >= 2 characters, ints outside the small-int cache, floats, tuples), so the key handed to an
# operation or a lookup is equal to, but not the same object as, the key stored earlier - the situation of
# every real caller (a key parsed from a request vs. a literal in the application).


class _Opaque:
    __slots__ = ("n",)

    def __init__(self, n):
        self.n = n

    def __repr__(self):
        return f"<obj{self.n}>"


_OBJS = [_Opaque(i) for i in range(4)]


def dk(k):
    if isinstance(k, (list, tuple)):
        return tuple(dk(x) for x in k)
    if isinstance(k, str):
        return "".join(list(k)) if len(k) > 1 else k
    if k is None or isinstance(k, bool):
        return k
    if isinstance(k, int):
        return int(str(k))
    if isinstance(k, float):
        return float(repr(k))
    raise core.HarnessError(f"key spec {k!r}")


def dv(v):
    if isinstance(v, dict):
        if set(v) == {"$obj"}:
            return _OBJS[v["$obj"]]
        return {kk: dv(x) for kk, x in v.items()}
    if isinstance(v, (list, tuple)):
        return [dv(x) for x in v]
    return v


def dpairs(pairs):
    return [(dk(p[0]), dv(p[1])) for p in pairs]


# ------------------------------------------------------------------------------------------
# model: plain ordered list of pairs


def m_assign(model, k, v):
    for i, (kk, _) in enumerate(model):
        if kk == k:
            model[i] = (k, v)
            model[i + 1:] = [(a, b) for a, b in model[i + 1:] if a != k]
            return
    model.append((k, v))


def m_remove(model, k):
    model[:] = [(a, b) for a, b in model if a != k]


def m_values(model, k):
    return [b for a, b in model if a == k]


def m_keys(model):
    out = []
    for a, _ in model:
        if a not in out:
            out.append(a)
    return out


def _same_multiset(xs, ys):
    ys = list(ys)
    for x in xs:
        for i, y in enumerate(ys):
            if x is y or x == y:
                del ys[i]
                break
        else:
            return False
    return not ys


def call(fn):
    try:
        return ("ok", fn())
    except KeyError:
        return ("KeyError", None)
    except TypeError as exc:
        # A call the mapping's signature does not even accept (say a keyword argument of update() that collides with
        # a parameter name) is refused by the interpreter before any baize frame exists; that is an outcome of the
        # operation under test, not a defect of the harness.  Anything raised deeper is left to core.guarded.
        tb = exc.__traceback__
        if tb is not None and tb.tb_next is not None and tb.tb_next.tb_next is None:
            return ("TypeError", str(exc))
        raise


def ro_views_problems(m, model, keys):
    """The read-only views of any multi mapping against a list of pairs (keys = key specs to probe)."""
    probs = []
    if m.multi_items() != model:
        probs.append(("multi_items", f"{m.multi_items()!r} != {model!r}"))
    distinct = m_keys(model)
    for spec in keys:
        k = dk(spec)
        vals = m_values(model, k)
        got = m.getlist(dk(spec))
        if got != vals:
            probs.append(("getlist", f"getlist({k!r}) = {got!r}, model {vals!r}"))
        got = call(lambda: m[dk(spec)])
        want = ("ok", vals[-1]) if vals else ("KeyError", None)
        if got != want:
            probs.append(("getitem", f"m[{k!r}] -> {got!r}, model {want!r}"))
        if (dk(spec) in m) != bool(vals):
            probs.append(("contains", f"{k!r} in m = {dk(spec) in m}, model {bool(vals)}"))
        if m.get(dk(spec), _MISSING) != (vals[-1] if vals else _MISSING):
            probs.append(("get", f"get({k!r}, default) = {m.get(k, _MISSING)!r}, values {vals!r}"))
        if m.get(dk(spec)) != (vals[-1] if vals else None):
            probs.append(("get", f"get({k!r}) = {m.get(k)!r}, values {vals!r}"))
    ks = list(m.keys())
    if len(ks) != len(set(ks)) or set(ks) != set(distinct):
        probs.append(("keys", f"keys() = {ks!r}, model distinct keys {distinct!r}"))
    if list(iter(m)) != ks:
        probs.append(("keys", f"iter() {list(iter(m))!r} != keys() {ks!r}"))
    if len(m) != len(distinct):
        probs.append(("len", f"len = {len(m)}, model {len(distinct)}"))
    if dict(m.items()) != {k: m_values(model, k)[-1] for k in distinct} or len(list(m.items())) != len(distinct):
        probs.append(("items", f"items() = {list(m.items())!r}"))
    if not _same_multiset(list(m.values()), [m_values(model, k)[-1] for k in distinct]):
        probs.append(("values", f"values() = {list(m.values())!r}"))
    return probs


def views_problems(m, model, keys):
    probs = ro_views_problems(m, model, keys)
    fresh = MutableMultiMapping(list(model))
    if not (m == fresh) or not (fresh == m) or (m != fresh):
        probs.append(("eq", f"mapping != fresh mapping built from {model!r}"))
    other = MutableMultiMapping(list(model) + [("__extra__", 0)])
    if m == other:
        probs.append(("eq", "mapping == a mapping with an extra pair"))
    return probs


_RO_SOURCES = {"multi": MultiMapping, "qp": QueryParams, "fd": FormData, "mut": MutableMultiMapping}
_MAP_SOURCES = {
    "dict": lambda d: d,
    "mapping": types.MappingProxyType,
    "userdict": collections.UserDict,
}
FORMS = ["pairs", "multi", "dict", "iter", "qp", "fd", "mut", "mapping", "userdict"]


def build(form, pairs, keys=()):
    """-> (real mapping, model list, after) - after() lists what is wrong with the object the mapping was built
    from once the operations have run on the mapping: the constructor must have copied."""
    pairs = dpairs(pairs)
    if form == "none":
        return MutableMultiMapping(), [], lambda: []
    if form == "pairs":
        src = list(pairs)
        m = MutableMultiMapping(src)
        src.append(("zz", 99))  # the constructor must have copied
        return m, list(pairs), lambda: [] if src == list(pairs) + [("zz", 99)] else [("source", f"the caller's list is now {src!r}")]
    if form == "iter":
        return MutableMultiMapping(iter(pairs)), list(pairs), lambda: []
    if form in _MAP_SOURCES:
        d = dict(pairs)
        want = list(d.items())
        src = _MAP_SOURCES[form](d)
        m = MutableMultiMapping(src)
        (src if form == "userdict" else d)["zz"] = 99  # the constructor must have copied (a UserDict has its own dict)

        def after_map():
            now = list(src.items())
            return [] if now == want + [("zz", 99)] else [("source", f"the caller's mapping is now {now!r}, was {want!r} + zz")]

        return m, list(want), after_map
    if form in _RO_SOURCES:
        src = _RO_SOURCES[form](list(pairs))
        m = MutableMultiMapping(src)

        def after_ro():
            return [("source:" + k, f"the {form} source changed: {p}") for k, p in ro_views_problems(src, list(pairs), keys)]

        return m, list(pairs), after_ro
    raise core.HarnessError(form)


def apply_op(m, model, op):
    """Apply op to both; return (name, real outcome, model outcome)."""
    name = op[0]
    if name == "set":
        k, v = op[1], dv(op[2])
        real = call(lambda: m.__setitem__(dk(k), v))
        m_assign(model, dk(k), v)
        return name, real, ("ok", None)
    if name == "del":
        k = dk(op[1])
        want = ("ok", None) if m_values(model, k) else ("KeyError", None)
        real = call(lambda: m.__delitem__(dk(op[1])))
        m_remove(model, k)
        return name, real, want
    if name == "append":
        k, v = op[1], dv(op[2])
        real = call(lambda: m.append(dk(k), v))
        model.append((dk(k), v))
        return name, real, ("ok", None)
    if name == "setlist":
        k = dk(op[1])
        vals = [dv(v) for v in op[2]]
        arg = tuple(vals) if len(op) > 3 and op[3] == "tuple" else list(vals)
        real = call(lambda: m.setlist(dk(op[1]), arg))
        m_remove(model, k)
        model.extend((k, v) for v in vals)
        return name, real, ("ok", None)
    if name == "poplist":
        k = dk(op[1])
        want = ("ok", m_values(model, k))
        real = call(lambda: m.poplist(dk(op[1])))
        m_remove(model, k)
        return name, real, want
    if name in ("pop", "popd", "popn"):
        k = dk(op[1])
        vals = m_values(model, k)
        if name == "pop":
            want = ("ok", vals[-1]) if vals else ("KeyError", None)
            real = call(lambda: m.pop(dk(op[1])))
        elif name == "popd":
            want = ("ok", vals[-1] if vals else "dflt")
            real = call(lambda: m.pop(dk(op[1]), "dflt"))
        else:
            want = ("ok", vals[-1] if vals else None)
            real = call(lambda: m.pop(dk(op[1]), None))
        m_remove(model, k)
        return name, real, want
    if name == "popitem":
        real = call(lambda: m.popitem())
        if not model:
            return name, real, ("KeyError", None)
        if real[0] == "ok" and isinstance(real[1], tuple) and len(real[1]) == 2 and m_values(model, real[1][0]):
            k = real[1][0]
            want = ("ok", (k, m_values(model, k)[-1]))
            m_remove(model, k)
            return name, real, want
        return name, real, ("ok", "<some present key with its last value>")
    if name == "setdefault":
        k, v = dk(op[1]), dv(op[2])
        vals = m_values(model, k)
        want = ("ok", vals[-1] if vals else v)
        real = call(lambda: m.setdefault(dk(op[1]), v))
        if not vals:
            model.append((k, v))
        return name, real, want
    if name == "setdefault0":  # no default given: None is stored
        k = dk(op[1])
        vals = m_values(model, k)
        want = ("ok", vals[-1] if vals else None)
        real = call(lambda: m.setdefault(dk(op[1])))
        if not vals:
            model.append((k, None))
        return name, real, want
    if name == "update_dict":
        d = dict(dpairs(op[1]))
        real = call(lambda: m.update(d))
        for k, v in d.items():
            m_assign(model, k, v)
        return name, real, ("ok", None)
    if name == "update_dict_kw":  # update(mapping, **kw): the mapping's keys first, then the keyword arguments
        d = dict(dpairs(op[1]))
        kw = {str(k): v for k, v in dpairs(op[2])}
        real = call(lambda: m.update(d, **kw))
        for k, v in list(d.items()) + list(kw.items()):
            m_assign(model, k, v)
        return name, real, ("ok", None)
    if name in ("update_pairs", "update_iter"):
        pairs = dpairs(op[1])
        real = call(lambda: m.update(iter(list(pairs)) if name == "update_iter" else list(pairs)))
        for k, v in pairs:
            m_assign(model, k, v)
        return name, real, ("ok", None)
    if name == "update_kw":
        d = {str(k): v for k, v in dpairs(op[1])}
        real = call(lambda: m.update(**d))
        for k, v in d.items():
            m_assign(model, k, v)
        return name, real, ("ok", None)
    if name == "update_multi":
        pairs = dpairs(op[1])
        real = call(lambda: m.update(MultiMapping(list(pairs))))
        for k in m_keys(pairs):
            m_assign(model, k, m_values(pairs, k)[-1])
        return name, real, ("ok", None)
    if name == "update_self":
        real = call(lambda: m.update(m))
        for k in m_keys(model):
            m_assign(model, k, m_values(model, k)[-1])
        return name, real, ("ok", None)
    if name == "update_none":
        real = call(lambda: m.update())
        return name, real, ("ok", None)
    if name == "clear":
        real = call(lambda: m.clear())
        del model[:]
        return name, real, ("ok", None)
    if name == "mutate_view":
        v = m.multi_items()
        v.append(("view", 0))
        if v:
            v.pop(0)
        g = m.getlist(dk(op[1]))
        g.append(77)
        return name, ("ok", None), ("ok", None)
    raise core.HarnessError(f"unknown op {op!r}")


def _touched_key(op):
    if op[0] in ("set", "del", "append", "setlist", "poplist", "pop", "popd", "popn", "setdefault", "setdefault0", "mutate_view"):
        return {dk(op[1])}
    if op[0] in ("update_dict", "update_pairs", "update_iter", "update_multi"):
        return {dk(p[0]) for p in op[1]}
    if op[0] == "update_kw":
        return {str(dk(p[0])) for p in op[1]}
    if op[0] == "update_dict_kw":
        return {dk(p[0]) for p in op[1]} | {str(dk(p[0])) for p in op[2]}
    return None  # popitem / clear / snapshot / update_self: touches everything


def oracle(case) -> Result:
    r = Result()
    form, init, ops, keys = case["form"], case["init"], case["ops"], case["keys"]
    m, model, after = build(form, init, keys)
    snapshots = []
    multi_seen = False
    for k, p in views_problems(m, model, keys):
        r.fail(f"C17:init-{form}:{k}", f"after construction ({form}) from {init!r}: {p}")
    for i, op in enumerate(ops):
        had_multi = {k for k in m_keys(model) if len(m_values(model, k)) >= 2}
        if op[0] == "snapshot":
            snapshots.append((MutableMultiMapping(m), list(model)))
            continue
        name, real, want = apply_op(m, model, op)
        tk = _touched_key(op)
        if had_multi and (tk is None or (tk & had_multi)):
            multi_seen = True
        if want[1] == "<some present key with its last value>":
            r.fail("C17:ret:popitem", f"step {i} popitem returned {real!r} from non-empty mapping")
        elif real != want:
            r.fail(f"C17:ret:{name}", f"step {i} {op!r}: returned {real!r}, model {want!r}; history {ops[:i + 1]!r} from {form}:{init!r}")
        for k, p in views_problems(m, model, keys):
            r.fail(f"C17:view:{k}:after-{name}", f"step {i} {op!r}: {p}; history {ops[:i + 1]!r} from {form}:{init!r}")
        if r.failures:
            break
    for snap, smodel in snapshots:
        if snap.multi_items() != smodel:
            r.fail("C17:snapshot-aliasing", f"copy taken earlier changed: {snap.multi_items()!r} != {smodel!r}")
    if not r.failures:
        # the thing the mapping was built from, and every copy taken of it on the way, are objects of their own:
        # what happened to the mapping since has not reached them ...
        for k, p in after():
            r.fail(f"C17:ctor-aliasing:{form}:{k}", f"{p}; history {ops!r} from {form}:{init!r}")
        for snap, smodel in snapshots:
            for k, p in views_problems(snap, smodel, keys):
                r.fail(f"C17:snapshot-aliasing:{k}", f"copy taken earlier changed: {p}; history {ops!r} from {form}:{init!r}")
        # ... and what happens to a copy does not reach the mapping
        if snapshots and not r.failures:
            for snap, smodel in snapshots:
                snap.append("snap-only", 1)
                for k in m_keys(smodel)[:1]:
                    del snap[k]
            for k, p in views_problems(m, model, list(keys) + ["snap-only"]):
                r.fail(f"C17:snapshot-aliasing:reverse:{k}", f"changing a copy changed the mapping: {p}; history {ops!r} from {form}:{init!r}")
    r.nontrivial = multi_seen
    n = len(ops)
    r.label("len=" + (str(n) if n <= 3 else "4-8" if n <= 8 else "9-20" if n <= 20 else "21-50"), f"form={form}")
    if multi_seen:
        r.label("multi-key-touched")
    return r


# ------------------------------------------------------------------------------------------
# QueryParams / FormData


def oracle_query(case) -> Result:
    from urllib.parse import quote_plus

    r = Result()
    pairs = [(p[0], dv(p[1])) for p in case["pairs"]]
    text = all(isinstance(v, str) for _, v in pairs)
    keys = m_keys(pairs) + ["__absent__"]
    for cls in (QueryParams, FormData, MultiMapping, MutableMultiMapping):
        if cls is QueryParams and not text:
            continue
        built = [("pairs", cls(list(pairs)))]
        if case.get("forms"):
            built.append(("iter", cls(iter(list(pairs)))))
            built.append(("multi", cls(MultiMapping(list(pairs)))))
            built.append(("form", cls(FormData(list(pairs)))))
            built.append(("mutable", cls(MutableMultiMapping(list(pairs)))))
            if text:
                built.append(("query", cls(QueryParams(list(pairs)))))
        for how, m in built:
            for k, p in ro_views_problems(m, pairs, keys):
                r.fail(f"C17:{cls.__name__}:{k}", f"{cls.__name__} built from {how}: {p}")
            twin = cls(list(pairs))
            if not (m == twin) or not (twin == m) or (m != twin):
                r.fail(f"C17:{cls.__name__}:eq", f"({how}) not equal to a twin built from {pairs!r}")
        if case.get("forms"):
            d = dict(pairs)
            for how, m in (("dict", cls(d)), ("mappingproxy", cls(types.MappingProxyType(d))), ("userdict", cls(collections.UserDict(d)))):
                for k, p in ro_views_problems(m, list(d.items()), keys):
                    r.fail(f"C17:{cls.__name__}:{k}", f"{cls.__name__} built from {how}: {p}")
    special = repeated = False
    if text:
        q = QueryParams(list(pairs))
        s = str(q)
        back = QueryParams(s)
        if not (back == q) or not (q == back) or (q != back):
            r.fail("C17:query-roundtrip:eq", f"QueryParams(str(q)) != q for {pairs!r}; str = {s!r}")
        if back.multi_items() != pairs:
            r.fail("C17:query-roundtrip:items", f"QueryParams({s!r}).multi_items() = {back.multi_items()!r}, original {pairs!r}")
        try:
            sb = s.encode("latin-1")
        except UnicodeEncodeError:
            r.fail("C17:query-str-not-ascii", f"str(q) = {s!r}")
        else:
            if QueryParams(sb).multi_items() != pairs:
                r.fail("C17:query-roundtrip:bytes", f"QueryParams({sb!r}).multi_items() differs from {pairs!r}")
        if QueryParams(q).multi_items() != pairs or QueryParams(dict(pairs)).multi_items() != list(dict(pairs).items()):
            r.fail("C17:query-ctor", f"constructor forms disagree for {pairs!r}")
        special = any(quote_plus(k) != k or quote_plus(v) != v for k, v in pairs)
    else:
        r.label("object-values")
    repeated = len(m_keys(pairs)) < len(pairs)
    r.nontrivial = special or repeated
    if special:
        r.label("needs-encoding")
    if repeated:
        r.label("repeated-key")
    r.label(f"pairs={min(len(pairs), 5)}")
    return r


def bulk_pairs(case):
    n, kmod = case["n"], case["kmod"]
    return [(f"k{i % kmod if kmod else i}", f"v{i}") for i in range(n)]


def oracle_qbulk(case) -> Result:
    """Large mappings: nothing in the statement bounds the number of pairs."""
    r = Result()
    pairs = bulk_pairs(case)
    distinct = m_keys(pairs[: max(case["kmod"], 1)]) if case["kmod"] else [k for k, _ in pairs]
    probes = [distinct[0], distinct[len(distinct) // 2], distinct[-1], "__absent__"]
    for cls in (QueryParams, FormData, MultiMapping, MutableMultiMapping):
        m = cls(list(pairs))
        if m.multi_items() != pairs:
            r.fail(f"C17:bulk:{cls.__name__}:multi_items", f"{len(m.multi_items())} items for {len(pairs)} pairs")
        if len(m) != len(distinct) or set(m.keys()) != set(distinct):
            r.fail(f"C17:bulk:{cls.__name__}:keys", f"len {len(m)}, {len(distinct)} distinct keys")
        for k in probes:
            vals = m_values(pairs, k)
            if m.getlist(k) != vals or (k in m) != bool(vals) or m.get(k, _MISSING) != (vals[-1] if vals else _MISSING):
                r.fail(f"C17:bulk:{cls.__name__}:views", f"views of {k!r} in a mapping of {len(pairs)} pairs")
    q = QueryParams(list(pairs))
    s = str(q)
    back = QueryParams(s)
    if back.multi_items() != pairs:
        r.fail("C17:bulk:query-roundtrip:items", f"QueryParams(str(q)) has {len(back.multi_items())} items, q has {len(pairs)} (n={case['n']}, kmod={case['kmod']})")
    if not (back == q) or not (q == back):
        r.fail("C17:bulk:query-roundtrip:eq", f"QueryParams(str(q)) != q for {len(pairs)} pairs")
    if QueryParams(s.encode("latin-1")).multi_items() != pairs:
        r.fail("C17:bulk:query-roundtrip:bytes", f"bytes form differs for {len(pairs)} pairs")
    mm = MutableMultiMapping(list(pairs))
    model = list(pairs)
    k = probes[1]
    mm[k] = "new"
    m_assign(model, k, "new")
    mm.append(probes[0], "more")
    model.append((probes[0], "more"))
    del mm[probes[2]]
    m_remove(model, probes[2])
    if mm.multi_items() != model or len(mm) != len({kk for kk, _ in model}):
        r.fail("C17:bulk:mutable", f"assign / append / delete on a mapping of {len(pairs)} pairs")
    r.nontrivial = True
    r.label(f"n={case['n']}", f"kmod={case['kmod']}")
    return r


def oracle_qraw(case) -> Result:
    """A query mapping born from a raw query string.  What the pairs of a given raw string are is not
    C17's business; that the mapping's views agree with its own item list and that it survives its own
    string form is."""
    r = Result()
    raw = case["raw"]
    q = QueryParams(raw)
    items = q.multi_items()
    if not all(isinstance(k, str) and isinstance(v, str) for k, v in items):
        r.fail("C17:qraw:types", f"QueryParams({raw!r}).multi_items() = {items!r}")
        return r
    for k, p in ro_views_problems(q, items, m_keys(items) + ["__absent__"]):
        r.fail(f"C17:qraw:{k}", f"QueryParams({raw!r}): {p}")
    s = str(q)
    back = QueryParams(s)
    if back.multi_items() != items:
        r.fail("C17:qraw:roundtrip:items", f"q = QueryParams({raw!r}) has {items!r}; QueryParams(str(q) = {s!r}) has {back.multi_items()!r}")
    if not (back == q) or not (q == back) or (q != back):
        r.fail("C17:qraw:roundtrip:eq", f"q = QueryParams({raw!r}); QueryParams(str(q) = {s!r}) != q")
    try:
        sb = s.encode("ascii")
    except UnicodeEncodeError:
        r.fail("C17:query-str-not-ascii", f"str(QueryParams({raw!r})) = {s!r}")
    else:
        if QueryParams(sb).multi_items() != items:
            r.fail("C17:qraw:roundtrip:bytes", f"QueryParams({sb!r}) differs from QueryParams({s!r})")
    for cls in (FormData, MutableMultiMapping):
        for k, p in ro_views_problems(cls(q), items, m_keys(items)[:3] + ["__absent__"]):
            r.fail(f"C17:qraw:{cls.__name__}:{k}", f"{cls.__name__}(QueryParams({raw!r})): {p}")
    r.nontrivial = s != raw
    r.label("canonical" if s == raw else "non-canonical", f"pairs={min(len(items), 5)}")
    if len(m_keys(items)) < len(items):
        r.label("repeated-key")
    return r


SUBS = {
    "exh": oracle,
    "long": oracle,
    "query": oracle_query,
    "alph": oracle,
    "deep": oracle,
    "qexh": oracle_query,
    "qbulk": oracle_qbulk,
    "qraw": oracle_qraw,
}

# ------------------------------------------------------------------------------------------
# enumeration / generation

K2, V2 = ["a", "b"], [1, 2]


def concrete_ops(keys, vals):
    ops = []
    for k in keys:
        for v in vals:
            ops.append(["set", k, v])
            ops.append(["append", k, v])
            ops.append(["setdefault", k, v])
        ops.append(["del", k])
        ops.append(["poplist", k])
        ops.append(["pop", k])
        ops.append(["popd", k])
        for lst in ([], [vals[0]], [vals[1]], [vals[0], vals[1]], [vals[1], vals[1]]):
            ops.append(["setlist", k, lst])
    ops.append(["popitem"])
    ops.append(["clear"])
    ops.append(["mutate_view", keys[0]])
    ops.append(["snapshot"])
    a, b = keys[0], keys[1]
    v, w = vals[0], vals[1]
    for d in ([[a, v]], [[b, w]], [[a, w], [b, v]]):
        ops.append(["update_dict", d])
    for p in ([[a, v], [a, w]], [[b, v], [a, w]], [[b, w], [b, v], [a, v]]):
        ops.append(["update_pairs", p])
        ops.append(["update_multi", p])
    ops.append(["update_kw", [[a, w]]])
    return ops


def extra_ops(keys, vals):
    """Further call forms of the same operations (used by `alph` and `deep`; `exh` keeps its own budget)."""
    a, b = keys[0], keys[1]
    v, w = vals[0], vals[1]
    return [
        ["popn", a],
        ["popn", b],
        ["setdefault0", a],
        ["setdefault0", b],
        ["update_dict_kw", [[a, v]], [[b, w]]],
        ["update_dict_kw", [[b, w], [a, w]], [["other", v]]],
        ["update_kw", [["other", w]]],
        ["update_kw", [["self", v], [b, v]]],
        ["update_iter", [[b, v], [a, w], [b, w]]],
        ["update_self"],
        ["update_none"],
        ["setlist", a, [v, w], "tuple"],
        ["setlist", b, [w], "tuple"],
    ]


def initial_lists(keys, vals, maxlen):
    pairs = [[k, v] for k in keys for v in vals]
    for n in range(maxlen + 1):
        for combo in itertools.product(pairs, repeat=n):
            yield [list(p) for p in combo]


def _emit(rec, sub, g, case, key):
    res = g(case)
    res.key = key
    rec.count(sub, case, res)
    new, old = rec.split(res)
    rec.note_known(old)
    for f in new:
        rec.add_violation(sub, f, case)
        rec.skip.add(f.bucket)


def exh_shard(rec, k, nshards, maxlen):
    ops = concrete_ops(K2, V2)
    inits = list(initial_lists(K2, V2, 2))
    g = core.guarded(oracle)
    i = 0
    for n in range(0, maxlen + 1):
        for seq in itertools.product(ops, repeat=n):
            i += 1
            if i % nshards != k:
                continue
            for init in inits:
                forms = ["pairs", "multi"] if init else ["none", "pairs"]
                if init and i % 3 == 0:
                    forms.append("dict")
                if i % 5 == 0:
                    forms.append("iter")
                for form in forms:
                    case = {"form": form, "init": init, "ops": list(seq), "keys": K2 + ["c"]}
                    _emit(rec, "exh", g, case, (form, repr(init), repr(seq)))


# key / value alphabets of `alph`: (name, two keys, an absent key, two values)
ALPHABETS = [
    ("fresh-str", ["key-a", "key-b"], "key-c", [1, 2]),
    ("big-int", [1000, 2000], 3000, ["x", "y"]),
    ("num-equal", [1, 1.0], 0, [1, 2]),  # one key under two spellings
    ("falsy-keys", ["", None], 0, [1, 2]),
    ("tuple-keys", [[1, 2], []], [1], [1, 2]),
    ("none-values", ["ka", "kb"], "kc", [None, 1]),
    ("falsy-values", ["ka", "kb"], "kc", [0, ""]),
    ("false-none", ["ka", "kb"], "kc", [False, None]),
    ("unhashable-values", ["ka", "kb"], "kc", [[1], {"k": 1}]),
    ("object-values", ["ka", "kb"], "kc", [{"$obj": 0}, {"$obj": 1}]),
    ("unorderable-values", ["ka", "kb"], "kc", [1, "1"]),
]


ALPH_QUICK_PAIRS = {"fresh-str", "num-equal", "none-values", "falsy-values", "unhashable-values", "object-values"}  # length-2 sequences in the quick tier


def alph_shard(rec, k, nshards, thorough):
    g = core.guarded(oracle)
    i = 0
    for name, keys, absent, vals in ALPHABETS:
        ops = concrete_ops(keys, vals) + extra_ops(keys, vals)
        probes = keys + [absent, "other"]
        a, b = keys
        v, w = vals
        if thorough:
            inits1 = list(initial_lists(keys, vals, 3))
            inits2 = [[], [[a, v], [b, w], [a, w]], [[a, v]], [[a, w], [a, v]], [[b, v], [a, v], [a, w], [b, w]]]
        else:
            inits1 = list(initial_lists(keys, vals, 2)) + [
                [[k1, x], [k2, y], [k1, z]] for k1, k2 in ((a, b), (b, a), (a, a)) for x, y, z in ((v, v, w), (w, v, v), (v, w, v))
            ]
            inits2 = [[[a, v], [b, w], [a, w]]] if name in ALPH_QUICK_PAIRS else []
        for n, inits in ((0, inits1), (1, inits1), (2, inits2)):
            for seq in itertools.product(ops, repeat=n):
                for init in inits:
                    i += 1
                    if i % nshards != k:
                        continue
                    form = FORMS[i % len(FORMS)] if init else ("none", "pairs", "iter", "mut", "dict")[i % 5]
                    case = {"form": form, "init": init, "ops": list(seq), "keys": probes}
                    _emit(rec, "alph", g, case, (name, form, repr(init), repr(seq)))


def deep_inits(maxlen):
    for n in range(3, maxlen + 1):
        for pat in itertools.product(K2, repeat=n):
            yield [[kk, i + 1] for i, kk in enumerate(pat)]
            yield [[kk, 1] for kk in pat]
    # three keys, every key's values apart from each other
    yield [["a", 1], ["b", 2], ["c", 3], ["a", 4], ["b", 5], ["c", 6], ["a", 7]]
    yield [["c", 1], ["a", 1], ["a", 2], ["b", 1], ["a", 3], ["c", 2], ["b", 1], ["a", 2]]


def deep_shard(rec, k, nshards, thorough):
    g = core.guarded(oracle)
    ops = concrete_ops(K2, [1, 9]) + extra_ops(K2, [1, 9]) + [["del", "c"], ["set", "c", 9], ["setlist", "c", [9]], ["poplist", "c"]]
    i = 0
    for init in deep_inits(6 if thorough else 5):
        for n in (0, 1, 2):
            if n == 2 and not (thorough and len(init) <= 3):
                continue
            for seq in itertools.product(ops, repeat=n):
                i += 1
                if i % nshards != k:
                    continue
                forms = ["pairs", FORMS[1 + i % (len(FORMS) - 1)]]
                for form in forms:
                    if form in _MAP_SOURCES:
                        continue  # a dict source cannot hold a key twice
                    case = {"form": form, "init": init, "ops": list(seq), "keys": K2 + ["c", "d"]}
                    _emit(rec, "deep", g, case, (form, repr(init), repr(seq)))


K4 = ["a", "b", "c", "d"]
V4 = [0, 1, "x", "", None]


def long_case():
    key = st.sampled_from(K4)
    val = st.sampled_from(V4)
    pair = st.tuples(key, val).map(list)
    op = st.one_of(
        st.tuples(st.just("set"), key, val),
        st.tuples(st.just("append"), key, val),
        st.tuples(st.just("append"), key, val),
        st.tuples(st.just("setdefault"), key, val),
        st.tuples(st.just("del"), key),
        st.tuples(st.just("poplist"), key),
        st.tuples(st.just("pop"), key),
        st.tuples(st.just("popd"), key),
        st.tuples(st.just("setlist"), key, st.lists(val, max_size=3)),
        st.tuples(st.just("popitem")),
        st.tuples(st.just("clear")),
        st.tuples(st.just("snapshot")),
        st.tuples(st.just("mutate_view"), key),
        st.tuples(st.just("update_dict"), st.lists(pair, max_size=3)),
        st.tuples(st.just("update_pairs"), st.lists(pair, max_size=4)),
        st.tuples(st.just("update_multi"), st.lists(pair, max_size=4)),
        st.tuples(st.just("update_kw"), st.lists(pair, max_size=2)),
        st.tuples(st.just("popn"), key),
        st.tuples(st.just("setdefault0"), key),
        st.tuples(st.just("update_iter"), st.lists(pair, max_size=4)),
        st.tuples(st.just("update_dict_kw"), st.lists(pair, max_size=2), st.lists(pair, max_size=2)),
        st.tuples(st.just("update_self")),
        st.tuples(st.just("setlist"), key, st.lists(val, max_size=3), st.just("tuple")),
    ).map(list)
    return st.fixed_dictionaries(
        {
            "form": st.sampled_from(["none", "pairs", "iter", "dict", "multi"] + FORMS),
            "init": st.lists(pair, max_size=6),
            "ops": st.one_of(st.lists(op, max_size=8), st.lists(op, min_size=12, max_size=50)),
            "keys": st.just(K4 + ["zz"]),
        }
    ).map(lambda c: {**c, "init": [] if c["form"] == "none" else c["init"]})


_qtext = st.one_of(
    st.sampled_from(["", "a", "b", "k", " ", "&", "=", "+", "%", "%26", ";", "#", "?", "/", "é", "中文", "\x00", "\n", "a b", "a&b=c", "\U0001f600"]),
    st.text(alphabet=st.characters(exclude_categories=["Cs"]), max_size=6),
)


def query_case():
    return st.fixed_dictionaries({"pairs": st.lists(st.tuples(_qtext, _qtext).map(list), max_size=8), "forms": st.integers(0, 7).map(lambda n: n == 0)})


QSPECIAL = ["", "a", " ", "&", "=", "+", "%", "%26", "%zz", ";", "#", "a=b&c", "é", "中", "\x00", "\n", "?", "a b+c"]
QCORE = ["", "a", "&", "=", "+", "%"]


def qexh_cases(thorough):
    cps = list(range(0x180 if not thorough else 0x3000)) + [0x3B1, 0x4E2D, 0x2028, 0xFEFF, 0xFFFD, 0xFFFF, 0x10000, 0x1F600, 0x10FFFF]
    for cp in cps:
        if 0xD800 <= cp <= 0xDFFF:
            continue
        c = chr(cp)
        yield {"pairs": [[c, "v"]]}
        yield {"pairs": [["k", c]]}
        yield {"pairs": [[c, c], ["k" + c, c + "v"], [c, ""]]}
    for kk in QSPECIAL:
        for vv in QSPECIAL:
            yield {"pairs": [[kk, vv]], "forms": True}
    core_pairs = [[kk, vv] for kk in QCORE for vv in QCORE]
    for p1 in core_pairs:
        for p2 in core_pairs:
            yield {"pairs": [p1, p2]}
    for combo in itertools.product([[kk, vv] for kk in ("", "a") for vv in ("", "a")], repeat=3):
        yield {"pairs": [list(p) for p in combo], "forms": True}
    # form mappings: upload files are values with identity equality only, possibly several under one name
    o0, o1 = {"$obj": 0}, {"$obj": 1}
    for pairs in (
        [["f", o0]],
        [["f", o0], ["f", o1]],
        [["f", o0], ["f", o0]],
        [["f", o1], ["t", "text"], ["f", o0]],
        [["t", "text"], ["f", o0], ["t", ""], ["g", o0], ["f", "text"]],
        [["f", [1]], ["f", {"k": 1}], ["g", None], ["f", None]],
    ):
        yield {"pairs": pairs, "forms": True}


def qbulk_cases(thorough):
    for n in (1001, 2000) + ((3000, 5000) if thorough else ()):
        for kmod in (0, 7, 1):
            yield {"n": n, "kmod": kmod}


QRAW = [
    "", "a", "a=", "=a", "=", "&", "&&", "a&b", "a=1&a=2", "a=1&&b=2", "&a=1", "a=1&", "a=b=c", "a==", "==", "%", "%zz", "%2", "a=%",
    "%26=%3D", "%26%3D", "a+b=c+d", "a%20b=c%20d", "+", "+=+", "a=1;b=2", ";", "a;b", "?a=1", "#", "a=1#frag", "\xe9=\xfc",
    "%E9", "%C3%A9", "%c3%a9=%C3%A9", "a=%00", "a=\x00", "\n", "a=1\n&b=2", " a = b ", "a=1&A=2", "%u1234", "a=%41%41%41", "&=&", "=&=",
    "a&a&a", "a=&a=&a=", "中=文", "a[]=1&a[]=2", "a[0]=1", "a.b=c", "a=1&b", "b&a=1", "%ED%A0%80=x", "%F0%9F%98%80", "a=%F0%9F",
    "a=1,2", "a=/path/../x", "a=http://h/?b=c&d=e", "a=~", "a=*", "a=%7E", "a=%2B", "a=%2b", "a=%25", "a=%2526", "\t", "a\t=\tb",
]

_qraw_seg = st.one_of(
    st.sampled_from(["", "a", "b", "a=", "a=1", "b=", "=", "=1", "a=1=2", "%", "a=%", "%41=%42", "a=%zz", "+", "a+=+b", "a;b=1", "\xe9=1"]),
    st.text(alphabet=st.sampled_from(list("aab==%%++;# 012AFf\xe9中")), max_size=8),
)
_qraw_text = st.lists(_qraw_seg, max_size=6).map("&".join)


def qraw_case():
    return st.fixed_dictionaries({"raw": _qraw_text})


def _want(only, sub):
    return only is None or sub in only



def oracle_atheris(case) -> Result:
    """Replay / triage oracle for inputs found by the Atheris campaign: decode the bytes like the fuzz target does."""
    from fuzz import targets

    res = oracle(targets.CASES["C17"](case["data"]))
    res.label("atheris")
    return res


SUBS["atheris"] = oracle_atheris

def run(rec, only=None):
    quick = rec.tier == "quick"
    procs = core.ncpu()
    if _want(only, "exh"):
        if quick:
            core.run_sharded(rec, exh_shard, 8, min(8, procs), (2,))
        else:
            core.run_sharded(rec, exh_shard, 64, procs, (3,))
    if _want(only, "alph"):
        core.run_sharded(rec, alph_shard, 16 if quick else 64, min(16, procs) if quick else procs, (not quick,))
    if _want(only, "deep"):
        core.run_sharded(rec, deep_shard, 8 if quick else 64, min(8, procs) if quick else procs, (not quick,))
    rec.exhaustive["exh"] = rec.exhaustive["alph"] = rec.exhaustive["deep"] = True
    core.drive_hypothesis(rec, "long", long_case(), oracle, 1500 if quick else 30000)
    core.drive_hypothesis(rec, "query", query_case(), oracle_query, 1500 if quick else 30000, seed_offset=3)
    core.drive_cases(rec, "qexh", qexh_cases(not quick), oracle_query)
    core.drive_cases(rec, "qbulk", qbulk_cases(not quick), oracle_qbulk)
    core.drive_cases(rec, "qraw", ({"raw": s} for s in QRAW), oracle_qraw)
    core.drive_hypothesis(rec, "qraw", qraw_case(), oracle_qraw, 600 if quick else 20000, seed_offset=7)
    rec.exhaustive["qexh"] = True
    rec.exhaustive["long"] = rec.exhaustive["query"] = rec.exhaustive["qbulk"] = rec.exhaustive["qraw"] = False
    if not quick and (rec.only is None or "atheris" in rec.only):
        # coverage-guided second engine (Atheris / libFuzzer), same oracle inside the target
        from fuzz import driver

        driver.campaign(rec, "C17", oracle_atheris, runs=300000, seeds=[b'\x01\x03\x00\x01\x01\x02\x05\x01\x00\x02'], max_total_time=150, jobs=4)
