"""C18 - Request URLs are reconstructed faithfully and edited component-wise."""
from __future__ import annotations

import re
from urllib.parse import parse_qsl, unquote

from hypothesis import strategies as st

import baize.asgi as basgi
import baize.wsgi as bwsgi
from baize.datastructures import URL

from harness import core, gateways as gw
from harness.core import Result

LEVEL = "exploration"
RULES = {
    "request": "Hypothesis + full product of the small dimensions: (scheme in http/https/ws/wss) x server (named/IPv4/IPv6, default or "
    "other port or port None) x Host header (absent, name, name:port, [v6], [v6]:port) x root path x Unicode path (rarely with ?, #, %, TAB, LF, CR and other control characters) x query, "
    "as WSGI environ and as ASGI scope (1 in 6 each: other headers around Host, optional keys left out, path bytes, path repeating the root path), "
    "compared with a reference assembler and with an independent re-split of str(url); non-trivial = non-default port, IPv6 or a path with "
    "non-ASCII/reserved characters",
    "replace": "Hypothesis: URLs with a host assembled from components (userinfo, named/IPv4/IPv6 host, port, path, query, fragment) x "
    "every subset of components to replace x new values (None for user/password/port), re-parsed with an independent splitter; "
    "non-trivial = userinfo or IPv6 or port present, or >= 2 components replaced",
    "query": "Hypothesis: include/replace/remove query-parameter helpers against a list-of-pairs model; non-trivial = a repeated key",
    "repr": "Hypothesis: repr(url) never shows the password, for passwords that also occur in other components",
    "request_opt": "enumeration: (4 schemes x server None/(name,None)/(v6,None)/default/other port x Host absent/name/[v6]:port) x one variation "
    "at a time: optional ASGI keys (scheme, root_path, server) / WSGI keys (QUERY_STRING, SCRIPT_NAME, PATH_INFO) left out where their value "
    "is the default, look-alike and proxy headers (X-Forwarded-Host/-Proto/-Port, Forwarded, X-Host) before and after Host, empty PATH_INFO "
    "at a mount point, TAB/LF/CR/VT/FF/NUL/DEL/U+0085/U+2028 in path segments and in the root path, a root path ending in '/', a path that begins with the text of the root path, path bytes that are not UTF-8; same oracle as 'request'",
    "path_convention": "enumeration: sets of probe paths (literal %XX, %, ?, #, non-ASCII) through one configuration: one and the same reading of "
    "url.path (raw or percent-decoded once) must give root+path for ALL probes",
    "replace_grid": "enumeration: 14 bases (named/IPv4/IPv6, with/without port incl. 0, userinfo incl. ':'/'@' password and empty password, "
    "'@' ':' '/' in path/query/fragment, empty path) x every single change from the value lists (incl. port 0/None, scheme '', percent escapes "
    "in path/query) and a list of pairs/triples, plus two-step chains; same oracle as 'replace'",
    "replace_text": "enumeration: 200 URL texts whose port is not spelled canonically (':0080', ':08000', ':00443', ':00', empty ':') on named / "
    "IPv4 / IPv6 / upper-case hosts, with and without user info x every replace() that does not name the host (singles, combinations, chains); "
    "components compared by value (port as integer, None when empty); the same bases go through repr_grid and, 1 in 6, through 'replace'/'repr'; "
    "such Host headers are in request_opt / request / request_edit",
    "request_edit": "enumeration: request URLs (from environ and from scope; Host header / server only / IPv6 / non-default port) edited with "
    "replace(): expectation = reference assembler + list model",
    "repr_grid": "enumeration: 5 hosts (named, upper-case, IPv4:0, IPv6, IPv6:port) x 16 user/password pairs (password = user name, inside the user "
    "name, the scheme, the host; with ':' '@'; '********'; empty; none) x 3 path/query/fragment settings; same oracle as 'repr'",
    "query_grid": "enumeration: query helpers on URLs with userinfo, port, IPv6 host, empty path and a fragment; raw query texts with bare tokens, "
    "two spellings of one key, upper/lower-case keys; keys that need encoding; same oracle as 'query'",
}
ASSUMPTIONS = [
    "url.path may equal root+path raw or after one percent-decoding (a repair that quotes the path is not an alarm)",
    "user names / passwords / hosts are drawn from characters that need no percent-encoding; the password may contain ':' and '@'",
    "a WSGI server always provides SERVER_NAME/SERVER_PORT, so 'no server address' exists only on the ASGI side",
    "only Host, the server address, scheme, root path, path and query determine the request URL: X-Forwarded-*/Forwarded/X-Host headers must not change it",
    "optional keys: an ASGI http scope may lack scheme (= http), root_path (= ''), server (= None); a WSGI environ may lack QUERY_STRING, SCRIPT_NAME, "
    "PATH_INFO when they would be empty (PEP 3333)",
    "path bytes that are not UTF-8 reach an ASGI app decoded with errors='replace' (what ASGI servers do); the WSGI URL must be the same",
    "not generated, outside the quantified domain (no server address and no Host header): a path starting with '//' when there is no authority at all",
    "TAB, LF, CR, VT, FF, NUL, DEL, U+0085, U+2028 inside path segments and root paths are ordinary path text (what %09, %0A ... decode to): "
    "judged by the same rule as every other path",
    "a port spelled with leading zeros (':0080') or empty (':') is legal URL / Host text; its value is the integer (None when empty): components are "
    "compared by value, so replace()/repr() may or may not normalise the spelling of an untouched port",
    "a query without '=' ('flag') is the pair ('flag', '') of the multi-value query (keep_blank_values, as in QueryParams)",
]

DEFAULT = {"http": 80, "https": 443, "ws": 80, "wss": 443}

_URL = re.compile(r"^(?:([A-Za-z][A-Za-z0-9+.\-]*):)?(?://([^/?#]*))?([^?#]*)(?:\?([^#]*))?(?:#(.*))?\Z", re.S)


def split_url(url: str):
    """Independent splitter -> dict(scheme, username, password, host, port, path, query, fragment)."""
    m = _URL.match(url)
    if m is None:
        raise core.HarnessError(f"cannot split {url!r}")
    scheme, authority, path, query, fragment = m.groups()
    out = {"scheme": scheme or "", "path": path or "", "query": query or "", "fragment": fragment or "",
           "username": None, "password": None, "host": None, "port": None, "authority": authority}
    if authority is not None:
        userinfo, at, hostport = authority.rpartition("@")
        if at:
            user, colon, pw = userinfo.partition(":")
            out["username"] = user
            out["password"] = pw if colon else None
        if hostport.startswith("["):
            end = hostport.find("]")
            out["host"] = hostport[: end + 1]
            rest = hostport[end + 1:]
            if rest.startswith(":") and rest[1:].isdigit():
                out["port"] = int(rest[1:])
        else:
            host, colon, port = hostport.rpartition(":")
            if colon and port.isdigit():
                out["host"], out["port"] = host, int(port)
            elif colon and port == "":
                out["host"] = host
            else:
                out["host"] = hostport
    return out


# ------------------------------------------------------------------------------------------
# A. request URL


def assemble(case):
    scheme, server, host, root, path, query = case["scheme"], case["server"], case["host"], case["root"], case["path"], case["query"]
    if host is not None:
        authority = host
    elif server is None:
        authority = None
    else:
        h, p = server
        if ":" in h and not h.startswith("["):
            h = f"[{h}]"
        authority = h if p in (DEFAULT[scheme], None) else f"{h}:{p}"
    return authority


ASGI_OPTIONAL = ("scheme", "root_path", "server")
WSGI_OPTIONAL = ("QUERY_STRING", "SCRIPT_NAME", "PATH_INFO")


def request_inputs(case):
    """(rq, scheme, server, host, root, path, query, omitted-asgi, omitted-wsgi) of a request case.  Optional fields of a case:
    pre/post = further headers before/after Host; omit = optional scope/environ keys to leave out (honoured only where the value is
    the default, so any subset is a legal case); path_bytes = undecoded path bytes (then `path` is their errors='replace' decoding)."""
    scheme, server, host, root, query = case["scheme"], case["server"], case["host"], case["root"], case["query"]
    pb = case.get("path_bytes")
    path = case["path"] if pb is None else bytes(pb).decode("utf-8", "replace")
    headers = [list(h) for h in case.get("pre", ())]
    headers += [["Host", host]] if host is not None else []
    headers += [["Accept", "*/*"]]
    headers += [list(h) for h in case.get("post", ())]
    rq = gw.areq(path=path, query=query, headers=headers, server=server, scheme=scheme, root_path=root, path_bytes=pb)
    omit = set(case.get("omit", ()))
    legal = {"scheme": scheme == "http", "root_path": root == "", "server": server is None,
             "QUERY_STRING": query == b"", "SCRIPT_NAME": root == "", "PATH_INFO": path == ""}
    om_a = [k for k in ASGI_OPTIONAL if k in omit and legal[k]]
    om_w = [k for k in WSGI_OPTIONAL if k in omit and legal[k]]
    return rq, scheme, server, host, root, path, query, om_a, om_w


def request_url(side, rq, om_a=(), om_w=()):
    if side == "wsgi":
        env = gw.make_environ(rq)
        for k in om_w:
            del env[k]
        return bwsgi.Request(env).url
    scope = gw.make_scope(rq)
    for k in om_a:
        del scope[k]
    return basgi.Request(scope).url


def oracle_request(case) -> Result:
    r = Result()
    rq, scheme, server, host, root, path, query, om_a, om_w = request_inputs(case)
    authority = assemble(case)
    full_path = root + path
    qtext = query.decode("latin-1")
    urls = {}
    ctx = f"{case!r}"
    sides = ["asgi"] + (["wsgi"] if server is not None and server[1] is not None else [])
    for side in sides:
        try:
            url = request_url(side, rq, om_a, om_w)
            urls[side] = str(url)
            sp = split_url(str(url))  # independent reading of the text
            if url.query != qtext or sp["query"] != qtext:
                r.fail(f"C18:{side}:query", f"{ctx}: str(url) = {str(url)!r}, query {url.query!r}, expected {query!r}")
            if url.path != full_path and unquote(url.path) != full_path:
                r.fail(f"C18:{side}:path", f"{ctx}: str(url) = {str(url)!r}, path {url.path!r}, expected {full_path!r}")
            if sp["path"] != url.path:
                r.fail(f"C18:{side}:path-text", f"{ctx}: str(url) = {str(url)!r} has path {sp['path']!r} but url.path is {url.path!r}")
            if url.fragment or sp["fragment"]:
                r.fail(f"C18:{side}:fragment", f"{ctx}: str(url) = {str(url)!r} has fragment {url.fragment!r}; a request has none")
            if url.username is not None or url.password is not None or sp["username"] is not None:
                r.fail(f"C18:{side}:userinfo", f"{ctx}: str(url) = {str(url)!r} has user info; a request has none")
            try:
                port = url.port
            except ValueError as exc:
                r.fail(f"C18:{side}:port-raises", f"{ctx}: str(url) = {str(url)!r}: url.port raised {exc!r}")
                port = "<raises>"
            if authority is None:
                # neither Host header nor server address: the URL is path [? query], nothing else
                if url.hostname is not None or sp["authority"] not in (None, "") or port not in (None, "<raises>"):  # an EMPTY authority ("//" + "//path") is how a path that begins with "//" is written without a host
                    r.fail(f"C18:{side}:authority-invented", f"{ctx}: str(url) = {str(url)!r} has host {url.hostname!r} port {port!r}; "
                           "the request has neither Host header nor server address")
                continue
            exp = split_url(f"{scheme}://{authority}/")
            exp_host = exp["host"].strip("[]").lower() if exp["host"] else None
            if url.scheme != scheme or sp["scheme"] != scheme:
                r.fail(f"C18:{side}:scheme", f"{ctx}: str(url) = {str(url)!r}, scheme {url.scheme!r}")
            got_host = sp["host"].strip("[]").lower() if sp["host"] else None
            if url.hostname != exp_host or got_host != exp_host:
                r.fail(f"C18:{side}:hostname", f"{ctx}: str(url) = {str(url)!r}, hostname {url.hostname!r}, expected {exp_host!r}")
            if port != "<raises>" and (port != exp["port"] or sp["port"] != exp["port"]):
                r.fail(f"C18:{side}:port", f"{ctx}: str(url) = {str(url)!r}, port {port!r}, expected {exp['port']!r}")
        except UnicodeError as exc:
            r.fail(f"C18:{side}:raises:{type(exc).__name__}", f"{ctx}: {exc!r}")
    if len(urls) == 2 and urls["wsgi"] != urls["asgi"]:
        r.fail("C18:interfaces-disagree", f"{ctx}: wsgi {urls['wsgi']!r} vs asgi {urls['asgi']!r}")
    v6 = (server is not None and ":" in server[0]) or (host is not None and "[" in host)
    nondefault = server is not None and server[1] not in (DEFAULT[scheme], None)
    odd_path = any(ord(c) > 127 or c in "?#% " or ord(c) < 32 for c in full_path)
    r.nontrivial = v6 or nondefault or odd_path
    r.label(f"scheme={scheme}", "host-header" if host is not None else ("no-server" if server is None else "server-only"))
    if any(c in full_path for c in "\t\n\r"):
        r.label("path-tab-or-line-break")
    elif any(c in full_path for c in CONTROLS):
        r.label("path-other-control")
    if v6:
        r.label("ipv6")
    if nondefault:
        r.label("non-default-port")
    if odd_path:
        r.label("odd-path")
    if server is not None and server[1] is None:
        r.label("server-port-none")
    if om_a or om_w:
        r.label(*(f"omitted-{k}" for k in om_a + om_w))
    if case.get("pre") or case.get("post"):
        r.label("other-headers-before-host" if case.get("pre") else "other-headers-after-host")
    if case.get("path_bytes") is not None:
        r.label("path-bytes-not-utf8" if "\ufffd" in path else "path-bytes")
    if path == "":
        r.label("empty-path-info")
    r.note = urls
    return r


def oracle_convention(case) -> Result:
    """One reading of url.path for all requests: the URLs of several probe paths, built through one configuration, must all give
    root+path raw, or all give it after one percent-decoding (a mixture means some path is not recoverable from its URL)."""
    r = Result()
    raw_ok = {"asgi": True, "wsgi": True}
    dec_ok = {"asgi": True, "wsgi": True}
    seen = {}
    for path in case["paths"]:
        one = dict(case, path=path)
        del one["paths"]
        rq, scheme, server, host, root, path, query, om_a, om_w = request_inputs(one)
        full = root + path
        for side in ("asgi", "wsgi"):
            url = request_url(side, rq)
            seen[f"{side} {path}"] = str(url)
            raw_ok[side] = raw_ok[side] and url.path == full
            dec_ok[side] = dec_ok[side] and unquote(url.path) == full
    for side in ("asgi", "wsgi"):
        if not raw_ok[side] and not dec_ok[side]:
            r.fail(f"C18:{side}:path-convention", f"{case!r}: neither url.path nor unquote(url.path) equals root+path for all probes: {seen!r}")
    r.nontrivial = True
    r.label(f"probes={len(case['paths'])}")
    r.note = seen
    return r


# ------------------------------------------------------------------------------------------
# B. replace


def build(c):
    """URL text from components (None = absent)."""
    authority = c["host"]
    if c.get("port_text") is not None:
        # the port as it is spelled in the text (leading zeros, or nothing after the colon); c["port"] is its value
        authority += ":" + c["port_text"]
    elif c["port"] is not None:
        authority += f":{c['port']}"
    if c["username"] is not None:
        ui = c["username"] + (f":{c['password']}" if c["password"] is not None else "")
        authority = f"{ui}@{authority}"
    url = f"{c['scheme']}://{authority}{c['path']}"
    if c["query"]:
        url += "?" + c["query"]
    if c["fragment"]:
        url += "#" + c["fragment"]
    return url


def model_replace(base, changes):
    """List model of replace(): named components take the new values, a password needs a user, no user = no user info."""
    exp = dict(base)
    for k in ("scheme", "path", "query", "fragment", "host", "port"):
        if k in changes:
            exp[k] = changes[k]
    user = changes["username"] if "username" in changes else base["username"]
    pw = changes["password"] if "password" in changes else base["password"]
    if user is None:
        pw = None
    exp["username"], exp["password"] = user, pw
    return exp


def judge_replace(r, url, base, steps, ctx0):
    """Apply the replace() calls of `steps` one after the other to `url` (whose components are `base`) and judge every result."""
    for changes in steps:
        kwargs = {("hostname" if k == "host" else k): v for k, v in changes.items()}
        ctx = f"{ctx0}.replace(**{kwargs!r})"
        new = url.replace(**kwargs)
        got = split_url(str(new))
        exp = model_replace(base, changes)
        touched_ui = "username" in changes or "password" in changes
        for k in ("scheme", "username", "password", "host", "port", "path", "query", "fragment"):
            g, e = got[k], exp[k]
            if k in ("scheme",):
                g, e = (g or "").lower(), (e or "").lower()
            if g != e:
                kind = "named" if (k in changes or (k in ("username", "password") and touched_ui)) else "untouched"
                r.fail(f"C18:replace:{kind}:{k}", f"{ctx} = {str(new)!r}: component {k} is {g!r}, expected {e!r}")
        # accessors agree with the independent splitter
        if new.username != exp["username"] or new.password != exp["password"]:
            r.fail("C18:replace:accessors:userinfo", f"{ctx} = {str(new)!r}: username/password {new.username!r}/{new.password!r}")
        try:
            if new.port != exp["port"]:
                r.fail("C18:replace:accessors:port", f"{ctx} = {str(new)!r}: port {new.port!r}, expected {exp['port']!r}")
        except ValueError as exc:
            r.fail("C18:replace:accessors:port-raises", f"{ctx} = {str(new)!r}: {exc!r}")
        if new.hostname != exp["host"].strip("[]").lower():
            r.fail("C18:replace:accessors:hostname", f"{ctx} = {str(new)!r}: hostname {new.hostname!r}")
        if (new.scheme, new.path, new.query, new.fragment) != (exp["scheme"].lower(), exp["path"], exp["query"], exp["fragment"]):
            r.fail("C18:replace:accessors:other", f"{ctx} = {str(new)!r}: scheme/path/query/fragment accessors "
                   f"{(new.scheme, new.path, new.query, new.fragment)!r}")
        url, base, ctx0 = new, exp, ctx


def oracle_replace(case) -> Result:
    r = Result()
    base, changes = case["base"], case["changes"]
    steps = [changes] + [dict(c) for c in case.get("then", ())]
    text = build(base)
    url = URL(text)
    judge_replace(r, url, base, steps, f"URL({text!r})")
    if str(url) != text:
        r.fail("C18:replace:original-changed", f"URL({text!r}) reads {str(url)!r} after replace()")
    # constructor from components
    if case.get("ctor"):
        kw = {k: v for k, v in (("scheme", base["scheme"]), ("hostname", base["host"]), ("port", base["port"]), ("username", base["username"]),
                                ("password", base["password"]), ("path", base["path"]), ("query", base["query"]), ("fragment", base["fragment"])) if v is not None and not (v == "" and k not in ("password", "username"))}
        built = URL(**kw)
        g2 = split_url(str(built))
        e2 = dict(base)
        if e2["username"] is None:
            e2["password"] = None
        for k in ("scheme", "username", "password", "host", "port", "path", "query", "fragment"):
            if g2[k] != e2[k]:
                r.fail(f"C18:ctor-components:{k}", f"URL(**{kw!r}) = {str(built)!r}: component {k} is {g2[k]!r}, expected {e2[k]!r}")
    allch = {k for c in steps for k in c}
    v6 = "[" in base["host"] or any("[" in str(c.get("host", "")) for c in steps)
    r.nontrivial = base["username"] is not None or v6 or base["port"] is not None or len(allch) >= 2
    r.label(f"changes={len(changes)}", *(f"chg-{k}" for k in changes))
    if len(steps) > 1:
        r.label(f"chain={len(steps)}")
    if v6:
        r.label("ipv6")
    if base["username"] is not None:
        r.label("userinfo")
    if any(c.get("port", None) == 0 for c in steps) or base["port"] == 0:
        r.label("port-0")
    if any(c.get("scheme") == "" for c in steps):
        r.label("scheme-removed")
    if base.get("port_text") is not None:
        r.label("port-empty" if base["port_text"] == "" else "port-leading-zeros")
    return r


def oracle_request_edit(case) -> Result:
    """replace() on the URL of a request (from the environ and from the scope): the URL a redirect/upgrade is computed from."""
    r = Result()
    req = case["request"]
    rq, scheme, server, host, root, path, query, om_a, om_w = request_inputs(req)
    authority = assemble(req)
    if authority is None:
        raise core.HarnessError("request_edit needs a request with an authority")
    exp = split_url(f"{scheme}://{authority}/")
    base = {"scheme": scheme, "username": None, "password": None, "host": exp["host"], "port": exp["port"],
            "path": root + path, "query": query.decode("latin-1"), "fragment": ""}
    steps = [dict(c) for c in case["steps"]]
    for side in ["asgi"] + (["wsgi"] if server is not None and server[1] is not None else []):
        url = request_url(side, rq)
        judge_replace(r, url, base, steps, f"{side} request {req!r}: url {str(url)!r}")
    r.nontrivial = True
    r.label("host-header" if host is not None else "server-only", *(f"chg-{k}" for c in steps for k in c))
    return r


# ------------------------------------------------------------------------------------------
# C. query helpers, D. repr


def m_assign(model, k, v):
    for i, (kk, _) in enumerate(model):
        if kk == k:
            model[i] = (k, v)
            model[i + 1:] = [(a, b) for a, b in model[i + 1:] if a != k]
            return
    model.append((k, v))


QUERY_PREFIX = "https://example.org/p/"


def oracle_query(case) -> Result:
    """Optional fields of a case: prefix = everything before the query (default https://example.org/p/), fragment, raw = query text
    used instead of urlencode(pairs) (its pairs are read with the standard library's parse_qsl, blank values kept)."""
    r = Result()
    from urllib.parse import urlencode

    prefix, fragment = case.get("prefix", QUERY_PREFIX), case.get("fragment", "")
    if case.get("raw") is not None:
        qtext = case["raw"]
        pairs = parse_qsl(qtext, keep_blank_values=True)
    else:
        pairs = [tuple(p) for p in case["pairs"]]
        qtext = urlencode(pairs)
    base = prefix + ("?" + qtext if qtext else "") + ("#" + fragment if fragment else "")
    url = URL(base)
    op, args = case["op"], case["args"]
    if op == "include":
        kw = {k: v for k, v in args}
        new = url.include_query_params(**kw)
        model = list(pairs)
        for k, v in kw.items():
            m_assign(model, k, str(v))
    elif op == "replace":
        kw = {k: v for k, v in args}
        new = url.replace_query_params(**kw)
        model = [(k, str(v)) for k, v in kw.items()]
    else:
        keys = [k for k, _ in args]
        new = url.remove_query_params(*keys)
        model = [(k, v) for k, v in pairs if k not in keys]
    got = parse_qsl(new.query, keep_blank_values=True)
    if got != model:
        r.fail(f"C18:query-helper:{op}", f"URL({base!r}).{op}({args!r}) -> {str(new)!r}: pairs {got!r}, model {model!r}")
    before, after = split_url(base), split_url(str(new))
    if after["query"] != new.query:
        r.fail(f"C18:query-helper-text:{op}", f"URL({base!r}).{op}({args!r}) -> {str(new)!r}: query accessor {new.query!r}")
    for k in ("scheme", "username", "password", "host", "port", "path", "fragment"):
        if before[k] != after[k]:
            r.fail(f"C18:query-helper-other-components:{op}", f"URL({base!r}).{op}({args!r}) -> {str(new)!r}: component {k} was {before[k]!r}, is {after[k]!r}")
            break
    if str(url) != base:
        r.fail("C18:query-helper:original-changed", f"URL({base!r}) reads {str(url)!r} after {op}")
    keys = [k for k, _ in pairs]
    r.nontrivial = len(set(keys)) < len(keys)
    r.label(f"op={op}")
    if fragment:
        r.label("fragment")
    if prefix != QUERY_PREFIX:
        r.label("other-prefix")
    if case.get("raw") is not None:
        r.label("raw-query")
    if any(re.search(r"[^a-z0-9_]", k) for k, _ in args):
        r.label("key-needs-encoding-or-upper-case")
    return r


def oracle_repr(case) -> Result:
    r = Result()
    c = case["base"]
    text = build(c)
    url = URL(text)
    rep = repr(url)
    pw = c["password"]
    m = re.match(r"^URL\('(.*)'\)$", rep, re.S) or re.match(r'^URL\("(.*)"\)$', rep, re.S)
    if m is None:
        r.fail("C18:repr:shape", f"repr {rep!r}")
        return r
    shown = split_url(m.group(1))
    if pw:
        if shown["password"] != "********":
            r.fail("C18:repr:password-not-masked", f"URL({text!r}): repr {rep!r} shows password field {shown['password']!r}")
        if pw != "********" and f":{pw}@" in rep:
            r.fail("C18:repr:password-leaked", f"URL({text!r}): repr {rep!r} contains ':{pw}@'")
        for k in ("scheme", "username", "host", "port", "path", "query", "fragment"):
            if shown[k] != split_url(text)[k]:
                r.fail(f"C18:repr:other-component:{k}", f"URL({text!r}): repr {rep!r}")
    else:
        if m.group(1) != text:
            r.fail("C18:repr:changed-without-password", f"URL({text!r}): repr {rep!r}")
    r.nontrivial = bool(pw)
    r.label("password" if pw else "no-password")
    if c.get("port_text") is not None:
        r.label("port-spelling-not-canonical")
    if pw and any(pw in str(c[k]) for k in ("host", "path", "query", "fragment") if c[k]):
        r.label("password-occurs-elsewhere")
    return r


SUBS = {"request": oracle_request, "request_grid": oracle_request, "request_opt": oracle_request, "path_convention": oracle_convention,
        "replace": oracle_replace, "replace_grid": oracle_replace, "replace_text": oracle_replace, "request_edit": oracle_request_edit,
        "query": oracle_query, "query_grid": oracle_query, "repr": oracle_repr, "repr_grid": oracle_repr}

# ------------------------------------------------------------------------------------------
# generators

_scheme = st.sampled_from(["http", "https", "ws", "wss"])
_hostname = st.sampled_from(["example.org", "localhost", "a.b.c", "EXAMPLE.com", "127.0.0.1", "10.0.0.5", "xn--bcher-kva.example"])
_v6 = st.sampled_from(["::1", "fe80::1", "2001:db8::8a2e:370:7334", "fe::2"])
_port = st.sampled_from([80, 443, 8000, 8080, 1, 65535, 8443])
_seg = st.one_of(
    st.sampled_from(["a", "b", "path", "to", "é", "中文", "a b", "x.y", "~u", "a+b", "a&b", "a=b", "a;b", "a,b", "a:b", "a@b", "(x)", "'", "!"]),
    st.text(alphabet="abc123-._~", min_size=1, max_size=5),
)
_odd = st.sampled_from(["a?b", "a#b", "100%", "%41", "%2F", "??", "#"])
# what %09, %0A, %0D ... in a request target decode to: urlsplit deletes TAB/LF/CR from a URL text and keeps the others
CONTROLS = ["\t", "\n", "\r", "\x0b", "\x0c", "\x00", "\x7f", "\x85", "\u2028"]
_ctl = st.sampled_from(["a\tb", "a\nb", "a\rb", "\r\n", "\t", "end\n", "\nstart", "x\x0by", "x\x0cy", "a\x00b", "\x7f", "n\x85l", "l\u2028s", "a\tb?c\n#"])

# headers that look like, or compete with, Host - none of them is the Host header
OTHER_HEADERS = [["X-Forwarded-Host", "forwarded.example:81"], ["X-Forwarded-Proto", "https"], ["X-Forwarded-Proto", "http"],
                 ["X-Forwarded-Port", "4430"], ["X-Forwarded-For", "203.0.113.9"], ["Forwarded", "for=203.0.113.9;host=fw.example;proto=https"],
                 ["X-Host", "xhost.example"], ["X-Forwarded-Server", "srv.example"], ["Origin", "https://origin.example:444"],
                 ["Referer", "https://referrer.example/x?y"], ["X-Original-Host", "orig.example"], ["X-Forwarded-Scheme", "wss"]]
# path bytes as they come off the wire after percent-decoding: valid UTF-8, and not
PATH_BYTES = [b"/caf\xc3\xa9", b"/a\xffb", b"/\xe4\xb8", b"/x/\xc3\x28/y", b"/\xfe\xff/", b"/ok/\xe4\xb8\xad\xe6\x96\x87", b"/\x80"]


@st.composite
def path_strategy(draw, odd_rate=8):
    n = draw(st.integers(0, 4))
    segs = []
    for _ in range(n):
        k = draw(st.integers(0, odd_rate))
        segs.append(draw(_odd) if k == 0 else draw(_ctl) if k == 1 else draw(_seg))
    p = "/" + "/".join(segs)
    if segs and draw(st.booleans()):
        p += "/"
    return p


_qchars = "abcxyz019=&%+-._~:/?@!$'()*,;"
_query = st.one_of(st.just(b""), st.sampled_from([b"a=1", b"a=1&b=2", b"q=%E4%B8%AD", b"x", b"a=b=c", b"a=1&a=2", b"?", b"/x?y"]),
                   st.text(alphabet=_qchars, max_size=12).map(lambda s: s.encode("ascii")))


@st.composite
def request_case(draw):
    scheme = draw(_scheme)
    kind = draw(st.sampled_from(["named", "named", "v4", "v6", "none"]))
    port = draw(st.one_of(st.just(DEFAULT[scheme]), _port))
    if kind != "none" and draw(st.integers(0, 9)) == 0:
        port = None  # an ASGI server need not know its port
    if kind == "none":
        server = None
    elif kind == "v6":
        server = [draw(_v6), port]
    else:
        server = [draw(_hostname), port]
    hk = draw(st.sampled_from(["absent", "absent", "absent", "name", "name", "name:port", "name:port", "v6", "v6:port", "v6:port", "name:text", "v6:text"]))
    if hk == "absent":
        host = None
    elif hk == "name":
        host = draw(_hostname)
    elif hk == "name:port":
        host = f"{draw(_hostname)}:{draw(_port)}"
    elif hk == "v6":
        host = f"[{draw(_v6)}]"
    elif hk == "name:text":
        host = f"{draw(_hostname)}:{draw(st.sampled_from(PORT_TEXTS))}"  # Host = uri-host [":" port], port = *DIGIT
    elif hk == "v6:text":
        host = f"[{draw(_v6)}]:{draw(st.sampled_from(PORT_TEXTS))}"
    else:
        host = f"[{draw(_v6)}]:{draw(_port)}"
    root = draw(st.sampled_from(["", "", "", "/root", "/a/b", "/é", "/r/", "/r\tt", "/l\nf/\r", "/v\x0bt\x85"]))
    case = {"scheme": scheme, "server": server, "host": host, "root": root, "path": draw(path_strategy()), "query": draw(_query)}
    extra = draw(st.integers(0, 5))
    if extra == 0:
        hs = draw(st.lists(st.sampled_from(OTHER_HEADERS), min_size=1, max_size=3, unique_by=lambda h: h[0]))
        cut = draw(st.integers(0, len(hs)))
        case["pre"], case["post"] = hs[:cut], hs[cut:]
    elif extra == 1:
        case["omit"] = draw(st.lists(st.sampled_from(ASGI_OPTIONAL + WSGI_OPTIONAL), min_size=1, max_size=6, unique=True))
        if root and draw(st.booleans()):
            case["path"] = ""  # a request for the mount point itself
    elif extra == 2 and draw(st.booleans()):
        case["path"], case["path_bytes"] = None, draw(st.sampled_from(PATH_BYTES))
    elif extra == 3 and root:
        # the path repeats the root path (a mounted app that serves /app/app/..., or a root path that is a prefix of the first segment)
        case["path"] = root + draw(st.sampled_from(["", "/", "bout", "/x"])) if draw(st.booleans()) else root + case["path"]
    # Outside the quantified domain (no server address and no Host header): with no authority at all a path that starts with "//" (an
    # empty first segment) reads as the authority of the URL (URL(scope=...) -> "//evil.example/a": hostname "evil.example", path "/a").
    # path_strategy never draws an empty segment, so this class is not generated.
    return case


def request_grid():
    """Full product of the small dimensions."""
    for scheme in ("http", "https", "ws", "wss"):
        for server in (["example.org", 80], ["example.org", 443], ["example.org", 8000], ["127.0.0.1", 8000], ["::1", 8000], ["::1", 80], ["fe80::1", 443]):
            for host in (None, "example.com", "example.com:8080", "example.com:80", "[::1]", "[fe::2]:8443", "EXAMPLE.com"):
                for root in ("", "/root"):
                    for path in ("/", "/a/b", "/é/中", "/a b"):
                        for query in (b"", b"a=1&b=2"):
                            yield {"scheme": scheme, "server": server, "host": host, "root": root, "path": path, "query": query}


def request_opt_grid():
    """Configurations x one variation at a time: optional keys left out, other headers around Host, server port None, empty PATH_INFO,
    undecodable path bytes."""
    xfh, xfp, xfport, fwd, xh = OTHER_HEADERS[0], OTHER_HEADERS[1], OTHER_HEADERS[3], OTHER_HEADERS[5], OTHER_HEADERS[6]
    variations = [
        {},
        {"omit": ["scheme"]}, {"omit": ["root_path"]}, {"omit": ["server"]}, {"omit": ["scheme", "root_path", "server"]},
        {"omit": ["QUERY_STRING"], "query": b""}, {"omit": ["SCRIPT_NAME"]}, {"omit": ["PATH_INFO"], "root": "/root", "path": ""},
        {"omit": list(ASGI_OPTIONAL + WSGI_OPTIONAL), "query": b""}, {"omit": list(ASGI_OPTIONAL + WSGI_OPTIONAL), "query": b"", "root": "/m/n", "path": ""},
        {"root": "/root", "path": ""}, {"root": "/é", "path": "", "query": b""}, {"root": "/r/"}, {"root": "/r/", "path": "/"},
        {"root": "/app", "path": "/app/users"}, {"root": "/a", "path": "/about"}, {"root": "/v1", "path": "/v1"}, {"root": "/é", "path": "/é/x"},
        {"pre": [xfh]}, {"post": [xfh]}, {"pre": [xh, xfh]}, {"pre": [xfp]}, {"post": [OTHER_HEADERS[2]]}, {"pre": [xfport]}, {"post": [xfport]},
        {"pre": [fwd]}, {"pre": [xfh, xfp, xfport], "post": [fwd, xh]}, {"post": OTHER_HEADERS[7:]},
    ] + [{"path": f"/a{c}b/{c}/c{c}"} for c in CONTROLS] + [{"root": f"/r{c}t", "path": f"/{c}x"} for c in CONTROLS] + [
        {"path": "/a\r\nb/\t"}, {"root": "/m\n", "path": ""}, {"root": "/m\tn", "path": "/x\n", "omit": list(ASGI_OPTIONAL + WSGI_OPTIONAL), "query": b""},
        {"path": "/a\tb?c\n#d\r%0A"},
        # paths that begin with (or contain) empty segments: the join between authority and path must not normalise them
        {"path": "//media//logo.png"}, {"path": "///a"}, {"path": "//"}, {"path": "//static/app.js", "query": b""}, {"root": "/r", "path": "//x"},
        {"root": "/r/", "path": "//x/"}, {"path": "/a//b//"}, {"path": "//é//中", "omit": list(ASGI_OPTIONAL + WSGI_OPTIONAL), "query": b""},
    ] + [{"path": None, "path_bytes": pb} for pb in PATH_BYTES] + [{"path": None, "path_bytes": PATH_BYTES[1], "root": "/é"}]
    for scheme in ("http", "https", "ws", "wss"):
        for server in (None, ["example.org", None], ["::1", None], ["example.org", DEFAULT[scheme]], ["example.org", 8000], ["fe80::1", 8443]):
            for host in (None, "example.com", "[fe::2]:8443"):
                for var in variations:
                    case = {"scheme": scheme, "server": server, "host": host, "root": "", "path": "/p/q", "query": b"a=1&b=2"}
                    case.update(var)
                    yield case
    # Host headers whose port is not spelled canonically (value = the integer, None when empty)
    for scheme in ("http", "https", "ws", "wss"):
        for server in (None, ["example.org", DEFAULT[scheme]], ["::1", 8000]):
            for host in ("example.org:08080", "example.org:0080", "example.org:00443", "example.org:", "127.0.0.1:00", "[fe::2]:00443", "[fe::2]:", "EXAMPLE.com:065535"):
                for var in ({}, {"pre": [xfh, xfport]}, {"omit": list(ASGI_OPTIONAL + WSGI_OPTIONAL), "query": b""}):
                    case = {"scheme": scheme, "server": server, "host": host, "root": "", "path": "/p/q", "query": b"a=1&b=2"}
                    case.update(var)
                    yield case


def convention_grid():
    probes = [["/%41", "/a?b", "/é"], ["/100%", "/a#b"], ["/%2F/x", "/a?b/%41", "/plain"], ["/%E4%B8%AD", "/中?"], ["/%", "/#", "/?"], ["/a%20b", "/a b", "/a?b"]]
    for paths in probes:
        for host in (None, "example.com:8080"):
            for root in ("", "/r%41"):
                yield {"scheme": "http", "server": ["example.org", 80], "host": host, "root": root, "paths": paths, "query": b"x=1"}


_unres = st.text(alphabet="abcXYZ019-._~", min_size=1, max_size=6)
_pw = st.one_of(_unres, st.sampled_from(["p:q", "p@ss", "a:b@c", "********", "x", "secret", "example", "path"]), st.just(""))
_rport = st.sampled_from([80, 443, 8000, 8080, 1, 65535, 8443, 0])  # port 0 is a legal port number of a URL

# port spellings that are not the canonical integer: leading zeros, or nothing after the colon (value None); all legal (port = *DIGIT)
PORT_TEXTS = ["0080", "08000", "00443", "00", "", "000", "065535", "01"]
BASE_PATHS = ["", "/", "/path/to/somewhere", "/secret/x", "/a%20b", "/a@b:c"]
BASE_QUERIES = ["", "abc=123", "a=1&b=2", "secret=1", "e=a@b.c:1&next=/x"]
BASE_FRAGMENTS = ["", "anchor", "secret", "f@g:2/h?i"]
NEW_VALUES = {
    "scheme": ["http", "https", "wss", "ftp", ""],  # "" = scheme-relative (what the static-files redirect asks for)
    "path": ["/", "/new/p", "/x.y/~z", "", "/a%20b/%41", "/n@m:1"],
    "query": ["", "n=1", "a=1&a=2", "q=%20+%2B", "e=x@y:2&next=/a?b"],
    "fragment": ["", "top", "x@y:3/z"],
}


@st.composite
def base_url(draw):
    hk = draw(st.sampled_from(["named", "named", "v4", "v6"]))
    host = f"[{draw(_v6)}]" if hk == "v6" else draw(_hostname)
    user = draw(st.one_of(st.none(), _unres, _unres, _unres, st.just("")))  # ":password@host" (token-style, empty user name) is a legal user-info part
    pw = draw(st.one_of(st.none(), _pw)) if user is not None else None
    base = {
        "scheme": draw(st.sampled_from(["http", "https", "ws", "ftp"])),
        "username": user,
        "password": pw,
        "host": host,
        "port": draw(st.one_of(st.none(), _rport)),
        "path": draw(st.sampled_from(BASE_PATHS)),
        "query": draw(st.sampled_from(BASE_QUERIES)),
        "fragment": draw(st.sampled_from(BASE_FRAGMENTS)),
    }
    if draw(st.integers(0, 5)) == 0:
        base["port_text"] = draw(st.sampled_from(PORT_TEXTS))
        base["port"] = int(base["port_text"]) if base["port_text"] else None
    return base


@st.composite
def changes_strategy(draw, max_size=5):
    keys = draw(st.lists(st.sampled_from(["scheme", "path", "query", "fragment", "username", "password", "host", "port"]), unique=True, min_size=1, max_size=max_size))
    changes = {}
    for k in keys:
        if k in NEW_VALUES:
            changes[k] = draw(st.sampled_from(NEW_VALUES[k]))
        elif k == "username":
            changes[k] = draw(st.one_of(st.none(), _unres))
        elif k == "password":
            changes[k] = draw(st.one_of(st.none(), _pw.filter(lambda s: s != "")))
        elif k == "host":
            changes[k] = draw(st.one_of(_hostname, _v6.map(lambda a: f"[{a}]")))
        else:
            changes[k] = draw(st.one_of(st.none(), _rport))
    return changes


@st.composite
def replace_case(draw):
    case = {"base": draw(base_url()), "changes": draw(changes_strategy()), "ctor": draw(st.booleans())}
    if draw(st.integers(0, 3)) == 0:
        case["then"] = draw(st.lists(changes_strategy(max_size=2), min_size=1, max_size=2))
    return case


def replace_grid():
    def b(scheme="http", username=None, password=None, host="example.org", port=None, path="/p", query="a=1", fragment=""):
        return {"scheme": scheme, "username": username, "password": password, "host": host, "port": port, "path": path, "query": query, "fragment": fragment}

    bases = [
        b(), b(port=8080), b(port=0), b(host="127.0.0.1", port=8000), b(host="EXAMPLE.com", port=443, scheme="https"),
        b(host="[::1]"), b(host="[fe::2]", port=8443), b(host="[2001:db8::8a2e:370:7334]", port=80, username="u", password="p@ss"),
        b(username="user"), b(username="user", password=""), b(username="u", password="a:b@c", port=81), b(username="0", password="0", host="[fe80::1]"),
        b(path="", query="e=a@b.c:1&next=/x", fragment="f@g:2/h?i", username="u", password="pw", port=8000), b(path="/a@b:c", query="", fragment="frag", port=65535),
    ]
    singles = []
    for k, vals in NEW_VALUES.items():
        singles += [{k: v} for v in vals]
    singles += [{"username": v} for v in (None, "new", "x-y_z")] + [{"password": v} for v in (None, "npw", "n:p@w", "********")]
    singles += [{"host": v} for v in ("other.example", "10.0.0.5", "[fe80::1]", "UPPER.example")] + [{"port": v} for v in (None, 0, 1, 80, 9000)]
    combos = [
        {"scheme": "https", "port": 8443}, {"scheme": "https", "port": None, "fragment": "top"}, {"scheme": "", "path": "/p/"}, {"scheme": "", "port": 0},
        {"host": "other.example", "path": "/a%20b/%41"}, {"host": "[fe80::1]", "port": 0}, {"host": "[::1]", "port": None}, {"host": "h.example", "username": "n"},
        {"username": None, "password": "x"}, {"username": "n", "password": None}, {"username": "n", "password": "p:q@r", "port": 1},
        {"password": "only"}, {"port": 0, "query": "q=%20+%2B"}, {"path": "", "query": "", "fragment": ""}, {"username": None, "host": "[fe::2]", "port": 0, "scheme": "wss"},
    ]
    chains = [
        [{"scheme": "https"}, {"port": 8443}], [{"port": 0}, {"host": "other.example"}], [{"host": "[fe80::1]"}, {"port": 9000}, {"username": "n"}],
        [{"username": None}, {"password": "x"}], [{"password": "n:p@w"}, {"port": None}], [{"scheme": ""}, {"port": 0}, {"scheme": "http"}],
        [{"path": "/a%20b/%41"}, {"username": "n"}], [{"port": 0}, {"port": None}, {"port": 80}],
    ]
    for i, base in enumerate(bases):
        for ch in singles + combos:
            yield {"base": base, "changes": ch, "ctor": i % 2 == 0 and "scheme" in ch}
        for chain in chains:
            yield {"base": base, "changes": chain[0], "then": chain[1:], "ctor": False}


def text_bases():
    for host in ("example.org", "127.0.0.1", "[fe::2]", "EXAMPLE.com"):
        for pt in ("0080", "08000", "00443", "00", ""):
            for user, pw in ((None, None), ("u", None), ("u", "p@ss"), ("user", ""), ("0", "00")):
                for path, query, fragment in (("/p", "a=1", ""), ("", "e=a@b.c:1", "f@g:2")):
                    yield {"scheme": "http", "username": user, "password": pw, "host": host, "port": int(pt) if pt else None, "port_text": pt,
                           "path": path, "query": query, "fragment": fragment}


def replace_text_grid():
    """URLs whose port is not spelled canonically x every replace() that does not name the host: components are compared by value (the
    port as an integer, None when empty), so the spelling of an untouched port may or may not be normalised."""
    singles = []
    for k, vals in NEW_VALUES.items():
        singles += [{k: v} for v in vals[:4]]
    singles += [{"username": v} for v in (None, "alice")] + [{"password": v} for v in (None, "npw", "n:p@w")] + [{"port": v} for v in (None, 0, 80, 8443)]
    combos = [{"scheme": "https", "port": 8443}, {"username": "n", "password": "p:q@r"}, {"username": None, "password": "x"}, {"username": "alice", "path": "/x"},
              {"password": "pw2", "fragment": "top"}, {"port": None, "query": ""}, {"scheme": "", "username": "n"}, {"path": "", "query": "", "fragment": ""},
              {"username": "a", "password": "b", "port": 1, "scheme": "wss", "path": "/z", "query": "q=1", "fragment": "f"}]
    chains = [[{"username": "alice"}, {"port": 8443}], [{"scheme": "https"}, {"password": "x"}], [{"path": "/x"}, {"username": None}], [{"port": None}, {"port": 80}],
              [{"fragment": "top"}, {"username": "n"}, {"password": None}]]
    for base in text_bases():
        for ch in singles + combos:
            yield {"base": base, "changes": ch, "ctor": False}
        for chain in chains:
            yield {"base": base, "changes": chain[0], "then": chain[1:], "ctor": False}


def request_edit_grid():
    edits = [
        [{"port": 8443}], [{"scheme": "https", "port": None}], [{"scheme": "https", "port": 8443, "fragment": "top"}], [{"host": "new.example"}],
        [{"host": "[fe80::1]"}], [{"username": "u", "password": "p@ss"}], [{"path": "/new", "query": ""}], [{"port": 0}], [{"scheme": "", "path": "/app/x/"}],
        [{"scheme": "https"}, {"port": 8443}], [{"password": "x"}], [{"query": "next=/a?b"}, {"fragment": "f"}],
    ]
    for scheme, server, host in (
        ("http", ["example.org", 80], None), ("http", ["example.org", 8000], None), ("wss", ["::1", 443], None), ("https", ["fe80::1", 8443], None),
        ("http", ["127.0.0.1", 8000], "EXAMPLE.com"), ("https", ["example.org", 443], "example.com:8080"), ("ws", ["example.org", 80], "[fe::2]:8443"),
        ("http", ["example.org", 80], "[::1]"), ("https", ["example.org", None], None), ("http", None, "example.com:80"),
        ("http", ["example.org", 80], "example.org:08080"), ("https", ["example.org", 443], "[fe::2]:00443"), ("http", ["example.org", 80], "example.org:"),
    ):
        for root, path, query in (("", "/", b""), ("/app", "/x", b"a=1&b=2")):
            for steps in edits:
                yield {"request": {"scheme": scheme, "server": server, "host": host, "root": root, "path": path, "query": query}, "steps": steps}


_qkey = st.sampled_from(["a", "b", "page", "q", "k_1", "A", "Page", "a b", "k&1", "é", "x=y", "a+b"])
_qval = st.one_of(st.sampled_from(["1", "2", "", "x y", "é", "a&b", "a=b", "%", "a+b", "#f"]), st.integers(0, 99))
QUERY_PREFIXES = [QUERY_PREFIX, "http://u:p@ss@[fe::2]:8443/p", "http://user@EXAMPLE.com:8080", "ws://10.0.0.5:0/a%20b/", "http://example.org"]
RAW_QUERIES = ["flag", "flag&a=1", "a=1&flag&a=2", "a+b=1&a%20b=2&b=3", "A=1&a=2&A=3", "%C3%A9=1&q=%C3%A9", "a=x+y&a=x%20y&a=x%2By", "a=1&b&b=&a", "page=1&Page=2"]


def query_case():
    return st.fixed_dictionaries(
        {
            "pairs": st.lists(st.tuples(_qkey, st.sampled_from(["1", "2", "", "x y", "é"])).map(list), max_size=6),
            "op": st.sampled_from(["include", "replace", "remove"]),
            "args": st.lists(st.tuples(_qkey, _qval).map(list), max_size=3, unique_by=lambda p: p[0]),
        },
        optional={
            "prefix": st.sampled_from(QUERY_PREFIXES),
            "fragment": st.sampled_from(["", "frag", "a=1&b=2", "x?y"]),
            "raw": st.one_of(st.none(), st.sampled_from(RAW_QUERIES)),
        },
    )


def query_grid():
    argsets = [[], [["a", "9"]], [["b", 7]], [["zz", ""]], [["a", "x y"], ["b", "é"]], [["A", "1"]], [["a b", "2"]], [["é", "3"]], [["flag", "on"]],
               [["Page", 5], ["page", 6]], [["k&1", "a&b"]], [["x=y", "="]]]
    for prefix in QUERY_PREFIXES:
        for fragment in ("", "frag?x=1"):
            for raw in ["", "a=1", "a=1&b=2&a=3"] + RAW_QUERIES:
                for op in ("include", "replace", "remove"):
                    for args in argsets:
                        yield {"pairs": [], "raw": raw, "op": op, "args": args, "prefix": prefix, "fragment": fragment}


def repr_case():
    return st.fixed_dictionaries({"base": base_url()})


def repr_grid():
    """Passwords that also occur earlier or later in the URL text (user name, scheme, host, path, query, fragment), on every host kind."""
    for host, port in (("example.org", None), ("EXAMPLE.com", 8080), ("127.0.0.1", 0), ("[::1]", None), ("[fe::2]", 8443)):
        for user, pw in (("guest", "guest"), ("0", "0"), ("user", "s"), ("user", "user:user"), ("t", "t"), ("u", "http"), ("u", "example"), ("u", "p@ss"),
                         ("u", "a:b@c"), ("u", "********"), ("u", "secret"), ("u", "1"), ("u", "e"), ("u", ""), ("u", None), (None, None),
                         ("", "secret"), ("", "p@ss"), ("", "0"), ("", "example"), ("", ""), ("", None)):
            for path, query, fragment in (("", "", ""), ("/secret/x", "secret=1&e=a@b.c:1", "secret"), ("/a@b:c", "", "f@g:2/h?i")):
                yield {"base": {"scheme": "http", "username": user, "password": pw, "host": host, "port": port, "path": path, "query": query, "fragment": fragment}}
    for base in text_bases():  # port spelled with leading zeros / empty
        yield {"base": base}



def oracle_atheris(case) -> Result:
    """Replay / triage oracle for inputs found by the Atheris campaign: decode the bytes like the fuzz target does."""
    from fuzz import targets

    res = oracle_replace(targets.CASES["C18"](case["data"]))
    res.label("atheris")
    return res


SUBS["atheris"] = oracle_atheris

def run(rec, only=None):
    quick = rec.tier == "quick"
    core.drive_cases(rec, "request_grid", request_grid(), oracle_request)
    core.drive_cases(rec, "request_opt", request_opt_grid(), oracle_request)
    core.drive_cases(rec, "path_convention", convention_grid(), oracle_convention)
    core.drive_cases(rec, "replace_grid", replace_grid(), oracle_replace)
    core.drive_cases(rec, "replace_text", replace_text_grid(), oracle_replace)
    core.drive_cases(rec, "request_edit", request_edit_grid(), oracle_request_edit)
    core.drive_cases(rec, "query_grid", query_grid(), oracle_query)
    core.drive_cases(rec, "repr_grid", repr_grid(), oracle_repr)
    for k in ("request_grid", "request_opt", "path_convention", "replace_grid", "replace_text", "request_edit", "query_grid", "repr_grid"):
        rec.exhaustive[k] = True
    core.drive_hypothesis(rec, "request", request_case(), oracle_request, 1500 if quick else 40000)
    core.drive_hypothesis(rec, "replace", replace_case(), oracle_replace, 2000 if quick else 40000, seed_offset=1)
    core.drive_hypothesis(rec, "query", query_case(), oracle_query, 800 if quick else 20000, seed_offset=2)
    core.drive_hypothesis(rec, "repr", repr_case(), oracle_repr, 800 if quick else 20000, seed_offset=3)
    for k in ("request", "replace", "query", "repr"):
        rec.exhaustive[k] = False
    if not quick and (rec.only is None or "atheris" in rec.only):
        # coverage-guided second engine (Atheris / libFuzzer), same oracle inside the target
        from fuzz import driver

        driver.campaign(rec, "C18", oracle_atheris, runs=300000, seeds=[b'\x01\x02ab\x01\x01\x00\x03\x01\x02\x00\x01'], max_total_time=150, jobs=4)
