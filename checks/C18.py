"""C18 - Request URLs are reconstructed faithfully and edited component-wise."""
from __future__ import annotations

import re
from urllib.parse import parse_qsl, unquote

from hypothesis import strategies as st

import baize.asgi as basgi
import baize.wsgi as bwsgi
from baize.datastructures import URL

from harness import core, gateways as gw
from harness.core import Result

LEVEL = "exploration"
RULES = {
    "request": "Hypothesis + full product of the small dimensions: (scheme in http/https/ws/wss) x server (named/IPv4/IPv6, default or "
    "other port) x Host header (absent, name, name:port, [v6], [v6]:port) x root path x Unicode path (rarely with ?, #, %) x query, "
    "as WSGI environ and as ASGI scope, compared with a reference assembler; non-trivial = non-default port, IPv6 or a path with "
    "non-ASCII/reserved characters",
    "replace": "Hypothesis: URLs with a host assembled from components (userinfo, named/IPv4/IPv6 host, port, path, query, fragment) x "
    "every subset of components to replace x new values (None for user/password/port), re-parsed with an independent splitter; "
    "non-trivial = userinfo or IPv6 or port present, or >= 2 components replaced",
    "query": "Hypothesis: include/replace/remove query-parameter helpers against a list-of-pairs model; non-trivial = a repeated key",
    "repr": "Hypothesis: repr(url) never shows the password, for passwords that also occur in other components",
}
ASSUMPTIONS = [
    "url.path may equal root+path raw or after one percent-decoding (a repair that quotes the path is not an alarm)",
    "user names / passwords / hosts are drawn from characters that need no percent-encoding; the password may contain ':' and '@'",
    "a WSGI server always provides SERVER_NAME/SERVER_PORT, so 'no server address' exists only on the ASGI side",
]

DEFAULT = {"http": 80, "https": 443, "ws": 80, "wss": 443}

_URL = re.compile(r"^(?:([A-Za-z][A-Za-z0-9+.\-]*):)?(?://([^/?#]*))?([^?#]*)(?:\?([^#]*))?(?:#(.*))?$", re.S)


def split_url(url: str):
    """Independent splitter -> dict(scheme, username, password, host, port, path, query, fragment)."""
    m = _URL.match(url)
    if m is None:
        raise core.HarnessError(f"cannot split {url!r}")
    scheme, authority, path, query, fragment = m.groups()
    out = {"scheme": scheme or "", "path": path or "", "query": query or "", "fragment": fragment or "",
           "username": None, "password": None, "host": None, "port": None, "authority": authority}
    if authority is not None:
        userinfo, at, hostport = authority.rpartition("@")
        if at:
            user, colon, pw = userinfo.partition(":")
            out["username"] = user
            out["password"] = pw if colon else None
        if hostport.startswith("["):
            end = hostport.find("]")
            out["host"] = hostport[: end + 1]
            rest = hostport[end + 1:]
            if rest.startswith(":") and rest[1:].isdigit():
                out["port"] = int(rest[1:])
        else:
            host, colon, port = hostport.rpartition(":")
            if colon and port.isdigit():
                out["host"], out["port"] = host, int(port)
            elif colon and port == "":
                out["host"] = host
            else:
                out["host"] = hostport
    return out


# ------------------------------------------------------------------------------------------
# A. request URL


def assemble(case):
    scheme, server, host, root, path, query = case["scheme"], case["server"], case["host"], case["root"], case["path"], case["query"]
    if host is not None:
        authority = host
    elif server is None:
        authority = None
    else:
        h, p = server
        if ":" in h and not h.startswith("["):
            h = f"[{h}]"
        authority = h if p in (DEFAULT[scheme], None) else f"{h}:{p}"
    return authority


def oracle_request(case) -> Result:
    r = Result()
    scheme, server, host, root, path, query = case["scheme"], case["server"], case["host"], case["root"], case["path"], case["query"]
    headers = [["Host", host]] if host is not None else []
    headers += [["Accept", "*/*"]]
    rq = gw.areq(path=path, query=query, headers=headers, server=server, scheme=scheme, root_path=root)
    authority = assemble(case)
    full_path = root + path
    urls = {}
    ctx = f"{case!r}"
    sides = ["asgi"] + (["wsgi"] if server is not None and server[1] is not None else [])
    for side in sides:
        try:
            if side == "wsgi":
                url = bwsgi.Request(gw.make_environ(rq)).url
            else:
                url = basgi.Request(gw.make_scope(rq)).url
            urls[side] = str(url)
            if authority is None:
                if url.path != full_path and unquote(url.path) != full_path:
                    r.fail(f"C18:{side}:path", f"{ctx}: url.path {url.path!r}, expected {full_path!r}")
                continue
            exp = split_url(f"{scheme}://{authority}/")
            exp_host = exp["host"].strip("[]").lower() if exp["host"] else None
            got = {"scheme": url.scheme, "hostname": url.hostname, "query": url.query, "path": url.path}
            if url.scheme != scheme:
                r.fail(f"C18:{side}:scheme", f"{ctx}: {url.scheme!r}")
            if url.hostname != exp_host:
                r.fail(f"C18:{side}:hostname", f"{ctx}: str(url) = {str(url)!r}, hostname {url.hostname!r}, expected {exp_host!r}")
            try:
                port = url.port
            except ValueError as exc:
                r.fail(f"C18:{side}:port-raises", f"{ctx}: str(url) = {str(url)!r}: url.port raised {exc!r}")
                port = "<raises>"
            if port != "<raises>" and port != exp["port"]:
                r.fail(f"C18:{side}:port", f"{ctx}: str(url) = {str(url)!r}, port {port!r}, expected {exp['port']!r}")
            if url.query != query.decode("latin-1"):
                r.fail(f"C18:{side}:query", f"{ctx}: str(url) = {str(url)!r}, query {url.query!r}, expected {query!r}")
            if url.path != full_path and unquote(url.path) != full_path:
                r.fail(f"C18:{side}:path", f"{ctx}: str(url) = {str(url)!r}, path {url.path!r}, expected {full_path!r}")
            if url.fragment:
                r.fail(f"C18:{side}:fragment", f"{ctx}: str(url) = {str(url)!r} has fragment {url.fragment!r}; a request has none")
            _ = got
        except UnicodeError as exc:
            r.fail(f"C18:{side}:raises:{type(exc).__name__}", f"{ctx}: {exc!r}")
    if len(urls) == 2 and urls["wsgi"] != urls["asgi"]:
        r.fail("C18:interfaces-disagree", f"{ctx}: wsgi {urls['wsgi']!r} vs asgi {urls['asgi']!r}")
    v6 = (server is not None and ":" in server[0]) or (host is not None and "[" in host)
    nondefault = server is not None and server[1] not in (DEFAULT[scheme], None)
    odd_path = any(ord(c) > 127 or c in "?#% " for c in full_path)
    r.nontrivial = v6 or nondefault or odd_path
    r.label(f"scheme={scheme}", "host-header" if host is not None else ("no-server" if server is None else "server-only"))
    if v6:
        r.label("ipv6")
    if nondefault:
        r.label("non-default-port")
    if odd_path:
        r.label("odd-path")
    r.note = urls
    return r


# ------------------------------------------------------------------------------------------
# B. replace


def build(c):
    """URL text from components (None = absent)."""
    authority = c["host"]
    if c["port"] is not None:
        authority += f":{c['port']}"
    if c["username"] is not None:
        ui = c["username"] + (f":{c['password']}" if c["password"] is not None else "")
        authority = f"{ui}@{authority}"
    url = f"{c['scheme']}://{authority}{c['path']}"
    if c["query"]:
        url += "?" + c["query"]
    if c["fragment"]:
        url += "#" + c["fragment"]
    return url


def oracle_replace(case) -> Result:
    r = Result()
    base, changes = case["base"], case["changes"]
    text = build(base)
    url = URL(text)
    kwargs = {}
    for k, v in changes.items():
        kwargs["hostname" if k == "host" else k] = v
    ctx = f"URL({text!r}).replace(**{kwargs!r})"
    new = url.replace(**kwargs)
    got = split_url(str(new))
    exp = dict(base)
    for k in ("scheme", "path", "query", "fragment", "host", "port"):
        if k in changes:
            exp[k] = changes[k]
    user = changes.get("username", base["username"]) if "username" in changes else base["username"]
    pw = changes["password"] if "password" in changes else base["password"]
    if user is None:
        pw = None
    exp["username"], exp["password"] = user, pw
    for k in ("scheme", "username", "password", "host", "port", "path", "query", "fragment"):
        g, e = got[k], exp[k]
        if k in ("scheme",):
            g, e = (g or "").lower(), (e or "").lower()
        if g != e:
            kind = "named" if (k in changes or (k in ("username", "password") and ("username" in changes or "password" in changes))) else "untouched"
            r.fail(f"C18:replace:{kind}:{k}", f"{ctx} = {str(new)!r}: component {k} is {g!r}, expected {e!r}")
    # accessors agree with the independent splitter
    if new.username != exp["username"] or new.password != exp["password"]:
        r.fail("C18:replace:accessors:userinfo", f"{ctx} = {str(new)!r}: username/password {new.username!r}/{new.password!r}")
    try:
        if new.port != exp["port"]:
            r.fail("C18:replace:accessors:port", f"{ctx} = {str(new)!r}: port {new.port!r}, expected {exp['port']!r}")
    except ValueError as exc:
        r.fail("C18:replace:accessors:port-raises", f"{ctx} = {str(new)!r}: {exc!r}")
    if new.hostname != exp["host"].strip("[]").lower():
        r.fail("C18:replace:accessors:hostname", f"{ctx} = {str(new)!r}: hostname {new.hostname!r}")
    # constructor from components
    if case.get("ctor"):
        kw = {k: v for k, v in (("scheme", base["scheme"]), ("hostname", base["host"]), ("port", base["port"]), ("username", base["username"]),
                                ("password", base["password"]), ("path", base["path"]), ("query", base["query"]), ("fragment", base["fragment"])) if v is not None and not (v == "" and k != "password")}
        built = URL(**kw)
        g2 = split_url(str(built))
        e2 = dict(base)
        if e2["username"] is None:
            e2["password"] = None
        for k in ("scheme", "username", "password", "host", "port", "path", "query", "fragment"):
            if g2[k] != e2[k]:
                r.fail(f"C18:ctor-components:{k}", f"URL(**{kw!r}) = {str(built)!r}: component {k} is {g2[k]!r}, expected {e2[k]!r}")
    v6 = "[" in base["host"] or "[" in str(changes.get("host", ""))
    r.nontrivial = base["username"] is not None or v6 or base["port"] is not None or len(changes) >= 2
    r.label(f"changes={len(changes)}", *(f"chg-{k}" for k in changes))
    if v6:
        r.label("ipv6")
    if base["username"] is not None:
        r.label("userinfo")
    return r


# ------------------------------------------------------------------------------------------
# C. query helpers, D. repr


def m_assign(model, k, v):
    for i, (kk, _) in enumerate(model):
        if kk == k:
            model[i] = (k, v)
            model[i + 1:] = [(a, b) for a, b in model[i + 1:] if a != k]
            return
    model.append((k, v))


def oracle_query(case) -> Result:
    r = Result()
    from urllib.parse import urlencode

    pairs = [tuple(p) for p in case["pairs"]]
    base = "https://example.org/p/" + ("?" + urlencode(pairs) if pairs else "")
    url = URL(base)
    op, args = case["op"], case["args"]
    if op == "include":
        kw = {k: v for k, v in args}
        new = url.include_query_params(**kw)
        model = list(pairs)
        for k, v in kw.items():
            m_assign(model, k, str(v))
    elif op == "replace":
        kw = {k: v for k, v in args}
        new = url.replace_query_params(**kw)
        model = [(k, str(v)) for k, v in kw.items()]
    else:
        keys = [k for k, _ in args]
        new = url.remove_query_params(*keys)
        model = [(k, v) for k, v in pairs if k not in keys]
    got = parse_qsl(new.query, keep_blank_values=True)
    if got != model:
        r.fail(f"C18:query-helper:{op}", f"URL({base!r}).{op}({args!r}) -> {str(new)!r}: pairs {got!r}, model {model!r}")
    if str(new).split("?")[0] != base.split("?")[0] or new.fragment:
        r.fail(f"C18:query-helper-other-components:{op}", f"URL({base!r}).{op}({args!r}) -> {str(new)!r}")
    keys = [k for k, _ in pairs]
    r.nontrivial = len(set(keys)) < len(keys)
    r.label(f"op={op}")
    return r


def oracle_repr(case) -> Result:
    r = Result()
    c = case["base"]
    text = build(c)
    url = URL(text)
    rep = repr(url)
    pw = c["password"]
    m = re.match(r"^URL\('(.*)'\)$", rep, re.S) or re.match(r'^URL\("(.*)"\)$', rep, re.S)
    if m is None:
        r.fail("C18:repr:shape", f"repr {rep!r}")
        return r
    shown = split_url(m.group(1))
    if pw:
        if shown["password"] != "********":
            r.fail("C18:repr:password-not-masked", f"URL({text!r}): repr {rep!r} shows password field {shown['password']!r}")
        if pw != "********" and f":{pw}@" in rep:
            r.fail("C18:repr:password-leaked", f"URL({text!r}): repr {rep!r} contains ':{pw}@'")
        for k in ("scheme", "username", "host", "port", "path", "query", "fragment"):
            if shown[k] != split_url(text)[k]:
                r.fail(f"C18:repr:other-component:{k}", f"URL({text!r}): repr {rep!r}")
    else:
        if m.group(1) != text:
            r.fail("C18:repr:changed-without-password", f"URL({text!r}): repr {rep!r}")
    r.nontrivial = bool(pw)
    r.label("password" if pw else "no-password")
    if pw and any(pw in str(c[k]) for k in ("host", "path", "query", "fragment") if c[k]):
        r.label("password-occurs-elsewhere")
    return r


SUBS = {"request": oracle_request, "request_grid": oracle_request, "replace": oracle_replace, "query": oracle_query, "repr": oracle_repr}

# ------------------------------------------------------------------------------------------
# generators

_scheme = st.sampled_from(["http", "https", "ws", "wss"])
_hostname = st.sampled_from(["example.org", "localhost", "a.b.c", "EXAMPLE.com", "127.0.0.1", "10.0.0.5", "xn--bcher-kva.example"])
_v6 = st.sampled_from(["::1", "fe80::1", "2001:db8::8a2e:370:7334", "fe::2"])
_port = st.sampled_from([80, 443, 8000, 8080, 1, 65535, 8443])
_seg = st.one_of(
    st.sampled_from(["a", "b", "path", "to", "é", "中文", "a b", "x.y", "~u", "a+b", "a&b", "a=b", "a;b", "a,b", "a:b", "a@b", "(x)", "'", "!"]),
    st.text(alphabet="abc123-._~", min_size=1, max_size=5),
)
_odd = st.sampled_from(["a?b", "a#b", "100%", "%41", "%2F", "??", "#"])


@st.composite
def path_strategy(draw, odd_rate=8):
    n = draw(st.integers(0, 4))
    segs = [draw(_odd) if draw(st.integers(0, odd_rate)) == 0 else draw(_seg) for _ in range(n)]
    p = "/" + "/".join(segs)
    if segs and draw(st.booleans()):
        p += "/"
    return p


_qchars = "abcxyz019=&%+-._~:/?@!$'()*,;"
_query = st.one_of(st.just(b""), st.sampled_from([b"a=1", b"a=1&b=2", b"q=%E4%B8%AD", b"x", b"a=b=c", b"a=1&a=2", b"?", b"/x?y"]),
                   st.text(alphabet=_qchars, max_size=12).map(lambda s: s.encode("ascii")))


@st.composite
def request_case(draw):
    scheme = draw(_scheme)
    kind = draw(st.sampled_from(["named", "named", "v4", "v6", "none"]))
    port = draw(st.one_of(st.just(DEFAULT[scheme]), _port))
    if kind == "none":
        server = None
    elif kind == "v6":
        server = [draw(_v6), port]
    else:
        server = [draw(_hostname), port]
    hk = draw(st.sampled_from(["absent", "absent", "name", "name:port", "v6", "v6:port"]))
    if hk == "absent":
        host = None
    elif hk == "name":
        host = draw(_hostname)
    elif hk == "name:port":
        host = f"{draw(_hostname)}:{draw(_port)}"
    elif hk == "v6":
        host = f"[{draw(_v6)}]"
    else:
        host = f"[{draw(_v6)}]:{draw(_port)}"
    root = draw(st.sampled_from(["", "", "/root", "/a/b", "/é"]))
    return {"scheme": scheme, "server": server, "host": host, "root": root, "path": draw(path_strategy()), "query": draw(_query)}


def request_grid():
    """Full product of the small dimensions."""
    for scheme in ("http", "https", "ws", "wss"):
        for server in (["example.org", 80], ["example.org", 443], ["example.org", 8000], ["127.0.0.1", 8000], ["::1", 8000], ["::1", 80], ["fe80::1", 443]):
            for host in (None, "example.com", "example.com:8080", "example.com:80", "[::1]", "[fe::2]:8443", "EXAMPLE.com"):
                for root in ("", "/root"):
                    for path in ("/", "/a/b", "/é/中", "/a b"):
                        for query in (b"", b"a=1&b=2"):
                            yield {"scheme": scheme, "server": server, "host": host, "root": root, "path": path, "query": query}


_unres = st.text(alphabet="abcXYZ019-._~", min_size=1, max_size=6)
_pw = st.one_of(_unres, st.sampled_from(["p:q", "p@ss", "a:b@c", "********", "x", "secret", "example", "path"]), st.just(""))


@st.composite
def base_url(draw):
    hk = draw(st.sampled_from(["named", "named", "v4", "v6"]))
    host = f"[{draw(_v6)}]" if hk == "v6" else draw(_hostname)
    user = draw(st.one_of(st.none(), _unres))
    pw = draw(st.one_of(st.none(), _pw)) if user is not None else None
    return {
        "scheme": draw(st.sampled_from(["http", "https", "ws", "ftp"])),
        "username": user,
        "password": pw,
        "host": host,
        "port": draw(st.one_of(st.none(), _port)),
        "path": draw(st.sampled_from(["", "/", "/path/to/somewhere", "/secret/x", "/a%20b"])),
        "query": draw(st.sampled_from(["", "abc=123", "a=1&b=2", "secret=1"])),
        "fragment": draw(st.sampled_from(["", "anchor", "secret"])),
    }


@st.composite
def replace_case(draw):
    base = draw(base_url())
    keys = draw(st.lists(st.sampled_from(["scheme", "path", "query", "fragment", "username", "password", "host", "port"]), unique=True, min_size=1, max_size=5))
    changes = {}
    for k in keys:
        if k == "scheme":
            changes[k] = draw(st.sampled_from(["http", "https", "wss", "ftp"]))
        elif k == "path":
            changes[k] = draw(st.sampled_from(["/", "/new/p", "/x.y/~z", ""]))
        elif k == "query":
            changes[k] = draw(st.sampled_from(["", "n=1", "a=1&a=2"]))
        elif k == "fragment":
            changes[k] = draw(st.sampled_from(["", "top"]))
        elif k == "username":
            changes[k] = draw(st.one_of(st.none(), _unres))
        elif k == "password":
            changes[k] = draw(st.one_of(st.none(), _pw.filter(lambda s: s != "")))
        elif k == "host":
            changes[k] = draw(st.one_of(_hostname, _v6.map(lambda a: f"[{a}]")))
        else:
            changes[k] = draw(st.one_of(st.none(), _port))
    return {"base": base, "changes": changes, "ctor": draw(st.booleans())}


_qkey = st.sampled_from(["a", "b", "page", "q", "k_1"])
_qval = st.one_of(st.sampled_from(["1", "2", "", "x y", "é", "a&b", "a=b", "%"]), st.integers(0, 99))


def query_case():
    return st.fixed_dictionaries(
        {
            "pairs": st.lists(st.tuples(_qkey, st.sampled_from(["1", "2", "", "x y", "é"])).map(list), max_size=6),
            "op": st.sampled_from(["include", "replace", "remove"]),
            "args": st.lists(st.tuples(_qkey, _qval).map(list), max_size=3, unique_by=lambda p: p[0]),
        }
    )


def repr_case():
    return st.fixed_dictionaries({"base": base_url()})


def run(rec, only=None):
    quick = rec.tier == "quick"
    core.drive_cases(rec, "request_grid", request_grid(), oracle_request)
    rec.exhaustive["request_grid"] = True
    core.drive_hypothesis(rec, "request", request_case(), oracle_request, 1500 if quick else 40000)
    core.drive_hypothesis(rec, "replace", replace_case(), oracle_replace, 2000 if quick else 40000, seed_offset=1)
    core.drive_hypothesis(rec, "query", query_case(), oracle_query, 800 if quick else 20000, seed_offset=2)
    core.drive_hypothesis(rec, "repr", repr_case(), oracle_repr, 800 if quick else 20000, seed_offset=3)
    for k in ("request", "replace", "query", "repr"):
        rec.exhaustive[k] = False
