"""C03 - A Range header resolves to the canonical set of satisfiable byte ranges."""
from __future__ import annotations

import itertools

from hypothesis import strategies as st

from baize.exceptions import HTTPException, MalformedRangeHeader, RangeNotSatisfiable
from baize.responses import FileResponseMixin

from harness import core
from harness.core import Result
from harness.refs import ranges as ref

LEVEL = "exploration"
RULES = {
    "atheris": "thorough tier: Atheris/libFuzzer coverage-guided campaign; bytes are decoded into the same structured case and judged by the same oracle inside the target (half of the jobs start from an empty corpus, half from two small valid inputs)",
    "exh": "exhaustive: sizes 0..7 x every range set of 1..k specs (first-last, first-, -suffix over 0..8), "
    "joined with ',' and with ' , '; non-trivial = two specs overlap/touch/nest/are out of order, or a spec "
    "sits exactly on a rejection edge (first=size, first=last+1, suffix in {0,size,size+1})",
    "long": "enumerated: headers with 12..600 specs (disjoint single bytes in both orders, with an invalid / unsatisfiable / byte-adding spec at the very end)",
    "rand": "Hypothesis: sizes up to 10^12, 1..12 specs (occasionally 40..200) biased to the file end and powers of ten, permuted "
    "overlapping/adjacent/nested sets; same non-trivial rule",
    "text": "arbitrary text after/instead of 'bytes=': structural clause + exception class only; "
    "non-trivial = header contains a digit-dash pattern",
}
ASSUMPTIONS = [
    "denotation clause applied only to grammar-clean headers (bytes=spec(,spec)* with optional blanks around commas); "
    "lenient extraction from other text is judged structurally (tests pin 'bytes=0-10,hello')",
    "a header that is both malformed and unsatisfiable may be rejected either way",
]

parse_range = FileResponseMixin.parse_range


def _relation_labels(specs, n):
    labs = []
    nontrivial = False
    edges = False
    for a, b in specs:
        if a is None:
            if b in (0, n, n + 1):
                edges = True
        else:
            if a == n or (b is not None and a == b + 1) or (b is not None and b == n - 1) or a == n - 1:
                edges = True
    if edges:
        labs.append("edge")
        nontrivial = True
    if len(specs) >= 2 and not ref.verdicts(specs, n):
        iv = ref.intervals(specs, n)
        rel = set()
        for (i, x), (j, y) in itertools.combinations(enumerate(iv), 2):
            if x[0] > y[0]:
                rel.add("out-of-order")
            lo, hi = max(x[0], y[0]), min(x[1], y[1])
            if lo < hi:
                if (x[0] <= y[0] and y[1] <= x[1]) or (y[0] <= x[0] and x[1] <= y[1]):
                    rel.add("nested")
                else:
                    rel.add("overlap")
            elif lo == hi:
                rel.add("adjacent")
        if rel:
            nontrivial = True
            labs.extend(sorted(rel))
    return labs, nontrivial


def oracle(case) -> Result:
    h, n = case["h"], case["n"]
    r = Result()
    r.key = (h, n)
    try:
        got = parse_range(h, n)
        outcome = "ok"
    except MalformedRangeHeader as exc:
        outcome = 400
        if exc.status_code != 400:
            r.fail("C03:status-of-malformed", f"MalformedRangeHeader has status {exc.status_code}")
    except RangeNotSatisfiable as exc:
        outcome = 416
        hdrs = {k.lower(): v for k, v in (exc.headers or {}).items()}
        if exc.status_code != 416 or hdrs.get("content-range") != f"*/{n}":
            r.fail("C03:416-content-range", f"416 carries {exc.status_code} {exc.headers!r}, expected */{n}")
    except HTTPException as exc:
        outcome = exc.status_code
        r.fail("C03:wrong-exception:HTTPException", f"{h!r} size {n}: other HTTPException {exc!r}")
    except Exception as exc:  # noqa: BLE001
        r.fail(f"C03:wrong-exception:{type(exc).__name__}", f"{h[:80]!r} size {n}: {type(exc).__name__}: {str(exc)[:200]}")
        r.label("outcome=exception")
        return r
    r.label(f"outcome={outcome}")
    r.note = {"outcome": outcome if outcome != "ok" else [list(x) for x in got]}

    if outcome == "ok":
        probs = ref.structural_problems(got, n)
        for p in probs:
            if "0 <= start < end" in p:
                r.fail("C03:empty-or-out-of-file-range", f"{h!r} size {n} -> {got!r}: {p}")
            elif "strictly after" in p:
                r.fail("C03:not-canonical", f"{h!r} size {n} -> {got!r}: {p}")
            else:
                r.fail("C03:bad-structure", f"{h!r} size {n} -> {got!r}: {p}")

    specs = ref.parse_clean(h)
    if specs is not None:
        r.label(f"specs={min(len(specs), 6)}")
        labs, nt = _relation_labels(specs, n)
        r.label(*labs)
        r.nontrivial = nt
        allowed = ref.verdicts(specs, n)
        if allowed:
            if outcome not in allowed:
                r.fail(
                    f"C03:verdict:expected-{'/'.join(map(str, sorted(allowed)))}-got-{outcome}",
                    f"{h!r} size {n}: statement demands rejection {sorted(allowed)}, got {r.note}",
                )
        else:
            if outcome != "ok":
                r.fail(f"C03:rejected-valid:{outcome}", f"{h!r} size {n}: satisfiable well-formed set rejected with {outcome}")
            else:
                want = ref.runs_by_sweep(specs, n)
                if n <= 64:
                    want2 = ref.runs_by_sets(specs, n)
                    if want != want2:
                        raise core.HarnessError(f"reference resolvers disagree on {h!r} {n}: {want} {want2}")
                if [tuple(x) for x in got] != want:
                    r.fail("C03:wrong-union", f"{h!r} size {n}: got {list(got)!r}, expected {want!r}")
    else:
        r.label("free-text")
        import re as _re

        r.nontrivial = bool(_re.search(r"[0-9]-|-[0-9]", h))
        if not h.startswith("bytes=") and outcome != 400:
            r.fail("C03:unit-not-rejected", f"{h!r}: not a bytes range set but outcome {outcome}")
        elif h.startswith("bytes=") and "-" not in h and outcome != 400:
            r.fail("C03:no-spec-not-rejected", f"{h!r}: no spec at all but outcome {outcome}")
    return r


SUBS = {"exh": oracle, "rand": oracle, "text": oracle, "long": oracle}

# ---------------------------------------------------------------------------------------
# exhaustive small domain


def _universe(maxnum: int):
    nums = range(maxnum + 1)
    u = [f"{a}-{b}" for a in nums for b in nums]
    u += [f"{a}-" for a in nums]
    u += [f"-{s}" for s in nums]
    return u


def exh_shard(rec, k, nshards, maxspecs, maxsize, maxnum):
    u = _universe(maxnum)
    if maxspecs <= 2:
        # zero-padded spellings of the same numbers (single-spec level only, to keep the product small)
        u = u + [f"0{a}-00{b}" for a in range(maxnum + 1) for b in range(maxnum + 1)] + [f"-00{s}" for s in range(maxnum + 1)] + [f"00{a}-" for a in range(maxnum + 1)]
    g = core.guarded(oracle)
    i = 0
    for nspec in range(1, maxspecs + 1):
        for combo in itertools.product(u, repeat=nspec):
            i += 1
            if i % nshards != k:
                continue
            for sep in (",", " , "):
                if nspec == 1 and sep != ",":
                    continue
                h = "bytes=" + sep.join(combo)
                for n in range(maxsize + 1):
                    case = {"h": h, "n": n}
                    res = g(case)
                    rec.count("exh", case, res)
                    new, old = rec.split(res)
                    rec.note_known(old)
                    for f in new:
                        rec.add_violation("exh", f, case)
                        rec.skip.add(f.bucket)


# ---------------------------------------------------------------------------------------
# Hypothesis generators


@st.composite
def rand_case(draw):
    n = draw(
        st.one_of(
            st.integers(0, 20),
            st.sampled_from([99, 100, 101, 999, 1000, 1001, 4623, 65536, 10**6, 10**9 + 7, 10**12]),
            st.integers(0, 10**12),
        )
    )
    anchors = sorted({0, 1, 2, max(n - 2, 0), max(n - 1, 0), n, n + 1, n // 2, n // 2 + 1, 9, 10, 11, 99, 100})
    num = st.one_of(st.sampled_from(anchors), st.integers(0, max(n + 2, 3)), st.integers(0, 30))
    nspec = draw(st.integers(1, 12)) if draw(st.integers(0, 14)) else draw(st.integers(40, 200))
    specs = []
    base = draw(st.lists(num, min_size=2, max_size=6))  # a small pool => overlaps and touches are frequent
    pool = st.one_of(st.sampled_from(base), num, st.sampled_from(base).map(lambda x: x + 1))
    for _ in range(nspec):
        kind = draw(st.sampled_from(["ab", "ab", "ab", "a-", "-s"]))
        if kind == "ab":
            a, b = draw(pool), draw(pool)
            if a > b and draw(st.integers(0, 9)) > 0:
                a, b = b, a
            specs.append(f"{a}-{b}")
        elif kind == "a-":
            specs.append(f"{draw(pool)}-")
        else:
            specs.append(f"-{draw(st.one_of(st.integers(0, 5), pool))}")
    if draw(st.integers(0, 3)) == 0:
        # numbers may be written with leading zeros (1*DIGIT)
        def pad(m):
            return "0" * draw(st.integers(1, 4)) + m.group(0) if draw(st.booleans()) else m.group(0)

        import re as _re

        specs = [_re.sub(r"[0-9]+", pad, sp) for sp in specs]
    sep = draw(st.sampled_from([",", ", ", " ,", " , ", ",\t"]))
    return {"h": "bytes=" + sep.join(specs), "n": n}


_frag = st.one_of(
    st.sampled_from(
        ["bytes", "=", "-", ",", " ", "0", "1", "5", "10", "9" * 30, "bytes=", "byte=", "Bytes=", "items=", "--", "-,", ",,", ";", "\t",
         "٣", "３", "a", "=-", "0-0", "1-", "-1", "hello", "\x00", "\n", "e", "+", ".", "9" * 5000]
    ),
    st.text(max_size=3),
)


@st.composite
def text_case(draw):
    n = draw(st.one_of(st.integers(0, 12), st.sampled_from([4623, 10**6])))
    parts = draw(st.lists(_frag, min_size=0, max_size=8))
    h = "".join(parts)
    if draw(st.booleans()):
        h = "bytes=" + h
    return {"h": h, "n": n}



def oracle_atheris(case) -> Result:
    """Replay / triage oracle for inputs found by the Atheris campaign: decode the bytes like the fuzz target does."""
    from fuzz import targets

    inner = targets.CASES["C03"](case["data"])
    res = oracle(inner)
    res.label("atheris")
    return res


SUBS["atheris"] = oracle_atheris

def long_cases():
    """Headers with many specs (a server-side cap on the number of specs must not silently drop the tail):
    k disjoint single-byte ranges, the same with an invalid or an unsatisfiable spec at the very end, and
    a long redundant prefix followed by one spec that adds bytes."""
    for k in (12, 33, 63, 64, 65, 66, 100, 129, 257, 600):
        n = 4 * k + 10
        specs = [f"{2 * i}-{2 * i}" for i in range(k)]
        yield {"h": "bytes=" + ",".join(specs), "n": n}
        yield {"h": "bytes=" + ", ".join(reversed(specs)), "n": n}
        yield {"h": "bytes=" + ",".join(specs + ["9-3"]), "n": n}
        yield {"h": "bytes=" + ",".join(specs + [f"{n}-"]), "n": n}
        yield {"h": "bytes=" + ",".join(["0-1"] * k + [f"{n - 2}-"]), "n": n}
        yield {"h": "bytes=" + ",".join(["0-1"] * k + ["-1"]), "n": n}


def run(rec, only=None):
    quick = rec.tier == "quick"
    core.drive_cases(rec, "long", long_cases(), oracle)
    rec.exhaustive["long"] = True
    if quick:
        core.run_sharded(rec, exh_shard, 8, min(8, core.ncpu()), (2, 7, 8))
    else:
        core.run_sharded(rec, exh_shard, 64, core.ncpu(), (3, 7, 8))
    rec.exhaustive["exh"] = True
    core.drive_hypothesis(rec, "rand", rand_case(), oracle, 3000 if quick else 60000)
    core.drive_hypothesis(rec, "text", text_case(), oracle, 2000 if quick else 40000, seed_offset=1)
    rec.exhaustive["rand"] = False
    rec.exhaustive["text"] = False
    if not quick:
        # coverage-guided second engine (Atheris / libFuzzer), same oracle inside the target
        from fuzz import driver

        driver.campaign(rec, "C03", oracle_atheris, runs=300000, seeds=[b'\x05\x02\x00\x01\x04\x00\x00', b'\x02\x00'], max_total_time=240, jobs=4)
